"""Reference semantics of reduced-form indexed grammars (C17), written from the rule forms:

    ('end',  A, a)        A[s]   -> a          (a = None: the empty word; the stack is dropped)
    ('prod', A, B, r)     A[s]   -> B[r s]
    ('cons', r, C, B)     C[r s] -> B[s]
    ('dup',  A, B, C)     A[s]   -> B[s] C[s]

Emptiness is decided exactly: whether A[s] derives a terminal word depends on the stack s only through the sets
G(s') = {B : B[s'] derives a terminal word} of its suffixes, and G(r s) = F_r(G(s)) for functions F_r on sets of non-terminals
that are defined by a least fixpoint (finite derivations) and computed by Kleene iteration on their tables.
"""
import itertools


def nonterminals(rules, start='S'):
    out = {start}
    for r in rules:
        if r[0] == 'end': out.add(r[1])
        elif r[0] == 'prod': out |= {r[1], r[2]}
        elif r[0] == 'cons': out |= {r[2], r[3]}
        else: out |= {r[1], r[2], r[3]}
    return out


def indices(rules): return {r[3] for r in rules if r[0] == 'prod'} | {r[1] for r in rules if r[0] == 'cons'}


def generating_sets(rules, start='S'):
    """(G(empty stack), table of the demanded values F_r(X)); the table is filled on demand and iterated to its least fixpoint"""
    F = {}                      # (r, X) -> current under-approximation of F_r(X)
    def lookup(r, X):
        if (r, X) not in F: F[(r, X)] = frozenset(); demanded[0] = True
        return F[(r, X)]
    def close(top, X):
        Y = set(); ch = True
        while ch:
            ch = False
            for r in rules:
                if r[0] == 'end': add = r[1]
                elif r[0] == 'dup': add = r[1] if (r[2] in Y and r[3] in Y) else None
                elif r[0] == 'cons': add = r[2] if (top is not None and r[1] == top and r[3] in X) else None
                else: add = r[1] if r[2] in lookup(r[3], frozenset(Y)) else None
                if add is not None and add not in Y: Y.add(add); ch = True
        return frozenset(Y)
    demanded = [False]
    while True:
        demanded[0] = False; changed = False
        Y0 = close(None, frozenset())
        for (r, X) in list(F):
            v = close(r, X)
            if v != F[(r, X)]: F[(r, X)] = v; changed = True
        if not changed and not demanded[0]: return Y0, F


def is_empty(rules, start='S'):
    Y0, _ = generating_sets(rules, start)
    return start not in Y0


def derivable_words(rules, start='S', max_len=3, max_stack=3, max_forms=20000):
    """terminal words found by bounded leftmost derivation search (a lower bound, used to cross-check the exact oracle)"""
    by = {}
    for r in rules:
        head = r[2] if r[0] == 'cons' else r[1]
        by.setdefault(head, []).append(r)
    from collections import deque
    seen = set(); todo = deque([((start, ()),)]); words = set()
    while todo and len(seen) < max_forms:
        form = todo.popleft()
        if form in seen: continue
        seen.add(form)
        idx = next((i for i, s in enumerate(form) if isinstance(s, tuple)), None)
        if idx is None: words.add(tuple(x for x in form)); continue
        A, st = form[idx]; pre, post = form[:idx], form[idx + 1:]
        if len([x for x in form if not isinstance(x, tuple)]) > max_len: continue
        for r in by.get(A, ()):
            if r[0] == 'end': new = pre + ((r[2],) if r[2] is not None else ()) + post
            elif r[0] == 'prod':
                if len(st) >= max_stack: continue
                new = pre + ((r[2], (r[3],) + st),) + post
            elif r[0] == 'cons':
                if not st or st[0] != r[1]: continue
                new = pre + ((r[3], st[1:]),) + post
            else:
                if len(form) > max_len + 3: continue
                new = pre + ((r[2], st), (r[3], st)) + post
            if new not in seen: todo.append(new)
    return words


def product_with_dfa(rules, R, start='S'):
    """my own reduced-form product of an indexed grammar with a (reference) automaton, for the intersection part of C17"""
    from specs import fa as F
    st, finals, delta, seen, alphabet = F.determinize(R, alphabet=sorted(set(R[1]) | {r[2] for r in rules if r[0] == 'end' and r[2] is not None}, key=repr))
    Q = sorted(seen, key=lambda s: sorted(map(repr, s)))
    out = [('end', 'T#', None)]
    for r in rules:
        if r[0] == 'end':
            for p in Q:
                if r[2] is None: out.append(('end', (p, r[1], p), None))
                else: out.append(('end', (p, r[1], delta[(p, r[2])]), r[2]))
        elif r[0] == 'dup':
            for p in Q:
                for q in Q:
                    for m in Q: out.append(('dup', (p, r[1], q), (p, r[2], m), (m, r[3], q)))
        elif r[0] == 'prod':
            for p in Q:
                for q in Q: out.append(('prod', (p, r[1], q), (p, r[2], q), r[3]))
        else:
            for p in Q:
                for q in Q: out.append(('cons', r[1], (p, r[2], q), (p, r[3], q)))
    for f in finals: out.append(('dup', 'S#', (st, start, f), 'T#'))
    return out, 'S#'


def build(rules, optim=7, start='S'):
    from pyformlang.indexed_grammar import Rules, EndRule, ProductionRule, ConsumptionRule, DuplicationRule, IndexedGrammar
    objs = []
    for r in rules:
        if r[0] == 'end': objs.append(EndRule(r[1], 'epsilon' if r[2] is None else r[2]))
        elif r[0] == 'prod': objs.append(ProductionRule(r[1], r[2], r[3]))
        elif r[0] == 'cons': objs.append(ConsumptionRule(r[1], r[2], r[3]))
        else: objs.append(DuplicationRule(r[1], r[2], r[3]))
    return IndexedGrammar(Rules(objs, optim), start)


def random_rules(rng, n_rules=None):
    N = ['S', 'A', 'B', 'C'][:rng.choice([2, 3, 3, 4])]; I = ['f', 'g'][:rng.choice([1, 2])]
    rules = []
    for _ in range(n_rules or rng.randint(2, 6)):
        k = rng.choice(['end', 'prod', 'cons', 'cons', 'dup'])
        if k == 'end': rules.append(('end', rng.choice(N), rng.choice(['a', 'b', None])))
        elif k == 'prod': rules.append(('prod', rng.choice(N), rng.choice(N), rng.choice(I)))
        elif k == 'cons': rules.append(('cons', rng.choice(I), rng.choice(N), rng.choice(N)))
        else: rules.append(('dup', rng.choice(N), rng.choice(N), rng.choice(N)))
    return rules


def structured_rules(rng):
    """family aimed at the combination of consumption alternatives: S pushes an index, a duplication spreads the stack over two variables,
    each of which has 0-2 consumption rules per index, leading to variables with or without end rules"""
    I = ['f', 'g'][:rng.choice([1, 2, 2])]
    rules = [('prod', 'S', 'A', i) for i in I if rng.random() < 0.8] or [('prod', 'S', 'A', I[0])]
    rules.append(('dup', 'A', 'C1', 'C2'))
    Ds = ['D1', 'D2', 'D3']
    for c in ('C1', 'C2'):
        for i in I:
            for d in rng.sample(Ds, rng.choice([0, 1, 1, 2])): rules.append(('cons', i, c, d))
    for d in Ds:
        if rng.random() < 0.6: rules.append(('end', d, rng.choice(['a', 'b', None])))
    if rng.random() < 0.3: rules.append(('prod', 'D3', 'A', rng.choice(I)))
    rng.shuffle(rules)
    return rules
