"""Reference semantics of finite-state transducers (C16): the transduction relation by exploration of
(state, position, output) configurations.  T = (starts, finals, trans); trans: tuple of (p, a, q, out) with a = None for an
epsilon-input move and out a tuple of output symbols."""
import itertools


def mk(starts, finals, trans):
    return (frozenset(starts), frozenset(finals), tuple(sorted(((p, a, q, tuple(o)) for p, a, q, o in trans), key=repr)))


def outputs(T, word, max_out=None):
    """all outputs of accepting paths reading `word`; with max_out only the outputs of length <= max_out (exact for those,
    since outputs never shrink along a path)"""
    starts, finals, trans = T; word = tuple(word)
    by = {}
    for p, a, q, o in trans: by.setdefault(p, []).append((a, q, o))
    seen = set(); todo = [(s, 0, ()) for s in starts]; res = set()
    while todo:
        c = todo.pop()
        if c in seen: continue
        seen.add(c); p, i, out = c
        if i == len(word) and p in finals: res.add(out)
        for a, q, o in by.get(p, ()):
            if a is None: ni = i
            elif i < len(word) and word[i] == a: ni = i + 1
            else: continue
            no = out + o
            if max_out is not None and len(no) > max_out: continue
            todo.append((q, ni, no))
    return res


def writing_epsilon_cycle(T):
    """is there a cycle of epsilon-input moves along which something is written?"""
    starts, finals, trans = T
    eps = [(p, q, o) for p, a, q, o in trans if a is None]
    reach = {}
    nodes = {p for p, _, _ in eps} | {q for _, q, _ in eps}
    for n in nodes:
        r = {n}; todo = [n]
        while todo:
            x = todo.pop()
            for p, q, o in eps:
                if p == x and q not in r: r.add(q); todo.append(q)
        reach[n] = r
    return any(o and p in reach[q] for p, q, o in eps)


def states(T): return set(T[0]) | set(T[1]) | {t[0] for t in T[2]} | {t[2] for t in T[2]}


def tag(T, t):
    return mk({(t, s) for s in T[0]}, {(t, s) for s in T[1]}, [((t, p), a, (t, q), o) for p, a, q, o in T[2]])


def ref_union(A, B):
    A, B = tag(A, 0), tag(B, 1); return mk(A[0] | B[0], A[1] | B[1], A[2] + B[2])


def ref_concat(A, B):
    A, B = tag(A, 0), tag(B, 1)
    return mk(A[0], B[1], A[2] + B[2] + tuple((f, None, s, ()) for f in A[1] for s in B[0]))


def ref_star(A):
    N = ('#star',)
    return mk({N}, {N}, A[2] + tuple((N, None, s, ()) for s in A[0]) + tuple((f, None, N, ()) for f in A[1]))


def build(T):
    from pyformlang.fst import FST
    f = FST()
    for s in sorted(T[0], key=repr): f.add_start_state(s)
    for s in sorted(T[1], key=repr): f.add_final_state(s)
    for p, a, q, o in T[2]: f.add_transition(p, 'epsilon' if a is None else a, q, list(o))
    return f


def extract(f):
    trans = []
    for (p, a), outs in f.transitions.items():
        for q, o in outs: trans.append((p, None if a == 'epsilon' else a, q, tuple(x for x in o)))
    return mk(set(f.start_states), set(f.final_states), trans)


def to_json(T): return {'starts': sorted(T[0], key=repr), 'finals': sorted(T[1], key=repr), 'trans': [[p, a, q, list(o)] for p, a, q, o in T[2]]}
def from_json(d): return mk(d['starts'], d['finals'], [(p, a, q, tuple(o)) for p, a, q, o in d['trans']])


def random_fst(rng, names=('q0', 'q1', 'q2'), out=('x', 'y')):
    n = rng.choice([1, 2, 2, 3]); Q = list(names[:n])
    while True:
        tr = []
        for _ in range(rng.randint(1, 5)):
            tr.append((rng.choice(Q), rng.choice(['a', 'b', None, None]), rng.choice(Q), tuple(rng.choice(list(out)) for _ in range(rng.choice([0, 0, 1, 1, 2])))))
        T = mk([s for s in Q if rng.random() < 0.5] or [Q[0]], [s for s in Q if rng.random() < 0.5], tr)
        if not writing_epsilon_cycle(T): return T
