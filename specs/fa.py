"""Reference semantics of finite automata, written from the property statements (C01-C04, C06), not from the repo.

A reference automaton is a tuple  R = (states, symbols, starts, finals, trans)  with trans a set of (p, a, q), a = None
for an epsilon move.  Everything here is plain set manipulation on those tuples.
"""
import itertools
from collections import deque

EPS = None


def mk(states=(), symbols=(), starts=(), finals=(), trans=()):
    trans = {(p, a, q) for (p, a, q) in trans}
    states = set(states) | set(starts) | set(finals) | {p for p, _, _ in trans} | {q for _, _, q in trans}
    symbols = set(symbols) | {a for _, a, _ in trans if a is not None}
    return (frozenset(states), frozenset(symbols), frozenset(starts), frozenset(finals), frozenset(trans))


def eclose(R, S):
    trans = R[4]; S = set(S); todo = list(S)
    eps = {}
    for p, a, q in trans:
        if a is None: eps.setdefault(p, set()).add(q)
    while todo:
        p = todo.pop()
        for q in eps.get(p, ()):
            if q not in S: S.add(q); todo.append(q)
    return frozenset(S)


def step(R, S, a):
    return frozenset(q for (p, b, q) in R[4] if b == a and a is not None and p in S)


def accepts(R, word):
    """some run from a start state spells `word` (epsilon moves free) and ends in a final state"""
    cur = eclose(R, R[2])
    for c in word:
        cur = eclose(R, step(R, cur, c))
    return bool(cur & R[3])


def determinize(R, alphabet=None):
    """total DFA over `alphabet` as (start, finals, delta) on frozenset states (the empty set is the sink)"""
    alphabet = sorted(R[1] if alphabet is None else alphabet, key=repr)
    start = eclose(R, R[2]); seen = {start}; todo = [start]; delta = {}
    while todo:
        S = todo.pop()
        for a in alphabet:
            Tn = eclose(R, step(R, S, a)); delta[(S, a)] = Tn
            if Tn not in seen: seen.add(Tn); todo.append(Tn)
    finals = {S for S in seen if S & R[3]}
    return start, finals, delta, seen, alphabet


def equivalent(R1, R2):
    """exact language equality; returns (True, None) or (False, distinguishing word)"""
    alphabet = sorted(set(R1[1]) | set(R2[1]), key=repr)
    s1 = eclose(R1, R1[2]); s2 = eclose(R2, R2[2])
    seen = {(s1, s2)}; todo = deque([(s1, s2, ())])
    while todo:
        a1, a2, w = todo.popleft()
        if bool(a1 & R1[3]) != bool(a2 & R2[3]): return False, list(w)
        for a in alphabet:
            n1 = eclose(R1, step(R1, a1, a)); n2 = eclose(R2, step(R2, a2, a))
            if (n1, n2) not in seen: seen.add((n1, n2)); todo.append((n1, n2, w + (a,)))
    return True, None


def is_empty(R):
    reach = set(R[2]); todo = list(reach)
    while todo:
        p = todo.pop()
        for (p1, a, q) in R[4]:
            if p1 == p and q not in reach: reach.add(q); todo.append(q)
    return not (reach & R[3])


def reachable(R):
    reach = set(R[2]); todo = list(reach)
    while todo:
        p = todo.pop()
        for (p1, a, q) in R[4]:
            if p1 == p and q not in reach: reach.add(q); todo.append(q)
    return reach


def is_deterministic(R):
    """at most one start state, at most one successor per state and symbol, no epsilon move to another state"""
    if len(R[2]) > 1: return False
    seen = {}
    for p, a, q in R[4]:
        if a is None:
            if p != q: return False
            continue
        if seen.setdefault((p, a), q) != q: return False
    return True


def is_acyclic(R):
    """no cycle reachable from a start state"""
    reach = reachable(R); succ = {}
    for p, a, q in R[4]:
        if p in reach: succ.setdefault(p, set()).add(q)
    color = {}
    def dfs(u):
        color[u] = 1
        for v in succ.get(u, ()):
            if color.get(v) == 1: return False
            if v not in color and not dfs(v): return False
        color[u] = 2; return True
    return all(dfs(u) for u in reach if u not in color)


def words_upto(alphabet, n):
    alphabet = sorted(alphabet, key=repr)
    for k in range(n + 1):
        for w in itertools.product(alphabet, repeat=k): yield list(w)


def language_upto(R, n, alphabet=None):
    return {tuple(w) for w in words_upto(R[1] if alphabet is None else alphabet, n) if accepts(R, w)}


def language_is_finite(R):
    """finite iff no cycle through a useful state spells a non-empty word ... computed on the determinised trim part"""
    start, finals, delta, seen, alphabet = determinize(R)
    # co-reachable subsets
    pred = {}
    for (S, a), Tn in delta.items(): pred.setdefault(Tn, set()).add(S)
    co = set(finals); todo = list(finals)
    while todo:
        S = todo.pop()
        for P in pred.get(S, ()):
            if P not in co: co.add(P); todo.append(P)
    useful = {S for S in seen if S in co}
    succ = {S: {delta[(S, a)] for a in alphabet if delta[(S, a)] in useful} for S in useful}
    color = {}
    def dfs(u):
        color[u] = 1
        for v in succ[u]:
            if color.get(v) == 1: return False
            if v not in color and not dfs(v): return False
        color[u] = 2; return True
    if start not in useful: return True
    return dfs(start)


def minimal_dfa_size(R):
    """number of states of the minimal *partial* (trim) DFA = number of Myhill-Nerode classes with non-empty residual"""
    start, finals, delta, seen, alphabet = determinize(R)
    # Moore refinement on the total DFA
    part = {S: (S in finals) for S in seen}
    while True:
        sig = {S: (part[S], tuple(part[delta[(S, a)]] for a in alphabet)) for S in seen}
        ids = {}; new = {S: ids.setdefault(sig[S], len(ids)) for S in seen}
        if len(set(new.values())) == len(set(part.values())): part = new; break
        part = new
    # classes with non-empty residual language
    pred = {}
    for (S, a), Tn in delta.items(): pred.setdefault(Tn, set()).add(S)
    co = set(finals); todo = list(finals)
    while todo:
        S = todo.pop()
        for P in pred.get(S, ()):
            if P not in co: co.add(P); todo.append(P)
    return len({part[S] for S in seen if S in co})


# ------------------------------------------------------------------ bridge to pyformlang objects (public API only)
def val(x):
    return getattr(x, 'value', x)


def extract(aut):
    """read a pyformlang automaton back through its public API"""
    from pyformlang.finite_automaton import Epsilon
    trans = set()
    for p, by in aut.to_dict().items():
        for a, tos in by.items():
            if not isinstance(tos, (set, frozenset, list, tuple)): tos = [tos]
            for q in tos:
                trans.add((val(p), None if isinstance(a, Epsilon) or a == Epsilon() else val(a), val(q)))
    return mk({val(s) for s in aut.states}, {val(s) for s in aut.symbols}, {val(s) for s in aut.start_states},
              {val(s) for s in aut.final_states}, trans)


def build(R, cls=None):
    from pyformlang.finite_automaton import EpsilonNFA
    aut = (cls or EpsilonNFA)()
    states, symbols, starts, finals, trans = R
    for s in sorted(starts, key=repr): aut.add_start_state(s)
    for s in sorted(finals, key=repr): aut.add_final_state(s)
    for (p, a, q) in sorted(trans, key=repr):
        aut.add_transition(p, 'epsilon' if a is None else a, q)
    for a in sorted(symbols, key=repr): aut.add_symbol(a)
    return aut


def to_json(R):
    return {'states': sorted(R[0], key=repr), 'symbols': sorted(R[1], key=repr), 'starts': sorted(R[2], key=repr),
            'finals': sorted(R[3], key=repr), 'trans': sorted(([p, a, q] for p, a, q in R[4]), key=repr)}


def from_json(d):
    return mk(d.get('states', ()), d.get('symbols', ()), d['starts'], d['finals'], [tuple(t) for t in d['trans']])


# ------------------------------------------------------------------ enumeration of small automata
def enum_enfa(n, alphabet, eps=True, names=None):
    """all epsilon-NFAs on states 0..n-1 (renamed through `names`) over `alphabet` (+eps): every I, F, T"""
    names = names or list(range(n)); sts = names[:n]
    labels = list(alphabet) + ([None] if eps else [])
    edges = [(p, a, q) for p in sts for a in labels for q in sts]
    for ib in range(1 << n):
        I = [sts[i] for i in range(n) if ib >> i & 1]
        for fb in range(1 << n):
            F = [sts[i] for i in range(n) if fb >> i & 1]
            for tb in range(1 << len(edges)):
                yield mk(sts, alphabet, I, F, [edges[i] for i in range(len(edges)) if tb >> i & 1])


def random_enfa(rng, n, alphabet, eps=True, density=0.25, names=None):
    names = names or list(range(n)); sts = names[:n]
    labels = list(alphabet) + ([None] if eps else [])
    I = [s for s in sts if rng.random() < 0.4]; F = [s for s in sts if rng.random() < 0.4]
    T = [(p, a, q) for p in sts for a in labels for q in sts if rng.random() < density]
    return mk(sts, alphabet, I, F, T)


def random_dfa(rng, n, alphabet, names=None, total_p=0.7):
    names = names or list(range(n)); sts = names[:n]
    T = [(p, a, rng.choice(sts)) for p in sts for a in alphabet if rng.random() < total_p]
    F = [s for s in sts if rng.random() < 0.4]
    return mk(sts, alphabet, [sts[0]], F, T)
