"""Reference semantics of context-free grammars, from the property statements (C08-C12), not from the repo.

A reference grammar is  G = (start, prods)  with prods a frozenset of (head, body); a symbol is ('v', value) or ('t', value);
head is a variable symbol, body a tuple of symbols.  Derivability is the textbook one.
"""
import itertools


def V(x): return ('v', x)
def T(x): return ('t', x)
def is_var(s): return s[0] == 'v'


def mk(start, prods):
    return (start, frozenset((h, tuple(b)) for h, b in prods))


def variables(G):
    out = {G[0]}
    for h, b in G[1]:
        out.add(h); out |= {s for s in b if is_var(s)}
    return out


def terminals(G):
    return {s for _, b in G[1] for s in b if not is_var(s)}


def generating(G):
    """symbols deriving some terminal word (terminals included)"""
    gen = set(terminals(G)); ch = True
    while ch:
        ch = False
        for h, b in G[1]:
            if h not in gen and all(s in gen for s in b): gen.add(h); ch = True
    return gen


def nullable(G):
    nl = set(); ch = True
    while ch:
        ch = False
        for h, b in G[1]:
            if h not in nl and all(s in nl for s in b): nl.add(h); ch = True
    return nl


def reachable(G):
    """symbols occurring in a sentential form derivable from the start symbol"""
    r = {G[0]}; todo = [G[0]]
    while todo:
        x = todo.pop()
        for h, b in G[1]:
            if h == x:
                for s in b:
                    if s not in r: r.add(s); todo.append(s)
    return r


def lang_table(G, n):
    """for every variable the set of terminal words (tuples of terminal values) of length <= n it derives"""
    L = {v: set() for v in variables(G)}
    ch = True
    while ch:
        ch = False
        for h, b in G[1]:
            acc = {()}
            for s in b:
                nxt = set()
                part = L[s] if is_var(s) else {(s[1],)}
                for u in acc:
                    for w in part:
                        if len(u) + len(w) <= n: nxt.add(u + w)
                acc = nxt
                if not acc: break
            if not acc <= L[h]: L[h] |= acc; ch = True
    return L


def lang(G, n):
    return lang_table(G, n)[G[0]]


def is_empty(G): return G[0] not in generating(G)


def is_finite(G):
    """finitely many words: no cycle among useful variables with a context that can derive a non-empty word"""
    gen = generating(G); useful_prods = [(h, b) for h, b in G[1] if h in gen and all(s in gen for s in b)]
    Gu = mk(G[0], useful_prods); reach = reachable(Gu)
    useful = {v for v in variables(Gu) if v in gen and v in reach}
    if G[0] not in gen: return True
    prods = [(h, b) for h, b in useful_prods if h in useful]
    ne = set(terminals(Gu)); ch = True       # symbols deriving some non-empty word
    while ch:
        ch = False
        for h, b in prods:
            if h not in ne and any(s in ne for s in b): ne.add(h); ch = True
    edges = {}                               # A -> {(B, strict)}
    for h, b in prods:
        for i, s in enumerate(b):
            if is_var(s) and s in useful:
                strict = any(x in ne for j, x in enumerate(b) if j != i)
                edges.setdefault(h, set()).add((s, strict))
    # a cycle containing a strict edge: SCCs; strict edge inside an SCC
    idx = {}; low = {}; stack = []; on = set(); comp = {}; cnt = [0]
    def sc(v):
        idx[v] = low[v] = cnt[0]; cnt[0] += 1; stack.append(v); on.add(v)
        for (w, _) in edges.get(v, ()):
            if w not in idx: sc(w); low[v] = min(low[v], low[w])
            elif w in on: low[v] = min(low[v], idx[w])
        if low[v] == idx[v]:
            while True:
                w = stack.pop(); on.discard(w); comp[w] = v
                if w == v: break
    for v in useful:
        if v not in idx: sc(v)
    for h, outs in edges.items():
        for (w, strict) in outs:
            if strict and comp[h] == comp[w]: return False
    return True


def max_word_length(G):
    """length of the longest generated word of a grammar with a finite, non-empty language (None otherwise): least fixpoint of
    m(A) = max over useful productions of the sum of m over the body, reached after at most |V| + 1 rounds because no useful variable is on a
    cycle that adds length (non-growing cycles A => A keep the maximum unchanged)"""
    if not is_finite(G) or is_empty(G): return None
    gen = generating(G); useful_prods = [(h, b) for h, b in G[1] if h in gen and all(s in gen for s in b)]
    reach = reachable(mk(G[0], useful_prods)); prods = [(h, b) for h, b in useful_prods if h in reach]
    m = {}
    for _ in range(len(variables(G)) + 2):
        new = dict(m)
        for h, b in prods:
            if all((not is_var(s)) or s in m for s in b):
                v = sum(m[s] if is_var(s) else 1 for s in b)
                if v > new.get(h, -1): new[h] = v
        if new == m: break
        m = new
    return m.get(G[0])


def words_upto(alphabet, n):
    alphabet = sorted(alphabet, key=repr)
    for k in range(n + 1):
        for w in itertools.product(alphabet, repeat=k): yield w


def has_epsilon_production(G): return any(not b for _, b in G[1])
def has_unit_production(G): return any(len(b) == 1 and is_var(b[0]) for _, b in G[1])
def is_cnf(G): return all((len(b) == 2 and is_var(b[0]) and is_var(b[1])) or (len(b) == 1 and not is_var(b[0])) for _, b in G[1])


# ------------------------------------------------------------------ bridge to pyformlang
def build(G, extra_vars=(), extra_terms=()):
    from pyformlang.cfg import CFG, Variable, Terminal, Production
    def obj(s): return Variable(s[1]) if is_var(s) else Terminal(s[1])
    prods = {Production(obj(h), [obj(s) for s in b]) for h, b in sorted(G[1], key=repr)}
    # three ways of calling the constructor, chosen by the grammar (stable across hash seeds): objects everywhere; raw start symbol and nothing else;
    # raw values for the variables, the terminals and the start symbol (the constructor converts them with to_variable / to_terminal)
    import hashlib, json
    mode = int(hashlib.md5(json.dumps(to_json(G), sort_keys=True, default=repr).encode()).hexdigest(), 16) % 3
    if mode == 1 and not extra_vars and not extra_terms:
        return CFG(start_symbol=G[0][1], productions=prods)
    if mode == 2:
        return CFG(variables={v[1] for v in variables(G)} | set(extra_vars), terminals={t[1] for t in terminals(G)} | set(extra_terms), start_symbol=G[0][1], productions=prods)
    return CFG(variables={Variable(v[1]) for v in variables(G)} | {Variable(x) for x in extra_vars},
               terminals={Terminal(t[1]) for t in terminals(G)} | {Terminal(x) for x in extra_terms},
               start_symbol=Variable(G[0][1]), productions=prods)


def sym_of(o):
    from pyformlang.cfg import Variable
    return V(o.value) if isinstance(o, Variable) else T(o.value)


def extract(cfg):
    start = V(cfg.start_symbol.value) if cfg.start_symbol is not None else V('#NOSTART#')
    return mk(start, [(sym_of(p.head), tuple(sym_of(s) for s in p.body)) for p in cfg.productions])


def to_json(G):
    return {'start': G[0][1], 'prods': sorted(([h[1], [[s[0], s[1]] for s in b]] for h, b in G[1]), key=repr)}


def from_json(d):
    return mk(V(d['start']), [(V(h), tuple((k, x) for k, x in b)) for h, b in d['prods']])


# ------------------------------------------------------------------ enumeration
def all_productions(vs, ts, maxlen):
    syms = [V(v) for v in vs] + [T(t) for t in ts]
    bodies = [b for k in range(maxlen + 1) for b in itertools.product(syms, repeat=k)]
    return [(V(h), b) for h in vs for b in bodies]


def enum_grammars(vs, ts, maxlen, maxprods):
    P = all_productions(vs, ts, maxlen)
    for k in range(maxprods + 1):
        for sub in itertools.combinations(P, k):
            yield mk(V(vs[0]), sub)


def random_nullable_heavy(rng, nv=None):
    """3-5 variables, several of them nullable (directly or through other nullable variables), bodies mixing nullable variables and a
    few terminals: the shape on which the counter-based analyses (generating / nullable / generate_epsilon) do real work"""
    nv = nv or rng.choice([3, 4, 4, 5]); vs = ['S', 'A', 'B', 'C', 'D'][:nv]; prods = set()
    for v in vs[1:]:
        r = rng.random()
        if r < 0.5: prods.add((V(v), ()))
        if r > 0.3: prods.add((V(v), tuple(rng.choice([V(x) for x in vs[1:]] + [T('a'), T('b')]) for _ in range(rng.choice([1, 1, 2])))))
    for _ in range(rng.choice([1, 2, 3])):
        k = rng.choice([1, 2, 2, 3]); pool = [V(x) for x in vs[1:]] * 3 + [T('a'), T('b'), V('S')]
        prods.add((V('S'), tuple(rng.choice(pool) for _ in range(k))))
    if rng.random() < 0.4: prods.add((V(rng.choice(vs[1:])), tuple(rng.choice([V(x) for x in vs[1:]]) for _ in range(2))))
    return mk(V('S'), prods)


def random_grammar(rng, vs, ts, maxlen, nprods):
    syms = [V(v) for v in vs] + [T(t) for t in ts]
    prods = set()
    for _ in range(nprods):
        h = V(rng.choice(vs)); k = rng.choice(range(maxlen + 1))
        prods.add((h, tuple(rng.choice(syms) for _ in range(k))))
    return mk(V(vs[0]), prods)
