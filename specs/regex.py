"""Reference reading of the documented regex syntax (C05): tokenizer + precedence-climbing parser + matcher.

  * tokens are symbols; '*' binds tighter than concatenation (space or '.'), which binds tighter than union ('|' or '+');
  * parentheses group; 'epsilon' and '$' denote the empty word; a backslash before an operator character makes it a symbol.
The empty text denotes the empty language.  AST: ('sym', v) ('eps',) ('empty',) ('cat', a, b) ('alt', a, b) ('star', a)
"""
OPS = {'.': 'DOT', '|': 'UNION', '+': 'UNION', '*': 'STAR', '(': 'LP', ')': 'RP', '$': 'EPS'}


class IllFormed(Exception):
    pass


class OutOfScope(Exception):
    pass


SPECIAL = set('.|+*()$ ')


def tokenize(text):
    toks = []; i = 0; cur = ''
    def flush():
        nonlocal cur
        if cur: toks.append(('EPS',) if cur == 'epsilon' else ('SYM', cur)); cur = ''
    while i < len(text):
        c = text[i]
        if c == '\\':
            # in scope: a stand-alone escaped operator character (backslash + operator, then a separator or the end);
            # what a backslash means elsewhere (inside a symbol, before a letter, at the very end) is not documented
            if cur or i + 1 >= len(text) or text[i + 1] not in SPECIAL or (i + 2 < len(text) and text[i + 2] not in SPECIAL):
                raise OutOfScope(text)
            flush(); toks.append(('SYM', text[i + 1])); i += 2; continue
        if c == ' ': flush(); i += 1; continue
        if c in OPS: flush(); toks.append((OPS[c],)); i += 1; continue
        cur += c; i += 1
    flush()
    return toks


def parse(text):
    toks = tokenize(text)
    if not toks: return ('empty',)
    pos = [0]
    def peek(): return toks[pos[0]][0] if pos[0] < len(toks) else None
    def union():
        left = concat()
        while peek() == 'UNION':
            pos[0] += 1; right = concat(); left = ('alt', left, right)
        return left
    def concat():
        left = star()
        while True:
            if peek() == 'DOT': pos[0] += 1; right = star(); left = ('cat', left, right)
            elif peek() in ('SYM', 'EPS', 'LP'): right = star(); left = ('cat', left, right)
            else: return left
    def star():
        a = atom()
        while peek() == 'STAR': pos[0] += 1; a = ('star', a)
        return a
    def atom():
        k = peek()
        if k == 'SYM': v = toks[pos[0]][1]; pos[0] += 1; return ('sym', v)
        if k == 'EPS': pos[0] += 1; return ('eps',)
        if k == 'LP':
            pos[0] += 1; inner = union()
            if peek() != 'RP': raise IllFormed('missing )')
            pos[0] += 1; return inner
        raise IllFormed(f'unexpected {k} at token {pos[0]}')
    tree = union()
    if pos[0] != len(toks): raise IllFormed(f'trailing tokens from {pos[0]}')
    return tree


def dangling_operator(text):
    """the text becomes well-formed when an (empty-language) operand is supplied after a binary operator that has none:
    the class of ill-formed texts pyformlang accepts (finding F-C05-dangling-operator)"""
    toks = tokenize(text)
    for i, t in enumerate(toks):
        if t[0] in ('UNION', 'DOT') and (i + 1 == len(toks) or toks[i + 1][0] == 'RP'): return True
    return False


def ends(ast, w, i, memo):
    key = (id(ast), i)
    if key in memo: return memo[key]
    k = ast[0]
    if k == 'sym': r = {i + 1} if i < len(w) and w[i] == ast[1] else set()
    elif k == 'eps': r = {i}
    elif k == 'empty': r = set()
    elif k == 'alt': r = ends(ast[1], w, i, memo) | ends(ast[2], w, i, memo)
    elif k == 'cat':
        r = set()
        for j in ends(ast[1], w, i, memo): r |= ends(ast[2], w, j, memo)
    else:
        r = {i}; todo = [i]
        while todo:
            j = todo.pop()
            for m in ends(ast[1], w, j, memo):
                if m not in r: r.add(m); todo.append(m)
    memo[key] = r
    return r


def matches(ast, word):
    word = list(word)
    return len(word) in ends(ast, word, 0, {})


def symbols(ast):
    if ast[0] == 'sym': return {ast[1]}
    return set().union(*[symbols(a) for a in ast[1:] if isinstance(a, tuple)]) if len(ast) > 1 else set()


# ------------------------------------------------------------------ generation: AST -> text with spelling choices
def sym_text(v):
    return '\\' + v if len(v) == 1 and v in SPECIAL else v


def render(ast, rng, redundant=0.2):
    """text of an AST with random spellings, minimal parentheses plus some redundant ones"""
    def r(a, ctx):          # ctx: 0 union level, 1 concat level, 2 star operand
        k = a[0]
        if k == 'sym': s = sym_text(a[1]); lvl = 3
        elif k == 'eps': s = rng.choice(['epsilon', '$']); lvl = 3
        elif k == 'alt':
            op = rng.choice(['|', '+', ' | ', ' + ']); s = r(a[1], 0) + op + r(a[2], 1); lvl = 0
        elif k == 'cat':
            op = rng.choice([' ', '.', ' . ', '  ']); s = r(a[1], 1) + op + r(a[2], 2); lvl = 1
        else:
            s = r(a[1], 3) + rng.choice(['*', ' *']); lvl = 2
        if lvl < ctx or rng.random() < redundant: s = rng.choice(['(', '( ']) + s + rng.choice([')', ' )'])
        return s
    return r(ast, 0)


def random_ast(rng, depth, syms):
    if depth == 0 or rng.random() < 0.25:
        return ('eps',) if rng.random() < 0.12 else ('sym', rng.choice(syms))
    k = rng.choice(['alt', 'cat', 'cat', 'star'])
    if k == 'star': return ('star', random_ast(rng, depth - 1, syms))
    return (k, random_ast(rng, depth - 1, syms), random_ast(rng, depth - 1, syms))
