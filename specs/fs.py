"""Reference semantics of feature structures (C18) by congruence closure on paths, independent of pointer-based unification.

A description is a dict  {'paths': {path tuple: value or None}, 'share': list of sets of paths}  (prefix closed).
A reference structure is built from a nested spec:  atom string | None (unspecified) | ('var', name) | dict feature -> spec.
"""
import itertools


class Conflict(Exception):
    pass


def describe_spec(spec):
    """paths -> value, plus the sharing classes induced by variables"""
    paths = {(): None}; var_paths = {}
    def walk(s, p):
        if isinstance(s, dict):
            paths.setdefault(p, None)
            for f, sub in s.items(): walk(sub, p + (f,))
        elif isinstance(s, tuple) and s[0] == 'var':
            paths[p] = None; var_paths.setdefault(s[1], set()).add(p)
        else:
            paths[p] = s
    walk(spec, ())
    return {'paths': paths, 'share': [set(v) for v in var_paths.values() if len(v) > 1]}


def unify_descriptions(A, B):
    """most general description carrying all information of A and B; raises Conflict"""
    paths = dict(A['paths'])
    for p, v in B['paths'].items():
        if p in paths and paths[p] is not None and v is not None and paths[p] != v: raise Conflict(p)
        if paths.get(p) is None: paths[p] = v
    parent = {}
    def find(x):
        parent.setdefault(x, x)
        while parent[x] != x: parent[x] = parent[parent[x]]; x = parent[x]
        return x
    def union(x, y): parent[find(x)] = find(y)
    for cls in A['share'] + B['share']:
        cls = sorted(cls)
        for q in cls[1:]: union(cls[0], q)
    changed = True
    while changed:
        changed = False
        classes = {}
        for p in list(paths): classes.setdefault(find(p), set()).add(p)
        for cls in classes.values():
            if len(cls) < 2: continue
            feats = {q[len(p):][0] for p in cls for q in paths if len(q) == len(p) + 1 and q[:len(p)] == p}
            for f in feats:
                ext = [p + (f,) for p in cls]
                for e in ext:
                    if e not in paths: paths[e] = None; changed = True
                for e in ext[1:]:
                    if find(e) != find(ext[0]): union(e, ext[0]); changed = True
    classes = {}
    for p in paths: classes.setdefault(find(p), set()).add(p)
    for cls in classes.values():
        vals = {paths[p] for p in cls if paths[p] is not None}
        if len(vals) > 1: raise Conflict(sorted(cls))
        has_children = any(len(q) > len(p) and q[:len(p)] == p for p in cls for q in paths)
        if vals and has_children: raise Conflict(('atom-vs-structure', sorted(cls)))
        for p in cls: paths[p] = next(iter(vals)) if vals else None
    return {'paths': paths, 'share': [c for c in classes.values() if len(c) > 1]}


def canon(D):
    """leaf paths with values and the sharing partition restricted to leaves (what the public API exposes)"""
    paths = D['paths']
    leaves = {p for p in paths if p != () and not any(len(q) > len(p) and q[:len(p)] == p for q in paths)}
    share = sorted(sorted(c & leaves) for c in D['share'] if len(c & leaves) > 1)
    return (sorted((p, paths[p]) for p in leaves), share)


# ------------------------------------------------------------------ bridge to pyformlang
def build(spec, variables=None):
    from pyformlang.fcfg.feature_structure import FeatureStructure
    variables = {} if variables is None else variables
    def mk(s):
        if isinstance(s, dict):
            fs = FeatureStructure()
            for f, sub in s.items(): fs.add_content(f, mk(sub))
            return fs
        if isinstance(s, tuple) and s[0] == 'var':
            if s[1] not in variables: variables[s[1]] = FeatureStructure(); return variables[s[1]]
            leaf = FeatureStructure(); leaf.pointer = variables[s[1]]; return leaf
        return FeatureStructure(s)
    return mk(spec)


def describe_object(fs):
    def walk(node, pre, depth=0):
        node = node.get_dereferenced(); out = []
        if depth > 8: return out
        for f, sub in node.content.items():
            subpaths = walk(sub, pre + (f,), depth + 1)
            out += subpaths if subpaths else [pre + (f,)]
        return out
    # paths are read through dereferenced nodes (get_all_paths() does not follow forwarding pointers and misses what a bound variable carries)
    leaves = walk(fs, ())
    vals = {p: fs.get_feature_by_path(list(p)).value for p in leaves}
    nodes = {p: fs.get_feature_by_path(list(p)).get_dereferenced() for p in leaves}
    share = []
    for p in leaves:
        cls = {q for q in leaves if nodes[q] is nodes[p]}
        if len(cls) > 1 and cls not in share: share.append(cls)
    return (sorted(vals.items()), sorted(sorted(c) for c in share))


TYPES = {'n': ['sg', 'pl'], 'p': ['1', '3'], 'agr': {'n', 'p'}, 'subj': {'agr', 'n'}, 'obj': {'agr'}}


def random_spec(rng, depth=0, feats=('n', 'p', 'agr', 'subj', 'obj'), vars_=('x', 'y')):
    out = {}
    for f in feats:
        if rng.random() < 0.45: continue
        t = TYPES[f]
        if isinstance(t, list):
            r = rng.random()
            out[f] = rng.choice(t) if r < 0.55 else (None if r < 0.7 else ('var', rng.choice(vars_) + ('n' if f == 'n' else 'p')))
        elif rng.random() < 0.25: out[f] = ('var', rng.choice(vars_) + '_' + ('agr' if f == 'agr' else 'c'))       # a variable standing for a nested value
        elif depth < 2: out[f] = random_spec(rng, depth + 1, sorted(t), vars_)
    return out
