"""Reference semantics of pushdown automata (C11, C13), exact for a given word: saturation of pop/reach summaries.

P = (start, z0, finals, trans); trans: set of (p, a, X, q, push) with a = None for an epsilon move and push a tuple whose
FIRST element becomes the new top of the stack.
"""
import itertools


def mk(start, z0, finals, trans):
    return (start, z0, frozenset(finals), frozenset((p, a, X, q, tuple(push)) for p, a, X, q, push in trans))


def summaries(P, word):
    """Pop[(p,X,i)] = {(q,j)}: (p, X) =>* (q, empty) reading word[i:j];  Reach[(p,X,i)] = {(q,j)}: (p, X) =>* (q, anything)"""
    start, z0, finals, trans = P; n = len(word)
    Pop = {}; Reach = {}
    states = {start} | {t[0] for t in trans} | {t[3] for t in trans}
    syms = {z0} | {t[2] for t in trans} | {y for t in trans for y in t[4]}
    keys = [(p, X, i) for p in states for X in syms for i in range(n + 1)]
    for k in keys: Pop[k] = set(); Reach[k] = {(k[0], k[2])}
    by = {}
    for t in trans: by.setdefault((t[0], t[2]), []).append(t)
    changed = True
    while changed:
        changed = False
        for (p, X, i) in keys:
            for (_, a, _, q, push) in by.get((p, X), ()):
                if a is None: j = i
                elif i < n and word[i] == a: j = i + 1
                else: continue
                front = {(q, j)}           # configurations after popping the first m pushed symbols
                new_reach = {(q, j)}
                for Y in push:
                    nxt = set()
                    for (q1, j1) in front:
                        new_reach |= Reach[(q1, Y, j1)]
                        nxt |= Pop[(q1, Y, j1)]
                    front = nxt
                    if not front: break
                else:
                    if not front <= Pop[(p, X, i)]: Pop[(p, X, i)] |= front; changed = True
                    new_reach |= front
                if not new_reach <= Reach[(p, X, i)]: Reach[(p, X, i)] |= new_reach; changed = True
    return Pop, Reach


def accepts(P, word, mode):
    """mode 'empty': the stack can be emptied after reading the whole word; 'final': a final state is reachable after reading it"""
    start, z0, finals, trans = P
    if start is None or z0 is None: return False
    word = tuple(word); Pop, Reach = summaries(P, word); n = len(word)
    if mode == 'empty': return any(j == n for (_, j) in Pop[(start, z0, 0)])
    return any(j == n and q in finals for (q, j) in Reach[(start, z0, 0)])


def language_upto(P, alphabet, n, mode):
    return {w for k in range(n + 1) for w in itertools.product(sorted(alphabet, key=repr), repeat=k) if accepts(P, w, mode)}


def alphabet(P): return {t[1] for t in P[3] if t[1] is not None}


# ------------------------------------------------------------------ bridge to pyformlang
def build(P, extra_states=()):
    from pyformlang.pda import PDA
    start, z0, finals, trans = P
    # two ways of building, chosen by the PDA (stable across hash seeds): through add_transition; or everything handed to the constructor -
    # a transition function built on its own, the states without the start and final ones (the constructor has to register those)
    import hashlib, json
    mode = int(hashlib.md5(json.dumps(to_json(P), sort_keys=True, default=repr).encode()).hexdigest(), 16) % 3
    if mode == 1 and start is not None and z0 is not None and not extra_states:
        from pyformlang.pda import State, Symbol, StackSymbol, Epsilon
        from pyformlang.pda.transition_function import TransitionFunction
        tf = TransitionFunction()
        for (p, a, X, q, push) in sorted(trans, key=repr):
            tf.add_transition(State(p), Epsilon() if a is None else Symbol(a), StackSymbol(X), State(q), [StackSymbol(y) for y in push])
        inner = {State(x) for (p, a, X, q, push) in trans for x in (p, q)} - {State(start)} - {State(f) for f in finals}
        return PDA(states=inner, input_symbols={Symbol(a) for (_, a, _, _, _) in trans if a is not None},
                   stack_alphabet={StackSymbol(y) for (p, a, X, q, push) in trans for y in (X,) + tuple(push)} - {StackSymbol(z0)},
                   transition_function=tf, start_state=State(start), start_stack_symbol=StackSymbol(z0), final_states={State(f) for f in finals})
    pda = PDA(states=set(extra_states) or None, start_state=start, start_stack_symbol=z0, final_states=set(finals))
    for (p, a, X, q, push) in sorted(trans, key=repr):
        pda.add_transition(p, 'epsilon' if a is None else a, X, q, list(push))
    return pda


def extract(pda):
    from pyformlang.pda import Epsilon
    trans = []
    for key, value in list(iter(pda._transition_function)) if hasattr(pda, '_transition_function') else []:
        s_from, a, X = key; s_to, push = value
        trans.append((s_from.value, None if isinstance(a, Epsilon) else a.value, X.value, s_to.value, tuple(y.value for y in push)))
    z0 = getattr(pda, '_start_stack_symbol', None)
    return mk(pda.start_state.value if pda.start_state is not None else None, z0.value if z0 is not None else None,
              {f.value for f in pda.final_states}, trans)


def to_json(P):
    return {'start': P[0], 'z0': P[1], 'finals': sorted(P[2], key=repr), 'trans': sorted(([p, a, X, q, list(push)] for p, a, X, q, push in P[3]), key=repr)}


def from_json(d):
    return mk(d['start'], d['z0'], d['finals'], [(p, a, X, q, tuple(push)) for p, a, X, q, push in d['trans']])


def random_pda(rng, reserved=0.2):
    Q = ['q', 'r', 'p'][:rng.choice([1, 2, 2, 3])]
    G = ['Z', 'A', 'B'][:rng.choice([1, 2, 2, 3])]
    if rng.random() < reserved:
        Q = Q[:1] + rng.sample(['#STARTTOFINAL#', '#ENDTOFINAL#', '#STARTEMPTYS#', '#ENDEMPTYS#', '#STARTTOFINAL#0'], len(Q) - 1)
        G = G[:1] + rng.sample(['#BOTTOMTOFINAL#', '#BOTTOMEMPTYS#', '#BOTTOMTOFINAL#0'], len(G) - 1)
    tr = set()
    for _ in range(rng.randint(1, 5)):
        tr.add((rng.choice(Q), rng.choice(['a', 'b', None]), rng.choice(G), rng.choice(Q), tuple(rng.choice(G) for _ in range(rng.choice([0, 0, 1, 1, 2, 3])))))
    return mk(Q[0], G[0], {s for s in Q if rng.random() < 0.4}, tr)
