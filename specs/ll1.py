"""Textbook FIRST / FOLLOW / LL(1) (C14) and parse-tree / derivation validity (C15) over specs/cfg.py grammars."""
from specs import cfg as C

EPS = ('eps',); END = ('end',)


def first_follow(G):
    nl = C.nullable(G); vs = C.variables(G)
    first = {v: set() for v in vs}
    def first_seq(seq):
        out = set()
        for s in seq:
            if C.is_var(s):
                out |= first[s]
                if s not in nl: return out, False
            else:
                out.add(s); return out, False
        return out, True
    ch = True
    while ch:
        ch = False
        for h, b in G[1]:
            r, _ = first_seq(b)
            if not r <= first[h]: first[h] |= r; ch = True
    follow = {v: set() for v in vs}; follow[G[0]].add(END)
    ch = True
    while ch:
        ch = False
        for h, b in G[1]:
            for i, s in enumerate(b):
                if not C.is_var(s): continue
                r, allnull = first_seq(b[i + 1:])
                add = set(r) | (follow[h] if allnull else set())
                if not add <= follow[s]: follow[s] |= add; ch = True
    return nl, first, follow, first_seq


def is_ll1(G):
    """no two productions of a variable share a predict symbol"""
    nl, first, follow, first_seq = first_follow(G)
    by = {}
    for h, b in G[1]:
        r, allnull = first_seq(b)
        by.setdefault(h, []).append(set(r) | (follow[h] if allnull else set()))
    for ps in by.values():
        for i in range(len(ps)):
            for j in range(i + 1, len(ps)):
                if ps[i] & ps[j]: return False
    return True


def tree_yield(tree, prods, root=None):
    """checks a pyformlang ParseTree against a production set {(head, body)} of specs symbols; returns its yield or raises ValueError"""
    from pyformlang.cfg import Variable
    v = tree.value
    if not hasattr(v, 'value'): raise ValueError(f'node value {v!r} is not a grammar symbol')
    s = C.sym_of(v)
    if root is not None and s != root: raise ValueError(f'root is {s}, start symbol is {root}')
    if not C.is_var(s):
        if tree.sons: raise ValueError(f'terminal node {s} has children')
        return [s[1]]
    body = tuple(C.sym_of(x.value) if hasattr(x.value, 'value') else ('?', x.value) for x in tree.sons)
    if (s, body) not in prods: raise ValueError(f'{s} -> {body} is not a production')
    out = []
    for son in tree.sons: out += tree_yield(son, prods)
    return out


def check_derivation(steps, prods, root, word, leftmost=True):
    """steps: list of sentential forms (lists of pyformlang objects); one production per step on the leftmost/rightmost variable"""
    forms = [[C.sym_of(x) for x in st] for st in steps]
    if not forms or forms[0] != [root]: raise ValueError(f'does not start at the root symbol: {forms[:1]}')
    for a, b in zip(forms, forms[1:]):
        idx = [i for i, s in enumerate(a) if C.is_var(s)]
        if not idx: raise ValueError(f'step from a terminal form {a}')
        i = idx[0] if leftmost else idx[-1]
        pre, post = a[:i], a[i + 1:]
        if b[:len(pre)] != pre or (post and b[len(b) - len(post):] != post) or len(b) < len(pre) + len(post):
            raise ValueError(f'{a} => {b} does not rewrite the {"leftmost" if leftmost else "rightmost"} variable')
        body = tuple(b[len(pre):len(b) - len(post)])
        if (a[i], body) not in prods: raise ValueError(f'{a} => {b}: {a[i]} -> {body} is not a production')
    last = forms[-1]
    if any(C.is_var(s) for s in last) or [s[1] for s in last] != list(word): raise ValueError(f'ends in {last}, not in the word')
