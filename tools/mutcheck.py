"""Mutation smoke test of the VC engine: apply a textual edit to a scratch copy of the repository sources (outside /repo and
/verif, removed afterwards), run pyvc for the given targets, report which functions stop being proved.

    python3-vt tools/mutcheck.py <module> <key,key,...> <file relative to repo> <old text> <new text>
"""
import sys, os, shutil, tempfile, json
HERE = os.path.dirname(os.path.dirname(os.path.abspath(__file__))); sys.path.insert(0, HERE)


def run(module, keys, rel, old, new, repo='/repo'):
    tmp = tempfile.mkdtemp(prefix='verif-mut-')
    try:
        shutil.copytree(os.path.join(repo, 'pyformlang'), os.path.join(tmp, 'pyformlang'), ignore=shutil.ignore_patterns('tests', '__pycache__'))
        p = os.path.join(tmp, rel); s = open(p).read()
        if old not in s: return {'error': 'pattern not found'}
        open(p, 'w').write(s.replace(old, new, 1))
        os.environ['VERIF_REPO'] = tmp
        from pyvc.run import verify
        return {r['key']: (r['status'], [f['name'] for f in r['failed']][:4]) for r in verify([(module, k) for k in keys])}
    finally:
        shutil.rmtree(tmp, ignore_errors=True)


if __name__ == '__main__':
    m, keys, rel, old, new = sys.argv[1:6]
    print(json.dumps(run(m, keys.split(','), rel, old.encode().decode('unicode_escape'), new.encode().decode('unicode_escape')), indent=1))
