"""Seed-stability stress test of the deductive part: every obligation of every target of a contract module is re-solved under several
z3 random seeds (no retries, no second opinion); reports the worst time and every (obligation, seed) that is not `unsat`.
    python3-vt tools/stress.py contracts.fa [key ...]
"""
import sys, os, time, importlib
HERE = os.path.dirname(os.path.dirname(os.path.abspath(__file__))); sys.path.insert(0, HERE)
from concurrent.futures import ProcessPoolExecutor


def one(job):
    module, key, seeds = job
    from z3 import Solver, Not, unsat
    from pyvc.run import load
    from pyvc.engine import Engine
    M = importlib.import_module(module)
    rel, qual = M.TARGETS[key][:2]
    fn = load(os.path.join(os.environ.get('VERIF_REPO', '/repo'), rel))[qual]
    eng = Engine(M.W); obls = eng.generate(key, fn)
    worst = 0.0; bad = []
    for o in obls:
        if o.canary: continue
        for seed in seeds:
            s = Solver(); s.set(timeout=10000, random_seed=seed); s.set('smt.random_seed', seed)
            s.add([] if getattr(o, "isolated", False) else M.W.axioms); s.add(o.hyps); s.add(Not(o.goal)); t = time.time(); r = s.check(); dt = time.time() - t
            worst = max(worst, dt)
            if r != unsat: bad.append((o.name, seed, str(r)))
            elif dt > 3: bad.append((o.name, seed, f'slow {dt:.1f}s'))
    return key, len(obls), round(worst, 2), bad


if __name__ == '__main__':
    module = sys.argv[1]; M = importlib.import_module(module)
    keys = sys.argv[2:] or list(M.TARGETS)
    with ProcessPoolExecutor(max_workers=12) as ex:
        for key, n, worst, bad in ex.map(one, [(module, k, (0, 3, 11, 42)) for k in keys]):
            print(f'{key}: {n} obligations, worst {worst}s' + (f'  UNSTABLE/SLOW: {bad}' if bad else ''), flush=True)
