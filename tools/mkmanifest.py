"""Regenerate MANIFEST.json from tools/registry.py and validate it (and any evidence files) against the schemas."""
import json, os, sys
HERE = os.path.dirname(os.path.dirname(os.path.abspath(__file__))); sys.path.insert(0, HERE)
from tools.registry import PROPS, NOT_APPLICABLE
ids = [json.loads(l)['id'] for l in open(os.path.join(HERE, 'properties.jsonl'))]
checks = []
for i in ids:
    if i not in PROPS: continue
    s = PROPS[i]
    checks.append({
        'property_id': i, 'quick_cmd': f'./check {i} --tier quick', 'thorough_cmd': f'./check {i} --tier thorough',
        'evidence_file': f'evidence/{i}.json', 'replay_cmd_template': './check --replay {path}', 'engine': 'pyvc+bounded',
        'level_claimed': {'category': s['level'], 'text': s['level_text'], 'design_ref': s.get('design_ref', 'DESIGN.md section 6')},
        'level_note': s['level_note'], 'technique': s['technique']})
m = {'version': 1,
     'setup_cmd': 'true',
     'hooks': {'guard': 'PYFORMLANG_VERIF', 'enable': 'no hooks: contracts are sidecars in /verif keyed by function and loop ordinal; /repo carries no instrumentation',
               'baseline_off_cmd': 'cd /repo && /venv/bin/python -m pytest -q -p no:cacheprovider --timeout=900', 'source_commits': [], 'add_only': True},
     'engines': [{'name': 'pyvc+bounded', 'path': 'check', 'serves_properties': [c['property_id'] for c in checks],
                  'kind_free_text': 'home-made deductive verifier (Python AST -> verification conditions -> z3/cvc5) over sidecar contracts on the real source, Lean 4/Mathlib bridge lemmas, and a bounded run-time contract checker (labelled bounded) for functions outside its reach'}],
     'checks': checks,
     'notes': 'exit codes of ./check: 0 held, 1 VIOLATION, 2 undecided obligations (no VIOLATION line), 3 checker inconsistency. See DESIGN.md.',
     'not_applicable': [{'property_id': i, 'reason': NOT_APPLICABLE.get(i, 'check not built yet in this session; see DESIGN.md section 0')} for i in ids if i not in PROPS]}
json.dump(m, open(os.path.join(HERE, 'MANIFEST.json'), 'w'), indent=1)
import jsonschema
jsonschema.validate(m, json.load(open('/root/.vp/MANIFEST.schema.json')))
es = json.load(open('/root/.vp/EVIDENCE.schema.json'))
for c in checks:
    p = os.path.join(HERE, c['evidence_file'])
    if os.path.exists(p):
        jsonschema.validate(json.load(open(p)), es); print('evidence ok', c['property_id'])
print('manifest ok:', len(checks), 'checks,', len(m['not_applicable']), 'not applicable')
