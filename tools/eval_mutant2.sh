#!/bin/bash
# like eval_mutant.sh, reporting deductive and bounded detections separately
WT=$1; N=$2; shift 2
cd $WT || exit 9
git checkout -q -- pyformlang
/venv/bin/python mutants/demo$N.py > /dev/null 2>&1; D0=$?
git apply mutants/mutant$N.diff || { echo "PATCH DOES NOT APPLY"; exit 9; }
TESTS=$(/venv/bin/python -m pytest -q -p no:cacheprovider 2>&1 | tail -1)
/venv/bin/python mutants/demo$N.py > /dev/null 2>&1; D1=$?
git checkout -q -- pyformlang
echo "confirm: demo clean=$D0 patched=$D1 tests: $TESTS"
cd /repo && git apply $WT/mutants/mutant$N.diff || { echo "DOES NOT APPLY TO /repo"; exit 9; }
for P in "$@"; do
  cd /verif && ./check $P > /tmp/evalmut.log 2>&1; RC=$?
  echo "  check $P exit=$RC deductive=$(grep -c "^# obligation" /tmp/evalmut.log) bounded=$(grep "^# " /tmp/evalmut.log | grep -vc "^# obligation")"
  grep "^# obligation" /tmp/evalmut.log | head -2 | cut -c1-260
  grep "^# " /tmp/evalmut.log | grep -v "^# obligation" | head -1 | cut -c1-200
  grep '^UNDECIDED\|^CHECKER' /tmp/evalmut.log | head -2 | cut -c1-220
  grep -A1 "^# obligation" /tmp/evalmut.log | grep "^VIOLATION" | head -1 | cut -c1-200
done
git -C /repo checkout -q -- .
