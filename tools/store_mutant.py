"""store a confirmed seeded change:  tools/store_mutant.py <worktree> <n> <property> <seed id> <detected-by check ids ...>"""
import sys, os, json, shutil, subprocess
wt, n, prop, sid = sys.argv[1:5]; detected = sys.argv[5:]
d = os.path.join('/verif/seeded', sid); os.makedirs(d, exist_ok=True)
shutil.copy(f'{wt}/mutants/mutant{n}.diff', f'{d}/patch.diff'); shutil.copy(f'{wt}/mutants/demo{n}.py', f'{d}/demo.py')
notes = open(f'{wt}/mutants/notes{n}.txt').read()
meta = {'id': sid, 'breaks_property': prop, 'origin': 'independent sub-agent given only the property text and a scratch worktree of /repo (nothing from /verif)',
        'base_commit_of_repo': subprocess.run(['git', '-C', '/repo', 'rev-parse', '--short', 'HEAD'], capture_output=True, text=True).stdout.strip(),
        'what_it_is_and_what_it_needs_to_manifest': notes,
        'confirmed_by_me': 'in the scratch worktree: patch applies to clean HEAD; 289 tests pass with it; demo.py exits 0 without and 1 with the patch (tools/eval_mutant.sh)',
        'ran_against_checks': 'git -C /repo apply patch.diff; ./check <id>; git -C /repo checkout -- .',
        'detected_by': detected}
json.dump(meta, open(f'{d}/meta.json', 'w'), indent=1)
print('stored', d)
