"""Regenerate the generated tables of DESIGN.md section A (between the AS-BUILT markers) from the registry, the baseline,
known_findings.json and seeded/*/meta.json, so that the document cannot drift from what the checks do."""
import json, os, sys, glob, subprocess
HERE = os.path.dirname(os.path.dirname(os.path.abspath(__file__))); sys.path.insert(0, HERE)
from tools.registry import PROPS

base = json.load(open(os.path.join(HERE, 'pyvc_baseline.json'))) if os.path.exists(os.path.join(HERE, 'pyvc_baseline.json')) else {}
kf = json.load(open(os.path.join(HERE, 'known_findings.json')))['findings']
props = {json.loads(l)['id']: json.loads(l) for l in open(os.path.join(HERE, 'properties.jsonl'))}

out = []
out.append('### A.3 What decides each property (generated from tools/registry.py and pyvc_baseline.json)\n')
out.append('| id | level | functions proved deductively (obligations) | Lean files | bounded suite (scope, quick tier) | open findings |')
out.append('|---|---|---|---|---|---|')
for pid in sorted(PROPS):
    sp = PROPS[pid]
    fns = ', '.join(f"`{base[k]['qualname']}` ({base[k]['obligations']})" if k in base else f'`{k}`' for _, k in sp.get('pyvc', [])) or '—'
    lean = ', '.join(os.path.basename(f) for f in sp.get('lean', [])) or '—'
    open_f = ', '.join(f['id'] for f in kf if f['property'] == pid and f['status'] == 'known') or '—'
    out.append(f"| {pid} | {sp['level']} | {fns} | {lean} | `{sp.get('bounded', '—')}`: {sp.get('scope', {}).get('quick', '')} | {open_f} |")
n_fn = len({k for sp in PROPS.values() for _, k in sp.get('pyvc', [])}); n_ob = sum(base[k]['obligations'] for k in {k for sp in PROPS.values() for _, k in sp.get('pyvc', [])} if k in base)
out.append(f'\nTotal: {n_fn} functions of /repo under a machine-checked contract, {n_ob} obligations, all discharged on the current tree (z3 5.1.0).\n')

out.append('### A.4 Defects found on the pinned tree and what was done (generated from known_findings.json)\n')
out.append('| entry | property | status | what failed |')
out.append('|---|---|---|---|')
for f in kf:
    out.append(f"| {f['id']} | {f['property']} | {f['status']}{' ' + f.get('commit', '') if f['status'] == 'fixed' else ''} | {(f.get('text') or f.get('description')).replace('|', '&#124;')[:420]} |")
log = subprocess.run(['git', '-C', '/repo', 'log', '--oneline', '--grep=^fix:'], capture_output=True, text=True).stdout.strip().split('\n')
out.append(f'\n`git -C /repo log --grep "^fix:"` lists {len(log)} repair commits, each minimal and unguarded; the unedited test suite (289 tests) passes after every one of them.\n')

out.append('### A.5 Seeded changes and which checks catch them (generated from seeded/*/meta.json)\n')
out.append('| seeded change | breaks | detected by |')
out.append('|---|---|---|')
for m in sorted(glob.glob(os.path.join(HERE, 'seeded', '*', 'meta.json'))):
    d = json.load(open(m)); out.append(f"| {d['id']} | {d['breaks_property']} | {'; '.join(d['detected_by'])[:400]} |")
text = '\n'.join(out) + '\n'
p = os.path.join(HERE, 'DESIGN.md'); s = open(p).read()
a, b = '<!-- AS-BUILT-GENERATED-BEGIN -->', '<!-- AS-BUILT-GENERATED-END -->'
if a in s: s = s[:s.index(a) + len(a)] + '\n' + text + s[s.index(b):]
open(p, 'w').write(s)
print('DESIGN.md tables regenerated:', len(out), 'lines')
