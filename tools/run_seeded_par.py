"""Regression over the seeded changes, four at a time: every worker has its own scratch worktree of /repo (under the system temp dir, removed at
the end) and runs the checks with VERIF_REPO pointing at it; the seeded changes are grouped by property so that no check runs twice at the same
time (evidence / replay files of one property are written by one worker only).  Same verdicts as tools/run_seeded.py; writes seeded/RESULTS.json."""
import os, sys, json, glob, subprocess, tempfile, shutil
from concurrent.futures import ThreadPoolExecutor
HERE = os.path.dirname(os.path.dirname(os.path.abspath(__file__)))
GROUPS = [['C09', 'C14'], ['C11', 'C13', 'C15', 'C16', 'C17'], ['C01', 'C03', 'C04', 'C10'], ['C19', 'C02', 'C05', 'C06', 'C07', 'C08', 'C12', 'C18', 'C20']]
C19_EXTRA_IN_LAST = True          # seeded changes that are also run against C19 go to the last group (the only one running C19)


def worker(k, metas):
    wt = tempfile.mkdtemp(prefix=f'verif-seeded-{k}-'); os.rmdir(wt)
    subprocess.run(['git', '-C', '/repo', 'worktree', 'add', '-q', '--detach', wt, 'HEAD'], check=True)
    env = dict(os.environ, VERIF_REPO=wt); res = {}
    try:
        for d, patch in metas:
            sid = d['id']
            if subprocess.run(['git', '-C', wt, 'apply', '--check', patch], capture_output=True).returncode != 0:
                res[sid] = {'applies': False}; print(sid, 'patch does not apply to the current tree', flush=True); continue
            subprocess.run(['git', '-C', wt, 'apply', patch], check=True)
            try:
                props = [d['breaks_property']] + (['C19'] if 'C19' in ' '.join(d['detected_by']) and d['breaks_property'] != 'C19' else [])
                out = {}
                for p in props:
                    r = subprocess.run([os.path.join(HERE, 'check'), p], capture_output=True, text=True, env=env)
                    out[p] = {'exit': r.returncode, 'violation_lines': r.stdout.count('\nVIOLATION') + r.stdout.startswith('VIOLATION'),
                              'first': next((l for l in r.stdout.split('\n') if l.startswith('# ')), '')[:200]}
                res[sid] = {'applies': True, 'checks': out, 'detected': any(v['exit'] == 1 for v in out.values())}
                print(sid, 'DETECTED' if res[sid]['detected'] else 'MISSED', {k_: v['exit'] for k_, v in out.items()}, flush=True)
            finally:
                subprocess.run(['git', '-C', wt, 'checkout', '--', '.'], check=True)
    finally:
        subprocess.run(['git', '-C', '/repo', 'worktree', 'remove', '--force', wt]); subprocess.run(['git', '-C', '/repo', 'worktree', 'prune'])
        shutil.rmtree(wt, ignore_errors=True)
    return res


if __name__ == '__main__':
    assert subprocess.run(['git', '-C', '/repo', 'status', '--porcelain'], capture_output=True, text=True).stdout.strip() == '', '/repo is not clean'
    buckets = [[] for _ in GROUPS]
    for m in sorted(glob.glob(os.path.join(HERE, 'seeded', '*', 'meta.json'))):
        d = json.load(open(m)); patch = os.path.join(os.path.dirname(m), 'patch.diff')
        if d.get('obsolete'): print(d['id'], 'skipped (obsolete: the change no longer breaks the property on the repaired tree)'); continue
        extra = 'C19' in ' '.join(d['detected_by']) and d['breaks_property'] != 'C19'
        k = len(GROUPS) - 1 if extra else next(i for i, g in enumerate(GROUPS) if d['breaks_property'] in g)
        buckets[k].append((d, patch))
    res = {}
    with ThreadPoolExecutor(max_workers=len(GROUPS)) as ex:
        for r in ex.map(lambda a: worker(*a), list(enumerate(buckets))): res.update(r)
    json.dump(dict(sorted(res.items())), open(os.path.join(HERE, 'seeded', 'RESULTS.json'), 'w'), indent=1)
    print('detected', sum(1 for v in res.values() if v.get('detected')), 'of', len(res))
