"""Regression over the seeded changes: apply each seeded/<id>/patch.diff to /repo, run the check(s) of the property it breaks (and C19 for
history-type changes), expect a VIOLATION, undo.  Writes seeded/RESULTS.json.  /repo must be clean."""
import os, sys, json, glob, subprocess
HERE = os.path.dirname(os.path.dirname(os.path.abspath(__file__)))
assert subprocess.run(['git', '-C', '/repo', 'status', '--porcelain'], capture_output=True, text=True).stdout.strip() == '', '/repo is not clean'
only = sys.argv[1:]
rp = os.path.join(HERE, 'seeded', 'RESULTS.json')
res = json.load(open(rp)) if (only and os.path.exists(rp)) else {}
for m in sorted(glob.glob(os.path.join(HERE, 'seeded', '*', 'meta.json'))):
    d = json.load(open(m)); sid = d['id']
    if d.get('obsolete'): print(sid, 'skipped (obsolete: the change no longer breaks the property on the repaired tree)'); continue
    if only and sid not in only: continue
    patch = os.path.join(os.path.dirname(m), 'patch.diff')
    if subprocess.run(['git', '-C', '/repo', 'apply', '--check', patch], capture_output=True).returncode != 0:
        res[sid] = {'applies': False}; print(sid, 'patch does not apply to the current tree'); continue
    subprocess.run(['git', '-C', '/repo', 'apply', patch], check=True)
    try:
        props = [d['breaks_property']] + (['C19'] if 'C19' in ' '.join(d['detected_by']) and d['breaks_property'] != 'C19' else [])
        out = {}
        for p in props:
            r = subprocess.run([os.path.join(HERE, 'check'), p], capture_output=True, text=True)
            out[p] = {'exit': r.returncode, 'violation_lines': r.stdout.count('\nVIOLATION') + r.stdout.startswith('VIOLATION'),
                      'first': next((l for l in r.stdout.split('\n') if l.startswith('# ')), '')[:200]}
        res[sid] = {'applies': True, 'checks': out, 'detected': any(v['exit'] == 1 for v in out.values())}
        print(sid, 'DETECTED' if res[sid]['detected'] else 'MISSED', {k: v['exit'] for k, v in out.items()}, flush=True)
    finally:
        subprocess.run(['git', '-C', '/repo', 'checkout', '--', '.'], check=True)
json.dump(res, open(os.path.join(HERE, 'seeded', 'RESULTS.json'), 'w'), indent=1)
print('detected', sum(1 for v in res.values() if v.get('detected')), 'of', len(res))
