#!/usr/bin/env python3
"""./check <property id> [--tier quick|thorough]      decide one property on /repo's current working tree
   ./check --replay <file>                              re-run a stored failing input / obligation
   ./check --list

exit 0  held on everything explored (KNOWN-FINDING lines possible)
exit 1  VIOLATION property=<id> replay=<path>    (refuted obligation or failing concrete input not in known_findings.json)
exit 2  UNDECIDED (obligations neither proved nor refuted and no failing input found; never a VIOLATION line)
exit 3  checker inconsistency (vacuous contract, zero obligations, harness error, proved contract failing natively)
"""
import sys, os, json, time, subprocess, re, tempfile, shutil, argparse, hashlib

HERE = os.path.dirname(os.path.dirname(os.path.abspath(__file__)))
sys.path.insert(0, HERE)
os.chdir(HERE)
REPO = os.environ.get('VERIF_REPO', '/repo')
VENV_PY = os.environ.get('VERIF_REPO_PYTHON', '/venv/bin/python')
NPROC = int(os.environ.get('VERIF_NPROC', '16'))

from tools.registry import PROPS, COMMON_ASSUMPTIONS      # noqa: E402


def load_findings():
    p = os.path.join(HERE, 'known_findings.json')
    return json.load(open(p))['findings'] if os.path.exists(p) else []


def run_bounded(prop, spec, tier, seed, only=None):
    """launch the shards of the bounded stand-in as subprocesses under the repository's interpreter"""
    suite = spec.get('bounded')
    if not suite: return None
    tmp = tempfile.mkdtemp(prefix=f'verif-{prop}-', dir=os.environ.get('VERIF_TMP', None))
    hashseeds = spec.get('hashseeds', {}).get(tier, [0, 1] if tier == 'quick' else [0, 1, 2, 3, 4, 5, 6, 7])
    procs = []
    env0 = dict(os.environ, PYTHONPATH=f'{REPO}:{HERE}', PYTHONDONTWRITEBYTECODE='1')
    if only: env0['VERIF_ONLY'] = only
    if spec.get('case_timeout_s'): env0['VERIF_CASE_TIMEOUT_S'] = str(spec['case_timeout_s'])
    budget = spec.get('shard_budget_s', {}).get(tier)
    if budget: env0['VERIF_SHARD_BUDGET_S'] = str(budget)
    for i in range(NPROC):
        out = os.path.join(tmp, f'{i}.json')
        env = dict(env0, PYTHONHASHSEED=str(hashseeds[i % len(hashseeds)]))
        procs.append((i, out, subprocess.Popen([VENV_PY, '-m', 'bounded.shard', suite, str(i), str(NPROC), tier, str(seed), out],
                                               env=env, stdout=subprocess.PIPE, stderr=subprocess.STDOUT, text=True)))
    agg = {'cases': 0, 'evaluations': 0, 'nontrivial': set(), 'failures': [], 'harness_errors': [], 'samples': [], 'timeouts': [],
           'hashseeds': hashseeds, 'crashed': [], 'truncated': False, 'secs': 0.0}
    for i, out, p in procs:
        log, _ = p.communicate()
        if p.returncode != 0 or not os.path.exists(out):
            agg['crashed'].append({'shard': i, 'rc': p.returncode, 'log': (log or '')[-1500:]}); continue
        r = json.load(open(out))
        agg['cases'] += r['cases']; agg['evaluations'] += r['evaluations']; agg['nontrivial'].update(r['nontrivial'])
        agg['failures'] += r['failures']; agg['harness_errors'] += r['harness_errors']; agg['truncated'] |= r['truncated']; agg['timeouts'] += r.get('timeouts', [])
        agg['secs'] = max(agg['secs'], r['secs'])
        if len(agg['samples']) < 3: agg['samples'] += r['samples'][:1]
    shutil.rmtree(tmp, ignore_errors=True)
    return agg


def run_lean(files):
    """each bridge file is checked by `lean` against Mathlib; returns [(file, ok, secs, output)]"""
    procs = []
    env = dict(os.environ)
    if any(f.endswith('Link.lean') for f in files):        # the linked file is regenerated from the contract objects on every run
        r = subprocess.run(['python3-vt', os.path.join(HERE, 'tools', 'render_lean.py')], capture_output=True, text=True)
        if r.returncode != 0: return [{'file': 'bridge/Link.lean', 'ok': False, 'secs': 0.0, 'output': 'render_lean.py failed: ' + (r.stdout + r.stderr)[-600:], 'theorems': []}]
    for f in files:
        t = time.time()
        cmd = ['lean', os.path.join(HERE, f)]
        procs.append((f, t, subprocess.Popen(cmd, env=env, stdout=subprocess.PIPE, stderr=subprocess.STDOUT, text=True)))
    out = []
    for f, t, p in procs:
        log, _ = p.communicate()
        txt = open(os.path.join(HERE, f)).read()
        bad = re.search(r'\b(sorry|admit|native_decide)\b', txt) or re.search(r'^\s*axiom\b', txt, re.M)
        ok = p.returncode == 0 and 'error' not in log and not bad and 'sorry' not in log
        out.append({'file': f, 'ok': ok, 'secs': round(time.time() - t, 1), 'output': log[-800:], 'theorems': re.findall(r'^theorem\s+(\S+)', txt, re.M)})
    return out


def match_finding(findings, prop, kind, **kw):
    for f in findings:
        if f.get('status') != 'known' or f.get('property') != prop or f.get('kind') != kind: continue
        if kind == 'bounded':
            if re.fullmatch(f['check'], kw['check']) and (f.get('tag') is None or f['tag'] in kw.get('tags', [])): return f
        else:
            if f['function'] == kw['function'] and re.fullmatch(f['obligation'], kw['obligation']): return f
    return None


def write_replay(prop, n, payload):
    os.makedirs(os.path.join(HERE, 'replays'), exist_ok=True)
    path = os.path.join(HERE, 'replays', f'{prop}-{n}.json')
    json.dump(payload, open(path, 'w'), indent=1, default=repr)
    return path


def replay_native(prop, spec, fn_key, entry, special):
    """replay a pyvc counter-model on the real code: build the objects of the model, run the run-time contract"""
    rp = spec.get('replayer')
    if not rp: return None
    payload = json.dumps({'function': fn_key, 'entry': entry, 'special': special})
    try:
        p = subprocess.run([VENV_PY, '-m', rp], input=payload, capture_output=True, text=True, timeout=120,
                           env=dict(os.environ, PYTHONPATH=f'{REPO}:{HERE}'))
        return json.loads(p.stdout.strip().split('\n')[-1])
    except Exception as ex:
        return {'confirmed': False, 'error': repr(ex)}


def load_baseline():
    p = os.path.join(HERE, 'pyvc_baseline.json')
    return json.load(open(p)) if os.path.exists(p) else {}


def check_property(prop, tier, seed):
    t0 = time.time()
    spec = PROPS[prop]; findings = load_findings(); baseline = load_baseline()
    lines = []; violations = []; known = {}; undecided = []; inconsistent = []
    # ------------------------------------------------------------------ deductive part
    from pyvc.run import verify
    jobs = spec.get('pyvc', [])
    pres = verify(jobs, NPROC) if jobs else []
    n_obl = sum(r['obligations'] for r in pres); n_dis = sum(r['proved'] for r in pres)
    by_backend = {}
    for r in pres:
        for b, c in r['by_backend'].items(): by_backend[b] = by_backend.get(b, 0) + c
    fn_status = {}
    need_search = []
    for r in pres:
        st = r['status']; fn_status[r['key']] = {'status': st, 'file': r.get('file'), 'qualname': r.get('qualname'), 'line': r.get('line'),
                                                 'obligations': r['obligations'], 'discharged': r['proved'], 'solver_s': r['secs'], 'digest': r.get('digest')}
        if st in ('vacuous', 'no-obligations', 'error'):
            inconsistent.append(f"{r['key']}: {st} {r.get('detail', '')[:300]}")
        elif st in ('out-of-subset', 'unbound'):
            undecided.append(f"{r['key']}: {st}: {r.get('detail', '')[:200]}"); fn_status[r['key']]['detail'] = r.get('detail', '')[:300]
        for f in r['failed']:
            if f['status'] == 'vacuous': continue
            kf = match_finding(findings, prop, 'deductive', function=r['key'], obligation=f['name'])
            if kf: known.setdefault(kf['id'], kf); continue
            if f['status'] == 'undecided':
                base = baseline.get(r['key'])
                if base and base.get('digest') != r.get('digest') and base.get('status') == 'proved':
                    # the function was proved on the baseline tree, its source has changed since, and this obligation is no longer discharged
                    violations.append({'kind': 'deductive', 'function': r['key'], 'file': r.get('file'), 'qualname': r.get('qualname'),
                                       'obligation': f['name'], 'line': f['line'], 'backend': f"{f.get('backend')} (not discharged: {f.get('reason', 'unknown')}; "
                                       f"proved on the baseline source {base.get('digest')}, current source {r.get('digest')})", 'counter_model_entry': None,
                                       'special': None, 'solver_output': f.get('reason', ''), 'native_replay': None, 'confirmed': False})
                    continue
                undecided.append(f"{r['key']} :: {f['name']} (line {f['line']}): {f.get('reason', 'unknown')}"); need_search.append(r['key']); continue
            # refuted: replay the counter-model on the real code
            rep = replay_native(prop, spec, r['key'], f.get('entry'), f.get('special')) if f.get('entry') else None
            violations.append({'kind': 'deductive', 'function': r['key'], 'file': r.get('file'), 'qualname': r.get('qualname'),
                               'obligation': f['name'], 'line': f['line'], 'backend': f.get('backend'), 'counter_model_entry': f.get('entry'),
                               'special': f.get('special'), 'solver_output': f.get('solver_output', '')[:2000], 'native_replay': rep,
                               'confirmed': bool(rep and rep.get('confirmed'))})
    # ------------------------------------------------------------------ thorough tier: engine self-test on the functions of this property
    selftest = []
    if tier == 'thorough' and jobs:
        from concurrent.futures import ProcessPoolExecutor
        mods = sorted({m for m, _ in jobs}); keys = {k for _, k in jobs}
        code = ("import sys, json; sys.path.insert(0, %r); from tools.selftest import run; "
                "print('@@' + json.dumps(run([sys.argv[1]], set(sys.argv[2:]))))" % HERE)
        procs = [subprocess.Popen(['python3-vt', '-c', code, m] + sorted(keys), stdout=subprocess.PIPE, stderr=subprocess.STDOUT, text=True) for m in mods]
        for p_ in procs:
            out_, _ = p_.communicate()
            for line in out_.split('\n'):
                if line.startswith('@@'): selftest += json.loads(line[2:])
        for r_ in selftest:
            if r_['ok'] is False:
                inconsistent.append(f"engine self-test: the {r_['kind']} edit of {r_['target']} gave {r_.get('status_after_edit')} (a property-breaking edit must not stay proved, a benign one must)")
    # ------------------------------------------------------------------ Lean bridge
    lres = run_lean(spec.get('lean', []))
    for l in lres:
        if not l['ok']: inconsistent.append(f"bridge lemma file {l['file']} rejected by lean: {l['output'][-300:]}")
    # ------------------------------------------------------------------ bounded stand-in / CPython cross-check
    b = run_bounded(prop, spec, tier, seed)
    bfail_by_check = {}
    if b is not None:
        if b['crashed']: inconsistent.append(f"bounded shard crashed: {b['crashed'][0]}")
        if b['harness_errors']: inconsistent.append(f"harness error: {json.dumps(b['harness_errors'][0], default=repr)[:1500]}")
        for f in b['failures']:
            kf = match_finding(findings, prop, 'bounded', check=f['check'], tags=f.get('tags', []))
            if kf: known.setdefault(kf['id'], kf); continue
            bfail_by_check.setdefault(f['check'], []).append(f)
        for chk, fl in bfail_by_check.items():
            fl.sort(key=lambda f: len(json.dumps(f['case'], default=repr)))
            violations.append({'kind': 'bounded', 'check': chk, 'count': len(fl), 'detail': fl[0]['detail'], 'case': fl[0]['case'],
                               'suite': spec['bounded'], 'confirmed': True})
    # a contract proved from the AST that fails natively = the encoding is wrong (checker inconsistency), unless the function is refuted too
    proved_keys = {k for k, v in fn_status.items() if v['status'] == 'proved'}
    for chk in bfail_by_check:
        m = re.match(r'pyvc\.([A-Za-z_.]+)', chk)
        if m and m.group(1) in proved_keys: inconsistent.append(f'contract of {m.group(1)} proved from the source but fails natively ({chk})')
    # refuted obligations whose model did not replay: the bounded failures (if any) are the failing input
    for v in violations:
        if v['kind'] == 'deductive' and not v['confirmed']:
            hit = [x for x in violations if x['kind'] == 'bounded']
            if hit: v['bounded_witness'] = hit[0]['check']
    # ------------------------------------------------------------------ verdict
    vcount = 0
    for i, v in enumerate(violations[:8]):
        path = write_replay(prop, i, dict(v, property=prop, tier=tier, seed=seed))
        suffix = ''
        if v['kind'] == 'deductive':
            what = f"obligation '{v['obligation']}' of {v['qualname']} ({v['file']}:{v['line']}) fails: {v['backend']}"
            if not v['confirmed'] and not v.get('bounded_witness'): suffix = ' no-failing-input-found'
        else: what = f"{v['check']}: {v['detail'][:160]} ({v['count']} failing inputs)"
        lines.append(f'# {what}')
        lines.append(f'VIOLATION property={prop} replay={path}{suffix}'); vcount += 1
    for kf in known.values(): lines.append(f"KNOWN-FINDING: property={prop} {kf['id']}: {kf['description']}")
    for u in undecided: lines.append(f'UNDECIDED property={prop} obligation={u}')
    for x in inconsistent: lines.append(f'CHECKER-INCONSISTENCY property={prop} {x}')
    nontriv = len(b['nontrivial']) if b else 0
    total_evals = (b['evaluations'] if b else 0)
    if not jobs and not b: inconsistent.append('no machinery ran')
    if jobs and n_obl == 0: inconsistent.append('zero obligations generated')
    rc = 1 if vcount else 3 if inconsistent else 2 if undecided else 0
    # ------------------------------------------------------------------ evidence
    proved_fns = [k for k, v in fn_status.items() if v['status'] == 'proved']
    ev = {
        'property_id': prop, 'tier': tier, 'seed': seed, 'level': spec['level'], 'wall_s': round(time.time() - t0, 1), 'violations': vcount,
        'coverage': {
            'explanation': spec['explanation'],
            'obligations': n_obl, 'discharged': n_dis, 'by_backend': by_backend,
            'checker_cmd': f'./check {prop} --tier {tier}',
            'functions_under_contract': fn_status,
            'functions_proved': proved_fns,
            'callee_contracts_not_discharged_in_this_run': {c: how for r in pres for c, how in r.get('callee_contracts', {}).items()
                                                             if c not in proved_fns},
            # the registry lists what the bounded suite exercises; what is proved in this run is taken out of the "bounded only" list
            'functions_bounded_only': [b_ for b_ in spec.get('bounded_only', [])
                                       if not any(b_.split('(')[0].strip().split('.')[-1] == (fn_status[k_].get('qualname') or k_).split('.')[-1] for k_ in proved_fns)],
            'bridge_lemmas': [{'file': l['file'], 'accepted_by_lean': l['ok'], 'theorems': l['theorems'], 'secs': l['secs']} for l in lres],
            'trusted_base': spec.get('trusted_base', []) + COMMON_ASSUMPTIONS['trusted_base'],
            'evaluations': total_evals, 'distinct_nontrivial': nontriv,
            'rule': spec.get('rule', ''), 'exhaustive': bool(spec.get('exhaustive_part')),
            'bounded_scope': spec.get('scope', {}).get(tier, ''), 'hashseeds': b['hashseeds'] if b else [],
            'bounded_truncated_by_time': bool(b and b['truncated']), 'bounded_cases_skipped_on_per_case_budget': len(b['timeouts']) if b else 0,
            'samples': ([{'obligation': s} for r in pres for s in r['sample'][:1]][:4]) + ([{'bounded_case': c} for c in (b['samples'] if b else [])][:3]),
            'known_findings_matched': sorted(known),
            'engine_self_test': selftest,
            'undecided': undecided, 'solver_wall_s': round(sum(r['secs'] for r in pres), 1),
        },
        'assumptions': spec.get('assumptions', []) + COMMON_ASSUMPTIONS['assumptions'],
    }
    os.makedirs(os.path.join(HERE, 'evidence'), exist_ok=True)
    json.dump(ev, open(os.path.join(HERE, 'evidence', f'{prop}.json'), 'w'), indent=1, default=repr)
    print('\n'.join(lines))
    print(f"[{prop}] tier={tier} obligations={n_dis}/{n_obl} proved-functions={len(proved_fns)}/{len(jobs)} lean={sum(l['ok'] for l in lres)}/{len(lres)} "
          f"bounded-cases={b['cases'] if b else 0} nontrivial={nontriv} failures-unlisted={sum(len(v) for v in bfail_by_check.values())} "
          f"known={len(known)} wall={time.time() - t0:.1f}s exit={rc}")
    return rc


def do_replay(path):
    d = json.load(open(path)); prop = d['property']; spec = PROPS[prop]
    if d['kind'] == 'bounded':
        code = ("import json,sys,importlib; d=json.load(open(sys.argv[1])); m=importlib.import_module(d['suite']); "
                "f,_,_=m.check(d['case']); f=[x for x in f if x['check']==d['check']]; print(json.dumps(f[:3],default=repr)); sys.exit(1 if f else 0)")
        p = subprocess.run([VENV_PY, '-c', code, path], env=dict(os.environ, PYTHONPATH=f'{REPO}:{HERE}'), text=True, capture_output=True)
        print(p.stdout, p.stderr[-2000:])
        print('REPRODUCED' if p.returncode == 1 else 'NOT REPRODUCED on the current tree'); return p.returncode
    from pyvc.run import verify
    mod = [m for m, k in spec['pyvc'] if k == d['function']][0]
    r = verify([(mod, d['function'])], 1)[0]
    bad = [f for f in r['failed'] if f['name'] == d['obligation']]
    print(json.dumps({'function': d['function'], 'status': r['status'], 'obligation': d['obligation'], 'still_failing': bool(bad)}, indent=1))
    if d.get('counter_model_entry'):
        print('native replay of the counter-model:', replay_native(prop, spec, d['function'], d['counter_model_entry'], d.get('special')))
    return 1 if bad else 0


def main():
    ap = argparse.ArgumentParser()
    ap.add_argument('prop', nargs='?'); ap.add_argument('--tier', default=os.environ.get('VERIF_TIER', 'quick'))
    ap.add_argument('--replay'); ap.add_argument('--list', action='store_true'); ap.add_argument('--rebaseline', action='store_true')
    a = ap.parse_args()
    if a.list: print('\n'.join(PROPS)); return 0
    if a.rebaseline:
        from pyvc.run import verify
        jobs = sorted({j for sp in PROPS.values() for j in sp.get('pyvc', [])})
        res = {r['key']: {'digest': r.get('digest'), 'status': r['status'], 'obligations': r['obligations'], 'file': r.get('file'), 'qualname': r.get('qualname')} for r in verify(jobs, NPROC)}
        json.dump(res, open(os.path.join(HERE, 'pyvc_baseline.json'), 'w'), indent=1, sort_keys=True)
        bad = [k for k, v in res.items() if v['status'] != 'proved']
        print(f'baseline written: {len(res)} functions, not proved: {bad}'); return 1 if bad else 0
    if a.replay: return do_replay(a.replay)
    seed = int(os.environ.get('VERIF_SEED', '0'))
    return check_property(a.prop, a.tier if a.tier in ('quick', 'thorough') else 'quick', seed)


if __name__ == '__main__':
    sys.exit(main())
