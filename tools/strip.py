import ast,sys
for f in sys.argv[1:]:
    src=open(f).read()
    tree=ast.parse(src)
    for node in ast.walk(tree):
        if isinstance(node,(ast.FunctionDef,ast.ClassDef,ast.Module)):
            if node.body and isinstance(node.body[0],ast.Expr) and isinstance(getattr(node.body[0],'value',None),ast.Constant) and isinstance(node.body[0].value.value,str):
                ds=node.body[0].value.value.strip().split("\n")[0]
                node.body[0].value.value=ds
    print("#"*20,f)
    print(ast.unparse(tree))
