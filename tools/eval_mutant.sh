#!/bin/bash
# usage: tools/eval_mutant.sh <worktree> <n> <property id> [more property ids]
# 1. confirm in the scratch worktree: patch applies, test suite passes, demo fails with the patch and passes without
# 2. apply to /repo, run the checks, undo
WT=$1; N=$2; shift 2
cd $WT || exit 9
git checkout -q -- pyformlang
/venv/bin/python mutants/demo$N.py > /dev/null 2>&1; D0=$?
git apply mutants/mutant$N.diff || { echo "PATCH DOES NOT APPLY"; exit 9; }
TESTS=$(/venv/bin/python -m pytest -q -p no:cacheprovider 2>&1 | tail -1)
/venv/bin/python mutants/demo$N.py > /dev/null 2>&1; D1=$?
git checkout -q -- pyformlang
echo "confirm: demo on clean tree exit=$D0, with patch exit=$D1, tests: $TESTS"
cd /repo && git apply $WT/mutants/mutant$N.diff || { echo "DOES NOT APPLY TO /repo"; exit 9; }
for P in "$@"; do
  cd /verif && ./check $P > /tmp/evalmut.log 2>&1; RC=$?
  echo "  check $P exit=$RC :: $(grep -c '^VIOLATION' /tmp/evalmut.log) violation lines; first: $(grep -B1 '^VIOLATION' /tmp/evalmut.log | head -1 | cut -c1-230)"
  grep '^UNDECIDED\|^CHECKER' /tmp/evalmut.log | head -2 | cut -c1-200
done
git -C /repo checkout -q -- . 
