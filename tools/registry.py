"""What decides each property: functions under contract (pyvc), bridge lemmas (Lean), bounded stand-in suite."""

FA = 'contracts.fa'
def fa(*keys): return [(FA, k) for k in keys]

COMMON_ASSUMPTIONS = {
    'trusted_base': [
        'pyvc: the home-made AST->z3 VC generator in /verif/pyvc (guarded by canaries, native cross-check and mutation smoke test; not itself verified)',
        'z3 5.1.0 (python API) as primary solver; /usr/bin/z3 4.8.12 and cvc5 1.0.3 accepted for `unsat` only',
        'Lean 4.33.0 + Mathlib for bridge lemmas; the correspondence between a z3 postcondition and the Lean hypothesis structure is by inspection (DESIGN 3.6)',
        'closure-induction schema instances named in contracts (sound for least fixpoints; theorems on the Lean side)',
    ],
    'assumptions': [
        'value classes (State, Symbol, Variable, Terminal, ...) are values: == is equality of .value with a consistent hash (DESIGN 2.1); checked only on the bounded scope',
        'sets and dicts iterate in arbitrary order (proved for every order); Python ints are mathematical',
        'partial correctness only: termination, recursion depth and memory are not verified',
        'extraction from source drops docstrings, annotations, comments; decorators @property/@staticmethod/@classmethod are interpreted',
        'bounded parts say nothing beyond their stated scope and are never counted as proved',
    ],
}

PROPS = {}
NOT_APPLICABLE = {}

PROPS['C01'] = dict(
    level='other',
    technique='contract-based deductive verification (pyvc VC generator over the real source + z3, Lean bridge lemmas) for acceptance, closures, eps-removal, subset construction, copy; bounded run-time contract checking for minimize',
    level_text=('Deductive for EpsilonNFA.{_get_next_states_iterable, eclose, eclose_iterable, accepts, remove_epsilon_transitions, _to_deterministic_internal, copy}: '
                'every obligation generated from the current source is discharged by z3 for all automata, words and set-iteration orders, and Lean lemmas '
                '(run/epsrem/detsim) carry the structural postconditions to "accepts the same set of words". minimize (Hopcroft over numpy arrays and linked lists) '
                'is outside the verifier and is only checked on a bounded scope with an exact equivalence oracle - labelled bounded, not proved. Hence level other (mixed), not proof.'),
    level_note=('Trusted: the VC generator itself, z3, Lean+Mathlib, the by-inspection match between z3 postconditions and Lean hypothesis structures, value-class and '
                'ownership assumptions of DESIGN section 2, premise #name_injective (merged state names) which is false in general and recorded as known finding F-C01-merged-names; '
                'partial correctness only.'),
    pyvc=fa('ENFA._get_next_states_iterable', 'ENFA.eclose', 'ENFA.eclose_iterable', 'ENFA.accepts',
            'ENFA.remove_epsilon_transitions', 'ENFA._to_deterministic_internal', 'ENFA.copy'),
    lean=['bridge/run.lean', 'bridge/epsrem.lean', 'bridge/detsim.lean'],
    bounded='bounded.c01', replayer='bounded.replay_fa',
    bounded_only=['DeterministicFiniteAutomaton.minimize', 'DeterministicFiniteAutomaton._get_partition', 'Partition/HopcroftProcessingList (Hopcroft refinement: numpy object arrays + intrusive linked lists)'],
    explanation=('mixed: the functions listed under functions_proved are verified deductively from their current source against sidecar contracts '
                 '(every input, every set-iteration order) and linked to the language statement by Lean bridge lemmas; minimize and everything under '
                 'functions_bounded_only is only covered by the bounded stand-in (exhaustive small scope + seeded sample, exact language-equivalence oracle).'),
    rule=('case = one automaton (exhaustive: all eps-NFAs with <=2 states over one symbol; sample: seeded random <=4 states, <=2 symbols, adversarial state names); '
          'each is built as EpsilonNFA/NFA/DFA where legal and every contract of bounded/fa_checks.py c01_* is evaluated; non-trivial = non-empty language and a nondeterministic or epsilon step; distinct = distinct canonical JSON'),
    exhaustive_part=True,
    scope={'quick': 'all eps-NFA n<=2,k=1 (4112) + 2000 random n<=4,k<=2; words <=4; 2 hash seeds', 'thorough': '+ all eps-NFA n=2,k=2 (65536) + 20000 random; 8 hash seeds'},
    trusted_base=['premise #name_injective of the subset construction: to_single_state is assumed injective on the subsets that occur (false in general: known finding F-C01-merged-names)'],
    assumptions=['DFA.minimize / EpsilonNFA.minimize: bounded only'],
)
