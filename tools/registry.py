"""What decides each property: functions under contract (pyvc), bridge lemmas (Lean), bounded stand-in suite."""

FA = 'contracts.fa'
def fa(*keys): return [(FA, k) for k in keys]

COMMON_ASSUMPTIONS = {
    'trusted_base': [
        'pyvc: the home-made AST->z3 VC generator in /verif/pyvc (guarded by canaries, native cross-check and mutation smoke test; not itself verified)',
        'z3 5.1.0 (python API) as primary solver; /usr/bin/z3 4.8.12 and cvc5 1.0.3 accepted for `unsat` only',
        'Lean 4.33.0 + Mathlib for bridge lemmas. For reverse, remove_epsilon_transitions, is_empty, the subset construction (_to_deterministic_internal with eclose=True) and the product construction (get_intersection) the Lean hypothesis is GENERATED from the contract object (tools/render_lean.py -> bridge/Link.lean, adapters proved in Lean); for the other bridged statements (complement, accepts, reversal of grammars, counting facts) the correspondence between the z3 formula and the Lean statement is by inspection',
        'closure-induction schema instances named in contracts (sound for least fixpoints; theorems on the Lean side)',
    ],
    'assumptions': [
        'value classes (State, Symbol, Variable, Terminal, ...) are values: == is equality of .value with a consistent hash (DESIGN 2.1); checked only on the bounded scope',
        'sets and dicts iterate in arbitrary order (proved for every order); Python ints are mathematical',
        'partial correctness only: termination, recursion depth and memory are not verified',
        'state naming: StateNamer is modelled as a total injective function from sets (pairs) of states to states of the same sort; this is a first-order (Henkin-model) assumption - a total injection from *all* sets is impossible by cardinality, the program only ever names finitely many sets - and every function proved under it carries a canary obligation (False must not be provable)',
        'extraction from source drops docstrings, annotations, comments; decorators @property/@staticmethod/@classmethod are interpreted',
        'aliasing: a local bound to an attribute / subscript / other name of a mutable object is an alias and a mutation through it is refused (out-of-subset); sharing created by a method that returns an internal object is not modelled',
        'bounded parts say nothing beyond their stated scope and are never counted as proved',
    ],
}

PROPS = {}
NOT_APPLICABLE = {}

PROPS['C01'] = dict(
    level='other',
    technique='contract-based deductive verification (pyvc VC generator over the real source + z3, Lean bridge lemmas) for acceptance, closures, eps-removal, subset construction, copy; bounded run-time contract checking for minimize',
    level_text=('Deductive for EpsilonNFA.{_get_next_states_iterable, eclose, eclose_iterable, accepts, remove_epsilon_transitions, _to_deterministic_internal, copy}: '
                'every obligation generated from the current source is discharged by z3 for all automata, words and set-iteration orders, and Lean lemmas '
                '(run/epsrem/detsim) carry the structural postconditions to "accepts the same set of words". minimize (Hopcroft over numpy arrays and linked lists) '
                'is outside the verifier and is only checked on a bounded scope with an exact equivalence oracle - labelled bounded, not proved. Hence level other (mixed), not proof.'),
    level_note=('Trusted: the VC generator itself, z3, Lean+Mathlib, the by-inspection match between z3 postconditions and Lean hypothesis structures, value-class and '
                'ownership assumptions of DESIGN section 2, injectivity of merged-state names rests on the proved contract of StateNamer._get (after fix 60ce915); '
                'partial correctness only.'),
    pyvc=fa('ENFA.add_transitions', 'ENFA._get_next_states_iterable', 'ENFA.eclose', 'ENFA.eclose_iterable', 'ENFA.accepts', 'NFA.accepts', 'DFA.accepts',
            'ENFA.remove_epsilon_transitions', 'ENFA._to_deterministic_internal', 'ENFA.copy', 'ENFA.to_deterministic', 'NFA.to_deterministic', 'DFA.to_deterministic', 'DFA.copy',
            'ENFA.add_transition', 'ENFA.remove_transition', 'ENFA.add_start_state', 'ENFA.remove_start_state', 'ENFA.add_final_state', 'ENFA.remove_final_state',
            'ENFA.__call__', 'ENFA.is_final_state', 'ENFA.add_symbol', 'DFA.add_start_state', 'DFA.remove_start_state', 'NFA.add_transition')
         + [('contracts.fa_namer', 'NamerC._get')]
         + [('contracts.fa_concrete', k) for k in ('NTF.add_transition', 'NTF.remove_transition', 'NTF.__call__', 'NTF.is_deterministic', 'DTF.add_transition', 'DTF.remove_transition', 'DTF.__call__')],
    lean=['bridge/run.lean', 'bridge/runn.lean', 'bridge/epsrem.lean', 'bridge/detsim.lean', 'bridge/Link.lean'],
    bounded='bounded.c01', replayer='bounded.replay_fa',
    bounded_only=['DeterministicFiniteAutomaton.minimize', 'DeterministicFiniteAutomaton._get_partition', 'Partition/HopcroftProcessingList (Hopcroft refinement: numpy object arrays + intrusive linked lists)'],
    explanation=('mixed: the functions listed under functions_proved are verified deductively from their current source against sidecar contracts '
                 '(every input, every set-iteration order) and linked to the language statement by Lean bridge lemmas; minimize and everything under '
                 'functions_bounded_only is only covered by the bounded stand-in (exhaustive small scope + seeded sample, exact language-equivalence oracle).'),
    rule=('case = one automaton (exhaustive: all eps-NFAs with <=2 states over one symbol; sample: seeded random <=4 states, <=2 symbols, adversarial state names); '
          'each is built as EpsilonNFA/NFA/DFA where legal and every contract of bounded/fa_checks.py c01_* is evaluated; non-trivial = non-empty language and a nondeterministic or epsilon step; distinct = distinct canonical JSON'),
    exhaustive_part=True,
    scope={'quick': 'all eps-NFA n<=2,k=1 (4112) + 2000 random n<=4,k<=2; words <=4; 2 hash seeds', 'thorough': '+ all eps-NFA n=2,k=2 (65536) + 20000 random; 8 hash seeds'},
    trusted_base=['StateNamer is modelled at its call sites as a lazily sampled injective function; justified by the proved contract of StateNamer._get (cached, injective) plus the meta-argument that an injective partial map extends to a total one; the one-line wrappers get_merged/get_pair (key = frozenset / tuple) are read by inspection'],
    assumptions=['DFA.minimize / EpsilonNFA.minimize: bounded only'],
)

PROPS['C02'] = dict(
    level='exploration',
    technique='bounded run-time contract checking with an exact product-reachability equivalence oracle (the deductive verifier cannot reach Hopcroft refinement over numpy arrays / linked lists); delegation wrappers are trivial',
    level_text=('Bounded stand-in only: is_equivalent_to/==/minimize are evaluated on all ordered pairs of partial DFAs with <=2 states over one symbol and on a seeded sample of '
                'DFA/eps-NFA pairs (incl. independently built equivalent partners with and without an explicit sink, different alphabets) against an exact equivalence oracle, '
                'a pairwise-distinguishability oracle and an isomorphism walk. Not a proof: Hopcroft partition refinement (numpy object arrays, intrusive doubly linked lists) is outside the VC generator.'),
    level_note='Trusted: the reference semantics in specs/fa.py (determinisation + product reachability), the extraction of result automata through the public API. Nothing is claimed beyond the enumerated scope.',
    pyvc=[], lean=[], bounded='bounded.c02',
    bounded_only=['DeterministicFiniteAutomaton.is_equivalent_to', '_is_equivalent_to_minimal', 'minimize', '_get_partition', 'Partition', 'HopcroftProcessingList', 'DoublyLinkedList', 'FiniteAutomaton.is_equivalent_to', '__eq__'],
    explanation='bounded only (see level_text)',
    rule=('case = ordered pair of automata with the classes they are built as; non-trivial = (equal languages, different automata, non-empty) or (different non-empty languages); distinct = canonical JSON of the pair'),
    exhaustive_part=True,
    scope={'quick': 'all ordered pairs of partial DFAs n<=2,k=1 + 3000 random pairs (<=3 states, <=3 symbols), 2 hash seeds', 'thorough': '+ n=2,k=2 partial DFAs x 40 partners, 30000 random pairs, 8 hash seeds'},
)

PROPS['C03'] = dict(
    level='other',
    technique='contract-based deductive verification (pyvc + z3, Lean bridge lemmas) for intersection, complement, difference, reverse; bounded run-time contract checking for union/concatenate/kleene_star (built through regex text)',
    level_text=('Deductive for EpsilonNFA.{get_intersection, get_complement, get_difference, reverse} (structure proved for all operands and iteration orders; Lean lemmas prod/compl/rev '
                'give the language statement). union, concatenate, kleene_star go through to_regex/Regex text and are only bounded-checked against reference constructions with an exact '
                'equivalence oracle. Mixed, hence level other.'),
    level_note='Trusted: VC generator, z3, Lean+Mathlib, by-inspection match of postconditions and Lean structures, premises #pair_injective and trash-state freshness (see known findings), value/ownership assumptions; bounded part: reference semantics.',
    pyvc=fa('ENFA.get_intersection', 'ENFA.get_complement', 'ENFA.get_difference', 'ENFA.reverse', 'ENFA.copy', 'DFA.copy', 'ENFA.to_deterministic', 'ENFA._to_deterministic_internal', 'ENFA.eclose_iterable', 'ENFA.eclose',
            'ENFA.__neg__', 'ENFA.__and__', 'ENFA.__sub__', 'ENFA.__invert__', 'ENFA.__copy__') + [('contracts.fa_namer', 'NamerC._get')],
    lean=['bridge/prod.lean', 'bridge/compl.lean', 'bridge/rev.lean', 'bridge/Link.lean'],
    bounded='bounded.c03', replayer='bounded.replay_fa',
    bounded_only=['Regexable.union', 'Regexable.concatenate', 'Regexable.kleene_star', 'EpsilonNFA.to_regex and helpers'],
    explanation='mixed: four operations proved deductively + Lean bridge; the three rational operations bounded only',
    rule='case = one automaton (unary ops) or an ordered pair (binary ops, incl. the same object twice, colliding state names, different alphabets); non-trivial = operands with non-empty language and a nondeterministic or epsilon step',
    exhaustive_part=True,
    scope={'quick': 'unary: all eps-NFA n<=2,k=1 + 1200 random; binary: 1500 pairs; words <=3/4; 2 hash seeds', 'thorough': 'unary + n=2,k=2 exhaustive; 20000 pairs; 8 hash seeds'},
)

PROPS['C04'] = dict(
    level='other',
    technique='contract-based deductive verification (pyvc + z3, Lean bridge) for is_empty, is_deterministic and both directions of is_acyclic; bounded run-time contract checking for get_accepted_words',
    level_text=('Deductive for EpsilonNFA.is_empty (worklist reachability, all automata, all orders; Lean lemma empty gives "no word accepted") and EpsilonNFA.is_deterministic '
                '(postcondition is the property wording). is_acyclic: the answer False is proved sound (a cycle reachable from a start state exists: every pair in the work list holds a reachable state and a set of reachable states that reach it in at least one step), and the answer True is proved sound through a ghost argument (for every walk from a start state that closes a cycle for the first time at its last state, the function does not return True: some prefix of that walk is always pending in the work list); the graph fact that a reachable cycle yields such a walk (shortest lasso) is assumed; termination is not verified. get_accepted_words (order-dependent pruning, generator, termination) is bounded only. Mixed => other.'),
    level_note='Trusted: VC generator, z3, Lean+Mathlib, closure-induction schema instances, value assumptions; termination of get_accepted_words on finite languages is only observed on the bounded scope with a step budget.',
    pyvc=fa('ENFA.is_empty', 'ENFA.__bool__', 'ENFA.is_acyclic', 'ENFA.is_acyclic#exhaustive', 'ENFA.is_deterministic', 'NFA.is_deterministic', 'DFA.is_deterministic', 'ENFA.eclose', 'ENFA._get_next_states_from', 'ENFA._get_reachable_states', 'ENFA._get_states_leading_to_final') + [('contracts.fa_concrete', 'NTF.is_deterministic')],
    lean=['bridge/empty.lean', 'bridge/Link.lean'],
    bounded='bounded.c04', replayer='bounded.replay_fa',
    bounded_only=['FiniteAutomaton.get_accepted_words', '_get_states_leading_to_final', 'NFA.is_deterministic', 'DFA.is_deterministic'],
    explanation='mixed: is_empty and is_deterministic proved; acyclicity and enumeration bounded',
    rule='case = one automaton built as every legal class; non-trivial = non-empty language with a nondeterministic or epsilon step',
    exhaustive_part=True,
    scope={'quick': 'all eps-NFA n<=2,k=1 + 2000 random; bounds n=0..3 and unbounded on finite languages; 2 hash seeds', 'thorough': '+ n=2,k=2 exhaustive, 20000 random, 8 hash seeds'},
)

PROPS['C06'] = dict(
    level='exploration',
    technique='bounded run-time contract checking with an exact equivalence oracle (state elimination builds regex text whose meaning is defined by the regex parser: outside the deductive verifier)',
    level_text='Bounded stand-in only: to_regex() and the round trip to_regex().to_epsilon_nfa() compared with the source automaton by exact language equivalence on the enumerated scope, several hash seeds (elimination order follows set order).',
    level_note='Trusted: specs/fa.py reference semantics and extraction through the public API; nothing beyond the scope.',
    pyvc=[], lean=[], bounded='bounded.c06',
    bounded_only=['EpsilonNFA.to_regex', '_remove_all_basic_states', '_remove_state', '_create_or_transitions', '_get_regex_simple', '_get_bi_transitions', 'get_temp', 'get_regex_sub'],
    explanation='bounded only (see level_text)',
    rule='case = one eps-NFA with plain-token symbols; non-trivial = non-empty language with a nondeterministic or epsilon step',
    exhaustive_part=True,
    scope={'quick': 'all eps-NFA n<=2,k=1 + 1500 random (<=4 states), 2 hash seeds', 'thorough': '+ n=2,k=2 exhaustive, 15000 random, 8 hash seeds'},
)


def bounded_only(pid, suite, text, note, funcs, rule, scope, technique=None, **kw):
    PROPS[pid] = dict(level='exploration', technique=technique or 'bounded run-time contract checking against an independent reference semantics (labelled bounded; the deductive verifier does not reach these functions yet)',
                      level_text=text, level_note=note, pyvc=[], lean=[], bounded=suite, bounded_only=funcs, explanation='bounded only (see level_text)',
                      rule=rule, exhaustive_part=True, scope=scope, **kw)

CFG_RULE = ('case = one grammar (exhaustive: 2 variables, 2 terminals, bodies <=2, up to 3 productions = 12384 grammars; sample: seeded random grammars with <=3 variables '
            '(incl. reserved fresh-symbol names and non-string values), bodies <=4, <=6 productions); non-trivial = non-empty language and recursion / epsilon / unit / long production')
CFG_NOTE = 'Trusted: specs/cfg.py (textbook derivability by length-bounded least fixpoint, generating/nullable/reachable fixpoints, finiteness by strict-cycle test); language comparisons are bounded to words of length <= 4.'
bounded_only('C08', 'bounded.c08',
    'Bounded stand-in only: contains / in / generate_epsilon compared with derivability (least fixpoint per variable) for all words of length <=4 over the terminals plus one unknown symbol, on the enumerated grammars, 2 hash seeds.',
    CFG_NOTE, ['CFG.contains', 'CFG.__contains__', 'CFG.generate_epsilon', 'CYKTable', 'CFG.to_normal_form pipeline'], CFG_RULE,
    {'quick': '12384 exhaustive + 1500 random grammars, words <=4', 'thorough': '<=4 productions exhaustive (124k) + 15000 random, 8 hash seeds'})
bounded_only('C09', 'bounded.c09',
    'Bounded stand-in only: each clean-up step and to_normal_form compared with the source grammar on words of length <=4 (empty word excepted where documented) and checked for the promised shape through an independent reading of the result.',
    CFG_NOTE, ['CFG.remove_useless_symbols', 'remove_epsilon', 'eliminate_unit_productions', 'to_normal_form', '_get_generating_or_nullable', '_decompose_productions', '_get_productions_with_only_single_terminals'], CFG_RULE,
    {'quick': '12384 exhaustive + 1500 random grammars, words <=4', 'thorough': '124k exhaustive + 15000 random, 8 hash seeds'})
bounded_only('C10', 'bounded.c10',
    'Bounded stand-in only: union, concatenate, closures, reverse, substitute and operator forms compared with set algebra on the bounded languages (length <=4) of the operands, on ordered pairs incl. the same object twice and reserved names.',
    CFG_NOTE, ['CFG.substitute', 'union', 'concatenate', 'get_closure', 'get_positive_closure', 'reverse'],
    'case = ordered pair of grammars drawn from the C08 pool (8% same object); non-trivial = both operands non-trivial',
    {'quick': '2500 pairs', 'thorough': '25000 pairs, 8 hash seeds'})
bounded_only('C12', 'bounded.c12',
    'Bounded stand-in only: is_empty, is_finite, generating/nullable/reachable sets and get_words(n) (multiset equality, n=0..4 and unbounded on finite languages under a step budget) against fixpoint oracles.',
    CFG_NOTE, ['CFG.is_empty', 'is_finite', 'get_generating_symbols', 'get_nullable_symbols', 'get_reachable_symbols', 'get_words'], CFG_RULE,
    {'quick': '12384 exhaustive + 1500 random grammars', 'thorough': '124k exhaustive + 15000 random, 8 hash seeds'})

PDA_NOTE = 'Trusted: specs/pda.py (exact PDA membership for a given word by saturation of pop/reach summaries - no stack bound), specs/cfg.py, specs/fa.py; languages compared on words of length <= 3; symbols are strings (to_pda stringifies values).'
bounded_only('C13', 'bounded.c13',
    'Bounded stand-in only: to_final_state, to_empty_stack, to_cfg on random small PDAs (<=3 states, <=3 stack symbols, <=5 transitions, pushes of 0-3 symbols, epsilon moves, reserved fresh names present) and to_pda / to_pda().to_cfg() on the enumerated grammars, against an exact PDA membership oracle in both acceptance modes.',
    PDA_NOTE, ['CFG.to_pda', 'PDA.to_cfg', 'PDA.to_final_state', 'PDA.to_empty_stack', 'get_next_free', 'CFGVariableConverter', 'pda.TransitionFunction'],
    'case = one PDA or one grammar; non-trivial PDA = accepts some word of length <=2 in some mode and has a transition pushing >=2 symbols; non-trivial grammar as in C08',
    {'quick': '2500 random PDAs + 904 exhaustive + 600 random grammars; words <=3', 'thorough': '25000 PDAs + 12384 + 6000 grammars, 8 hash seeds'})
bounded_only('C11', 'bounded.c11',
    'Bounded stand-in only: cfg.intersection / & and pda.intersection with a regular language given as Regex, DFA, NFA or eps-NFA object (incl. deterministic automata presented as NFA/eps-NFA objects, partly overlapping alphabets, empty operands, terminals that are capitalised strings or ints, finite-control PDAs with 4 states over 3 letters whose product pairs are reached late, two automata over the same State objects) against the product of the reference semantics; other operand types must raise NotImplementedError; a run-time check of the contract of CFGVariableConverter with up to 14 states / 12 symbols (every triple its own variable, the same triple the same variable, equal copies and objects indexed by an earlier converter).',
    PDA_NOTE, ['CFG.intersection', 'CFG._intersection_*', 'PDA.intersection', '_PDAStateConverter', 'CFGVariableConverter'],
    'case = (grammar | PDA) x regular operand with the class it is presented as; non-trivial = both operands have a non-empty language',
    {'quick': '1800 grammar pairs + 2000 PDA pairs + 500 shared-state cases + 6 converter cases + operand-type cases; words <=3', 'thorough': 'ten times as many, 8 hash seeds'})

bounded_only('C05', 'bounded.c05',
    'Bounded stand-in only: every token string of <=4 tokens over {a, b, space, ., |, *, (, ), $} (7381 texts) and 2500 rendered random expressions (depth <=3, all operator spellings, minimal and redundant parentheses, escaped operator symbols, damaged variants) are read by an independent precedence-climbing parser; Regex must accept exactly the well-formed ones (else MisformedRegexError only) and accepts / to_epsilon_nfa / to_cfg / str round trip / combinators must agree with the reference matcher on all words of length <=3.',
    'Trusted: specs/regex.py (tokenizer, parser, matcher written from the documented grammar); escapes are only generated as stand-alone tokens; symbols are 1-3 characters.',
    ['RegexReader (tokenisation, precedence by inserting parentheses)', 'Regex.to_epsilon_nfa (Thompson)', 'Regex.to_cfg', 'Regex.accepts', 'Regex.__repr__', 'union/concatenate/kleene_star'],
    'case = one text (plus a second one for combinators); non-trivial = well-formed, non-empty language, top-level operator',
    {'quick': '7381 exhaustive token strings + 2500 random renderings; words <=3', 'thorough': '<=5 tokens exhaustive (66430) + 25000 renderings, 8 hash seeds'})
bounded_only('C07', 'bounded.c07',
    'Bounded stand-in only: the specification is CPython re.fullmatch (an external executable, not a spec function), so the contract accepts(s) == (re.fullmatch(p, s) is not None) and "rejected by re => rejected" is enforced at run time on patterns generated from the documented subset (depth <=3: literals, escaped metacharacters, ., sets, negated sets, ranges, alternation, groups, * + ? {m} {m,n} with m in 0..2, \\d \\s \\w) and 51 strings (incl. the empty one) per pattern over a 10-character printable alphabet, length <=4.',
    'Trusted: CPython re as the oracle. The seven textual rewrite passes (str.replace, int()) are outside both solvers string theories - stated, not attempted.',
    ['PythonRegex.__init__ rewrite pipeline', '_preprocess_brackets*', '_preprocess_negation', '_preprocess_positive_closure', '_add_repetition', '_preprocess_optional', '_separate', '_recombine'],
    'case = one pattern with its sampled strings; non-trivial = pattern uses a quantifier, a set or an alternation',
    {'quick': '1616 patterns x 51 strings', 'thorough': '16016 patterns x 51 strings'}, hashseeds={'quick': [0], 'thorough': [0, 1]})

bounded_only('C16', 'bounded.c16',
    'Bounded stand-in only: list(translate(w)) compared as a set with the transduction relation (exploration of (state, position, output) configurations) for all words of length <=3 on random FSTs with <=3 states whose epsilon cycles write nothing; union / concatenate / kleene_star results are read back structurally and compared (outputs of length <=4) with the textbook constructions; to_fst() is the identity restricted to the automaton language.',
    'Trusted: specs/fst.py; outputs of results compared up to 4 symbols; state names are strings (FSTStateRemaining concatenates).',
    ['FST.translate', 'FST.union', 'FST.concatenate', 'FST.kleene_star', 'FSTStateRemaining', 'FiniteAutomaton.to_fst'],
    'case = ordered pair of FSTs (5% same object) or one automaton for to_fst; non-trivial = some word of length <=2 is translated and there is an epsilon-input move',
    {'quick': '1500 FST pairs + 500 automata; words <=3', 'thorough': '15000 + 5000, 8 hash seeds'})

bounded_only('C14', 'bounded.c14',
    'Bounded stand-in only: get_first_set / get_follow_set compared with the textbook least fixpoints, is_llone_parsable with predict-set disjointness, and for LL(1) grammars get_llone_parse_tree(w) must return a valid tree exactly for members (all words of length <=4 over the terminals plus an unknown symbol, incl. proper prefixes and extensions of members) and raise NotParsableException only, on the enumerated grammars without useless symbols.',
    'Trusted: specs/ll1.py (FIRST/FOLLOW/LL(1) from the textbook definitions), specs/cfg.py membership oracle.',
    ['LLOneParser.get_first_set', 'get_follow_set', 'get_llone_parsing_table', 'is_llone_parsable', 'get_llone_parse_tree', 'SetQueue'],
    'case = one grammar without useless symbols; non-trivial = LL(1) and (epsilon production or >=3 productions)',
    {'quick': 'useless-free grammars among 12384 exhaustive + 2500 random; words <=4', 'thorough': '124k exhaustive + 25000 random'})

bounded_only('C15', 'bounded.c15',
    'Bounded stand-in only: every tree returned by get_cnf_parse_tree, LLOneParser.get_llone_parse_tree, RecursiveDecentParser.get_parse_tree (both sides) and FCFG.get_parse_tree for the words of length <=3 is checked node by node against the production set it must come from (normal form for the CNF tree), its leaves against the word, and both derivation listings step by step; non-members must be refused with the documented exception. Recursive descent only on grammars without epsilon and unit productions and without recursion on the side it expands (the repository test suite expects RecursionError there).',
    'Trusted: specs/ll1.py tree and derivation validators, specs/cfg.py membership oracle. Trees are built by mutation of shared ParseTree objects on parser stacks and Earley charts: heap-shape reasoning, outside the VC generator.',
    ['CYKTable / CYKNode', 'LLOneParser.get_llone_parse_tree', 'RecursiveDecentParser', 'FCFG._get_final_state / predictor / scanner / completer', 'ParseTree.get_leftmost_derivation', 'ParseTree.get_rightmost_derivation'],
    'case = one grammar; non-trivial as in C08',
    {'quick': '904 exhaustive + 1500 random grammars; words <=3 plus an unknown symbol', 'thorough': '12384 exhaustive + 15000 random'})
bounded_only('C18', 'bounded.c18',
    'Bounded stand-in only: a.unify(b) and b.unify(a) on random consistently typed structures (depth <=3, atomic / unspecified / nested values, variables shared between leaves) against the glb computed by congruence closure on paths (success iff no conflict, equal leaf values and sharing, order independent, FeatureStructuresNotCompatibleException only); FCFG.contains against derivability in the plain CFG (feature-free case, epsilon productions included) and in the grammar instantiated over {sg, pl} (agreement variables shared within a production).',
    'Trusted: specs/fs.py (path congruence closure), specs/cfg.py; features in the grammar part are one flat atomic feature per occurrence. Destructive unification through forwarding pointers: no deductive route.',
    ['FeatureStructure.unify', 'get_dereferenced', 'copy', 'subsumes', 'StateProcessed.add', 'FCFG.contains / Earley loop'],
    'case = pair of feature structures, or one feature-free grammar, or one grammar with feature annotations; non-trivial = compatible pair with sharing or >3 paths / non-trivial grammar / non-empty instantiated language with at least one annotation',
    {'quick': '4000 pairs + 2104 plain grammars + 1500 annotated grammars; words <=3', 'thorough': 'x10, 8 hash seeds'})

bounded_only('C17', 'bounded.c17',
    'Bounded stand-in only: is_empty() compared with an exact emptiness oracle for reduced-form indexed grammars (least fixpoint of the sets of generating non-terminals per stack, validated against bounded derivation search) on random grammars with <=4 non-terminals, <=2 indices, 2-6 rules (several consumption rules per index and variable, recursion through the stack), under all permutations of the rule list (<=4 rules: exhaustive, else 12 sampled) for optim 0 and 7 and three permutations for the other optim values 1-8; remove_useless_rules() must not change the verdict; the intersection with a regular language (eps-NFA or Regex) is compared with the oracle on an independently built product grammar.',
    'Trusted: specs/ig.py (exact for emptiness; the property quantifies over grammars in reduced form with start variable S). Aho marking over sets of frozensets with early exits and ordering heuristics: no invariant within reach of the VC generator short of the published correctness proof.',
    ['IndexedGrammar.is_empty', '_duplication_processing', '_production_process', 'addrec_bis', 'addrec_ter', 'Rules', 'RuleOrdering', 'remove_useless_rules', 'FST.intersection'],
    'case = one rule list (with a permutation seed) or a rule list with an automaton; non-trivial = non-empty language using a production and a consumption rule / non-empty intersection',
    {'quick': '1500 grammars x (permutations x optim) + 500 intersections; a grammar whose check exceeds 8 s (the marking algorithm is exponential) is skipped and counted', 'thorough': 'x10'}, hashseeds={'quick': [0, 1], 'thorough': [0, 1, 2, 3]}, case_timeout_s=8)

bounded_only('C20', 'bounded.c20',
    'Bounded stand-in only: from_networkx(to_networkx()) must reproduce start/final marking and transitions of random automata, PDAs and FSTs whose values are JSON-representable (strings with blanks, quotes, slashes, non-ASCII; integers) and free of the separators; CFG.from_text(to_text()) must keep the language (words <=4) for grammars over whitespace-free tokens incl. lower-case variables and capitalised terminals; every box of RecursiveAutomaton.from_ebnf / from_regex must accept exactly the alternatives of its head (reference regex reading, words <=3).',
    'Trusted: reference extractors and specs/regex.py; labels go through json, str.split and networkx, i.e. external code plus text - no deductive route in this pass. Isolated states that are neither start nor final are not required to survive the graph round trip.',
    ['FiniteAutomaton.to_networkx/from_networkx', 'PDA.to_networkx/from_networkx', 'FST.to_networkx/from_networkx', 'CFG.to_text/from_text/_read_line', 'Variable.to_text', 'Terminal.to_text', 'RecursiveAutomaton.from_ebnf/from_regex', 'Box'],
    'case = one machine, grammar or EBNF text; non-trivial = at least two transitions / productions / heads',
    {'quick': '1200 automata + 1200 PDAs + 1200 FSTs + 1200 grammars + 600 EBNF texts', 'thorough': 'x10'})

bounded_only('C19', 'bounded.c19',
    'Bounded stand-in (the deductive part - frame clauses "operand view unchanged" and freshness of results - is reported under the properties whose functions are proved): every ordered pair of public queries/conversions per class (automata of the three classes, Regex, CFG, PDA, FST, indexed grammar; 13-28 operations each, incl. the same object as both operands, conversions of conversions, mutation of every returned machine through its public mutators) plus random histories of length 2-4 is run on one long-lived object; each answer is compared semantically with the answer of the same call on a freshly built equal object, and the operands are read back at the end.',
    'Trusted: the semantic summaries of answers (bounded languages / relations from specs/*). Histories longer than 4 calls and operations outside the listed sets are not explored.',
    ['all public query / conversion methods listed in bounded/c19.py *_OPS'],
    'case = (class, object, second operand, history); non-trivial = history with at least two different calls; evaluations = calls compared',
    {'quick': 'all ordered pairs of calls per class (2455 histories) + 2080 random histories', 'thorough': '4 objects per pair + 20800 random histories'})


# ------------------------------------------------------------------ CFG functions under contract (contracts/cfg.py)
CFGM = 'contracts.cfg'
def mixed2(pid, jobs, lean, proved_text, technique, extra_trusted=()):
    sp = PROPS[pid]
    sp['pyvc'] = jobs; sp['lean'] = lean; sp['level'] = 'other'; sp['technique'] = technique
    sp['level_text'] = proved_text + ' The rest of the chain is only covered by the bounded stand-in: ' + sp['level_text'].replace('Bounded stand-in only: ', '')
    sp['explanation'] = 'mixed: functions listed under functions_proved are verified deductively from their current source; everything under functions_bounded_only is bounded (see level_text)'
    sp['trusted_base'] = list(sp.get('trusted_base', [])) + list(extra_trusted)
def mixed(pid, keys, lean, proved_text, technique, extra_trusted=()):
    sp = PROPS[pid]
    sp['pyvc'] = [(CFGM, k) for k in keys]; sp['lean'] = lean; sp['level'] = 'other'
    sp['technique'] = technique
    sp['level_text'] = proved_text + ' The rest of the chain is only covered by the bounded stand-in: ' + sp['level_text'].replace('Bounded stand-in only: ', '')
    sp['explanation'] = 'mixed: functions listed under functions_proved are verified deductively from their current source (all grammars, all iteration orders); everything under functions_bounded_only is bounded (see level_text)'
    sp['trusted_base'] = list(sp.get('trusted_base', [])) + list(extra_trusted)
CFG_TRUST = ['CFG._productions is taken to be a set (what every constructor call in the library passes); Production equality is equality of head and body',
             'lemma InBody(Rev s) = InBody s (bridge/cfgrev.lean) and closure-induction schema instances for CReach / UReach',
             'language preservation of the clean-up steps from their proved structure: textbook theorems (Hopcroft-Motwani-Ullman 7.2, 7.7, 7.13), assumed, backed by the bounded language comparison']
mixed2('C09', [(CFGM, k) for k in ('CFG.get_reachable_symbols', 'CFG.get_unit_pairs', 'CFG.eliminate_unit_productions', 'CFG.remove_useless_symbols', 'fn.get_productions_d')]
       + [('contracts.cfg_eps', 'CFG.remove_epsilon'), ('contracts.cfg_eps', 'fn.remove_nullable_production'), ('contracts.cfg_eps_sub', 'fn.remove_nullable_production_sub'), ('contracts.cfg_eps_ne', 'fn.remove_nullable_production_sub#no-epsilon'), ('contracts.cfg_cnf', 'CFG._get_productions_with_only_single_terminals'), ('contracts.cfg_cnf', 'CFG.is_normal_form'), ('contracts.cfg_cnf', 'Prod.is_normal_form'), ('contracts.cfg_cnf', 'CFG._get_next_free_variable'), ('contracts.cfg_cnf', 'CFG._decompose_productions'), ('contracts.cfg_nf', 'CFGNF.to_normal_form')], [],
      'Deductive for the shape of to_normal_form as a whole (memo hit, clean-up and recursive call, or the two CNF steps): every production of the returned grammar is A -> B C with two variables or A -> a with one terminal, so is_normal_form() of the result is True, and the memo field stays None or such a grammar. Deductive, shape only, for the binarisation step _decompose_productions (with _get_next_free_variable: the variable it returns is not a variable of the grammar): every production of the result is an input production with at most two symbols or has exactly two variables as its body, and the short input productions are kept - that the chains of new variables spell the original bodies (suffix sharing) is only covered by the bounded stand-in. Deductive for is_normal_form (grammar and production): True exactly when every production is A -> B C with two variables or A -> a with one terminal. Deductive for the first step of to_normal_form, _get_productions_with_only_single_terminals: exactly the one-symbol productions unchanged, the others with every terminal replaced by its own fresh variable (injective, not a variable of the grammar whatever names it uses), and one production variable -> terminal per terminal that was replaced. Deductive for remove_epsilon: the result has exactly the productions head -> b\' where b\' is a non-empty body obtained from a body of the grammar by deleting some occurrences of nullable symbols (relation Sub, proved for the recursive helper remove_nullable_production_sub in two halves and for remove_nullable_production), for the least set of nullable symbols (proved in contracts/cfg_gen.py); no epsilon production, same start symbol. Deductive for get_reachable_symbols (= closure of "occurs in a body of"), get_unit_pairs (= unit-derivability from every variable), eliminate_unit_productions (exactly the non-unit bodies of every unit-reachable variable, and no unit production in the result), remove_useless_symbols (modular: through the contract of get_generating_symbols - proved in contracts/cfg_gen.py - the result keeps exactly the productions over generating symbols whose head is reachable, and only generating and reachable symbols) and the helper get_productions_d.',
      'contract-based deductive verification (pyvc + z3) of the structural CFG clean-up functions; bounded run-time contract checking for nullable/generating counters, epsilon removal, terminal lifting, binarisation and for the language statements', CFG_TRUST + ['get_generating_symbols is proved in contracts/cfg_gen.py (worklist with counters, against the least-set spec GNS); the table builder CFG._set_impacts_and_remaining_lists is proved there too (one counter cell per non-empty production initialised with the body length, one _impacts entry per body position; ghost fields pr / cell relate cells and productions), and the worklist is proved to give every counter back; assumed: the List.countP / List.count / List.take facts proved in bridge/count.lean (NP, Occ, OccPre), the induction principle of the least set (one instance), Python lists of ints viewed as (length, array) with non-negative indices only, and that a freshly constructed grammar has its memo fields and tables set to None (the representation invariant then holds for every object reachable through the proved functions)'])
mixed2('C10', [('contracts.cfg', 'CFG.reverse'), ('contracts.cfg', 'CFG.__invert__')] + [('contracts.cfg_subst', k) for k in ('CFG.substitute', 'CFG.union', 'CFG.concatenate', 'CFG.get_closure', 'CFG.get_positive_closure', 'CFG.__or__', 'CFG.__add__')], ['bridge/cfgrev.lean'],
      'Deductive for CFG.reverse: the result has exactly the productions with reversed bodies, same symbols and start symbol (all grammars); Mathlib ContextFreeGrammar.language_reverse gives the mirror language. '
      'Deductive for CFG.substitute: the result is exactly one renamed copy of the host productions, with every substituted terminal replaced by the renamed start symbol of its grammar, plus one renamed copy of the productions of every substituted grammar, under renamings proved injective with pairwise disjoint ranges (ghost results R0, G, FR) - for every host, every substitution, operands sharing names or being the same object. '
      'Deductive for union, concatenate, get_closure, get_positive_closure: each is proved to be substitute applied to exactly the template grammar of the textbook construction (S -> t0 | t1; S -> t0 t1; S -> t1 | S S | eps; S -> t1 V, V -> V V | t1 | eps) with the operands at the placeholders.',
      'contract-based deductive verification (pyvc + z3, Mathlib language_reverse) for reverse, substitute and the four template operations; bounded run-time contract checking for the language statements and the operator forms',
      CFG_TRUST[:2] + ['language statement of substitute from its proved structure: substitution theorem for context-free languages (Hopcroft-Motwani-Ullman Thm 7.23), assumed, backed by the bounded comparison',
                       'Variable(str(v.value) + "#SUBS#" + str(idx)) is an uninterpreted function of (v, idx) whose idx can be read back from the name (string fact, assumed); Variable("...") / Terminal("...") with different texts are different values',
                       'sequence extensionality is used through explicit instances (valid in the theory of sequences); pointwise facts about list.append and a theory lemma about seq[lo:] are added by the engine',
                       'the operator forms __or__, __add__, __invert__ are proved as delegations with the postcondition of union, concatenate, reverse'])
mixed2('C12', [('contracts.cfg', 'CFG.is_empty'), ('contracts.cfg', 'CFG.get_reachable_symbols')] + [('contracts.cfg_gen', k) for k in ('CFGGen._set_impacts_and_remaining_lists', 'CFGGen._get_generating_or_nullable', 'CFGGen.get_generating_symbols', 'CFGGen.get_nullable_symbols')], ['bridge/count.lean'],
      'Deductive for get_reachable_symbols (exactly the symbols occurring in a sentential form derivable from the start symbol, by closure induction), for get_generating_symbols and get_nullable_symbols (the counter worklist _get_generating_or_nullable returns exactly the least set containing the terminals - resp. nothing - and the head of every production whose body lies in it; the memoising wrappers return it and keep their memo consistent), and for is_empty (start symbol not generating).',
      'contract-based deductive verification (pyvc + z3, Mathlib for the counting facts) for reachability, generating / nullable symbols and emptiness; bounded run-time contract checking for finiteness (networkx) and word enumeration', CFG_TRUST[:2] + ['get_generating_symbols is proved in contracts/cfg_gen.py (worklist with counters, against the least-set spec GNS); assumed there: the contract of the table builder CFG._set_impacts_and_remaining_lists (one counter cell per non-empty production initialised with the body length, one _impacts entry per body position), the four List.countP / List.count facts proved in bridge/count.lean, the induction principle of the least set (one instance), and that the memo fields hold None or the computed set'])

CFG_INIT_JOBS = [('contracts.cfg_init', f'CFGInit{r}.{m}') for r in ('Set', 'List') for m in ('__initialize_production_in_cfg', '__init__#full', '__init__#start+productions')] \
    + [('contracts.cfg_init', f'fn.{k}#{v}') for k in ('to_variable', 'to_terminal') for v in ('object', 'raw')]
CFG_INIT_TEXT = ('Deductive for the grammar constructor CFG.__init__ (with __initialize_production_in_cfg and cfg.utils.to_variable / to_terminal): for productions given as a set or as a list, with all four arguments or with '
                 'start symbol and productions only, the new grammar has exactly the given variables plus the start symbol, the heads and the variables of the bodies, the given terminals plus the terminals of the bodies, '
                 'the given start symbol and productions, and every memo field None - the model under which every other contract of the grammar world reads `CFG(...)`. ')
CONV_JOBS = [('contracts.cfg_conv', 'CFGVariableConverter.' + k) for k in ('_set_index_state', '_get_state_index', '_set_index_symbol', '_get_symbol_index', '_get_indexes', '_create_new_variable', 'to_cfg_combined_variable', 'set_valid', 'is_valid_and_get')] + [('contracts.cfg_conv_init', 'CFGVariableConverter.__init__')]
PDA_REP_JOBS = [('contracts.pda_tf', 'PdaTFc.' + k) for k in ('add_transition', '__call__', 'copy')] \
    + [('contracts.pda_creator', f'fn._get_object_from_{h}[{k}]') for k in ('State', 'Symbol', 'StackSymbol') for h in ('known', 'raw')] \
    + [('contracts.pda_creator', f'PDAObjectCreator.{m}#{v}') for m in ('to_state', 'to_symbol', 'to_stack_symbol') for v in ('object', 'raw')]
PDA_REP_TEXT = ('Deductive at the representation level for pda.TransitionFunction (dict from (state, symbol, stack symbol) to a set of (target, push)): add_transition inserts exactly the given transition into the view, '
                '__call__ returns exactly the pairs of the key, copy gives a new object with the same view; and for pda.utils.PDAObjectCreator: to_state / to_symbol / to_stack_symbol return an object equal to the one given '
                '(the object of the given raw value; Epsilon for the text "epsilon"), keeping the invariant of the three caches - which is what the view-level contracts of the PDA world use them as. ')
CONV_TEXT = "Deductive for the triple-variable converter (pda.cfg_variable_converter, every method, the constructor included - it establishes the representation invariant the other methods keep): the index used for a state / symbol object is the entry of this converter's own dictionary for its value, whatever index an earlier converter cached on the object (it was not on the pinned tree: fix recorded as X-C19-converter-stale-index); a cell of the table that holds a variable is never changed, so the same triple always gets the same variable; every variable in the table is Variable(n) for an n below the counter and no n occurs twice, so different triples of registered states and symbols get different variables; set_valid only sets the flag of its cell. "
mixed2('C13', [('contracts.pda', k) for k in ('fn.get_next_free[State]', 'fn.get_next_free[StackSymbol]', 'PDA.to_final_state', 'PDA.to_empty_stack')]
       + [('contracts.cfg2pda', 'PDA.add_transition'), ('contracts.cfg2pda', 'CFG.to_pda'), ('contracts.cfg_creator', 'CfgCreatorC.get_stack_symbol_from')] + CONV_JOBS + PDA_REP_JOBS, [],
       'Deductive for PDA.to_final_state and PDA.to_empty_stack: the result has exactly the operand transitions plus the bottom-marker wrapper transitions, a start state, an end state and a bottom symbol that are proved fresh (not states / stack symbols of the operand, pairwise different) through the proved contract of get_next_free, for every PDA incl. ones that already use the reserved names; the operand is unchanged. '
       'Deductive for CFG.to_pda: the result is exactly the one-state PDA of the textbook construction (one epsilon move per production pushing the converted body, one pop move per terminal, nothing else; start stack symbol = converted start symbol), through the proved contract of the public mutator PDA.add_transition, under a conversion of grammar symbols to stack symbols that is proved injective on the source of PDAObjectCreator.get_stack_symbol_from (it was not on the pinned tree: fix cc31095). ' + CONV_TEXT + PDA_REP_TEXT + 'PDA.to_cfg itself (itertools.product over the states) stays bounded.',
       'contract-based deductive verification (pyvc + z3) of the acceptance-mode wrappers, get_next_free, CFG.to_pda, PDA.add_transition and the symbol converter; bounded run-time contract checking (exact PDA membership oracle) for to_cfg and for the language statements',
       ['language statements of the two wrappers and of to_pda from their proved structure: Hopcroft-Motwani-Ullman Thm 6.9 / 6.11 / 6.13, assumed, backed by the bounded comparison',
        'to_pda: terminals of the grammar are required not to be cfg.Epsilon objects; str(value), "#TERM#" + s and s + "\'" are uninterpreted string functions; the PDA constructor and pda.utils.PDAObjectCreator.to_state/to_symbol/to_stack_symbol are modelled at value level (identity on objects of the right class) and not verified; that the while loop of get_stack_symbol_from terminates is not verified',
        'facts about Python strings assumed: the six reserved prefixes are pairwise different and end in "#" (so prefix+digits of one never equals another); State / StackSymbol equality is equality of the value',
        'the view-level contracts of pda.TransitionFunction.copy / add_transition / __call__ and of PDAObjectCreator.to_* used at the call sites are proved on the concrete classes in contracts/pda_tf.py and contracts/pda_creator.py (the match of the two formulations - abstraction function D, identity on values - is by inspection); the PDA constructor is modelled, not verified; the iterator protocol of TransitionFunction, to_dict and get_number_transitions are not covered'])

mixed2('C14', [('contracts.llone', k) for k in ('LLOneParser._get_first_set_production', 'LLOneParser._get_triggers', 'LLOneParser._get_triggers_follow_set')]
       + [('contracts.llone_table', 'LLOneParser.get_llone_parsing_table'), ('contracts.llone_table', 'LLOneParser.is_llone_parsable'),
          ('contracts.llone_first', 'LLOneParser._initialize_first_set'), ('contracts.llone_first', 'LLOneParser.get_first_set'),
          ('contracts.llone_follow', 'LLOneParser._initialize_follow_set'), ('contracts.llone_follow', 'LLOneParser.get_follow_set'),
          ('contracts.setqueue', 'SetQueueRep.append'), ('contracts.setqueue', 'SetQueueRep.pop'), ('contracts.setqueue', 'SetQueueRep.__bool__')], [],
       'Deductive for get_first_set: it returns exactly the least table FT with t in FT[t] for terminals, epsilon in FT[A] for A -> (empty) and FIRST-of-a-sequence(FT, alpha) inside FT[A] for A -> alpha - the textbook FIRST sets - for every grammar whose terminals are not heads and every order of the work list (SetQueue proved against its set view; the cardinality test after a union is read through |S| with the fact that a subset of the same cardinality is the same set). Deductive for get_follow_set (with _initialize_follow_set): it returns exactly the least table FW with $ in FW[S], FIRST-of-the-rest minus epsilon inside FW[X_i] for every position of every body, and FW[A] inside FW[X_i] when everything after X_i is nullable - the textbook FOLLOW sets, relative to the FIRST table. Deductive for the parsing table and the verdict, for these tables: table[A][a] lists exactly the productions A -> alpha with a in PREDICT(A -> alpha) (FIRST of alpha, plus FOLLOW(A) without epsilon when every symbol of alpha is nullable), each once, and is_llone_parsable() is True exactly when no two productions of a variable share a predict symbol. Deductive for three helper functions of the LL(1) construction: _get_first_set_production is FIRST of a sequence relative to a table of FIRST sets (union of the entries of the symbols whose predecessors are all nullable in the table, epsilon kept exactly when every symbol is nullable) - the function both the fixpoint and the parsing table are built from; _get_triggers maps a symbol to exactly the heads of the productions containing it; _get_triggers_follow_set relates head -> component exactly when everything after the component is nullable in the table. For every production, table and grammar.',
       'contract-based deductive verification (pyvc + z3) of the per-production helper functions; bounded run-time contract checking (textbook least fixpoints, predict sets, tree validation) for the fixpoint loops, the table, the verdict and the parser',
       ['get_llone_parse_tree (the stack parser) is not under contract: for LL(1) grammars "a tree exactly for the members, NotParsableException otherwise" is only covered by the bounded stand-in',
        'get_follow_set: "$" is one more symbol value; the start symbol is not an epsilon object; induction principle of the least table (one instance)',
        'get_first_set: induction principle of the least table (one instance), |S| uninterpreted with "subset of equal cardinality is equal" (finite sets), termination not verified',
        'all cfg.Epsilon() objects are one value (Terminal.__eq__ compares values); a theory lemma about the element of a suffix s[lo:] is stated as an axiom'])

C19_FRAME_JOBS = [('contracts.fa', k) for k in ('ENFA.get_intersection', 'ENFA.get_complement', 'ENFA.get_difference', 'ENFA.reverse', 'ENFA.copy', 'DFA.copy', 'ENFA.to_deterministic',
                                               'ENFA.remove_epsilon_transitions', 'ENFA.is_empty', 'ENFA.to_fst')] \
    + [('contracts.cfg', k) for k in ('CFG.reverse', 'CFG.eliminate_unit_productions', 'CFG.remove_useless_symbols', 'CFG.get_reachable_symbols', 'CFG.get_unit_pairs')] \
    + [('contracts.cfg_subst', k) for k in ('CFG.substitute', 'CFG.union', 'CFG.concatenate', 'CFG.get_closure', 'CFG.get_positive_closure')] \
    + [('contracts.cfg2pda', 'CFG.to_pda'), ('contracts.pda', 'PDA.to_final_state'), ('contracts.pda', 'PDA.to_empty_stack')] \
    + [('contracts.fst', k) for k in ('FST.union', 'FST.concatenate', 'FST.kleene_star')]
mixed2('C19', [('contracts.cfg_cache', 'CFGCounters._get_generating_or_nullable'), ('contracts.cfg_gen', 'CFGGen._set_impacts_and_remaining_lists'), ('contracts.cfg_gen', 'CFGGen._get_generating_or_nullable'),
               ('contracts.cfg_gen', 'CFGGen.get_generating_symbols'), ('contracts.cfg_gen', 'CFGGen.get_nullable_symbols')] + C19_FRAME_JOBS + CONV_JOBS, [],
       'Deductive, three pieces. (3) ' + CONV_TEXT + '(1) CFG._get_generating_or_nullable restores the memoised counters: for every grammar and iteration order, _remaining_lists and _impacts hold on return exactly the values they had right after _set_impacts_and_remaining_lists() (and the values at entry when the tables were already built), so get_generating_symbols / get_nullable_symbols / is_empty / remove_useless_symbols start from the same counters whatever was called before (property anchor "restore of decremented counters"). '
       'In the second view (contracts/cfg_gen.py) the representation invariant of the memoised tables and memo fields (tables consistent with the productions, counters at their initial values, memo None or the least set) is proved to be established by the table builder and preserved by the worklist and by get_generating_symbols / get_nullable_symbols - the answer of these queries is therefore the same function of the productions whatever was called before. '
       '(2) For 26 conversions and operations (boolean operations, reverse, copy, determinisation, epsilon removal, to_fst on automata; reverse, unit elimination, useless-symbol removal, substitute, union, concatenate, closures, to_pda on grammars; to_final_state / to_empty_stack on PDAs; union, concatenate, kleene_star on transducers) the obligations "frame: <operand> unchanged" are discharged: the abstract view (states, alphabet, transitions, start/final; variables, terminals, start symbol, productions) of every operand is the same after the call, also when both operands are one object, and the result is a fresh object.',
       'contract-based deductive verification (pyvc + z3): restoration of the memoised counters of the CFG analyses, frame obligations of the proved conversions; bounded run-time contract checking (histories of calls compared with fresh equal objects) for everything else',
       ['the frame obligations speak about the abstract views only: caches outside the view (Regex._enfa, CFG._normal_form, IndexedGrammar.marked) are covered by the bounded histories only',
        'in contracts/cfg_cache.py the contract of CFG._set_impacts_and_remaining_lists is assumed (it is proved in the other view, contracts/cfg_gen.py); _remaining_lists is viewed as symbol -> (index -> count) there and as symbol -> (length, array) in cfg_gen',
        'other caches (CFG._normal_form, Regex._enfa) are not under contract; the converter is proved method by method, its constructor included (the sets it is given are read as sequences in enumeration order; the writes to the index attribute of the objects are dropped in that view)'])

mixed2('C08', [('contracts.cfg_gen', k) for k in ('CFGGen.generate_epsilon', 'CFGGen._set_impacts_and_remaining_lists')], ['bridge/count.lean'],
       'Deductive for generate_epsilon, the branch of contains() / __contains__ for the empty word: it returns True exactly when the start symbol is in the least set of nullable symbols (the set closed under "head of a production whose body lies in the set", starting from nothing), for every grammar and iteration order, works on a copy of the memoised counters and leaves the tables as built; the table builder is proved with it.',
       'contract-based deductive verification (pyvc + z3, Mathlib for the counting facts) of the empty-word branch of membership; bounded run-time contract checking (derivability oracle) for the CYK branch',
       ['the CYK table (cyk_table.py) and to_normal_form, on which contains(w) for non-empty w rests, are not under contract',
        'that "start symbol in the least nullable set" is "the start symbol derives the empty word" is the textbook characterisation (Hopcroft-Motwani-Ullman 7.1.3), assumed',
        'counting facts (bridge/count.lean), induction principle of the least set (one instance), Python lists of ints viewed as (length, array); the start symbol is not a cfg.Epsilon object'])

mixed2('C05', [('contracts.regex_ops', 'RegexTree.' + k) for k in ('union', 'concatenate', 'kleene_star', '__or__', '__add__')], [],
       'Deductive for the combinators only: union / | returns a new expression whose tree is Union[self, other], concatenate / + returns Concatenation[self, other], kleene_star returns KleeneStar[self], for all operands (also one object twice), operands unchanged.',
       'contract-based deductive verification (pyvc + z3) of the three combinators and their operator forms (tree view); bounded run-time contract checking (independent parser and matcher) for the text syntax, acceptance, Thompson construction, to_cfg and str round trip',
       ['the denotation of expression trees (union, concatenation, star of languages) is the definition of the semantics; that accepts / to_epsilon_nfa / to_cfg implement it is only covered by the bounded stand-in',
        'everything about reading text (tokenisation, precedence, escapes, MisformedRegexError) is bounded only: the string passes are outside the engine'])

mixed2('C16', [('contracts.fst', k) for k in ('FST.add_transition', 'FST.add_start_state', 'FST.add_final_state', 'Renaming.add_state', 'Renaming.get_name', 'Renaming.add_states',
                                             'FST._add_transitions_to', 'FST._add_start_states_to', 'FST._add_final_states_to', 'FST._add_extremity_states_to', 'FST._copy_into',
                                             'FST._get_state_renaming', 'FST.union', 'FST.concatenate', 'FST.kleene_star')] + [('contracts.fa', 'ENFA.to_fst')], [],
       'Deductive for the transducer mutators (against the view D(p, a, q, out)), the state renaming FSTStateRemaining (proved injective: no two (state, operand) keys share a name), the copy helpers, '
       'union, concatenate and kleene_star (exact transitions, start and final states of the result under the injective renaming: disjoint copies, epsilon bridges final->start, one fresh start/final state for the star) '
       'and FiniteAutomaton.to_fst (same edges, each writing its own symbol, epsilon edges writing nothing).',
       'contract-based deductive verification (pyvc + z3) of the structure of union / concatenate / kleene_star / to_fst and of the state renaming; bounded run-time contract checking for translate and for the relation statements',
       ['relation algebra on top of the proved structure (union, product, star of rational relations; identity on L(A)): textbook (Berstel, Transductions and Context-Free Languages, ch. III), assumed, backed by the bounded relation comparison',
        'FST._delta lists are viewed as sets of transitions (how often a transition is listed does not change the relation); list(set) is read as the set where it is only iterated'])

mixed2('C11', [('contracts.cfg_inter', k) for k in ('fn._get_all_bodies', 'fn._intersection_when_two_non_terminals', 'fn._intersection_when_terminal', 'fn._intersection_starting_rules')]
       + [('contracts.cfg_inter_main', 'CFG.intersection#fa'), ('contracts.cfg_inter_main', 'CFG.intersection#regex'), ('contracts.cfg_inter_main', 'CFG.intersection#other'), ('contracts.cfg_nf', 'CFGNF.to_normal_form')] + CONV_JOBS
       + [('contracts.pda_inter', k) for k in ('PDA.intersection#fa', 'PDA.intersection#regex', 'PDA.intersection#other', 'PDA.add_final_state')] + [('contracts.cfg2pda', 'PDA.add_transition')] + PDA_REP_JOBS, [],
       'Deductive for the structure of CFG.intersection (operand a finite automaton or a Regex; for an operand of any other class NotImplementedError is raised on every path): with N = to_normal_form(self) and '
       'A = to_deterministic(other) the result is the empty grammar CFG() when A has an empty language, and otherwise has start symbol Variable("Start") and exactly the Bar-Hillel productions - '
       '[p,X,r] -> [p,Y,s][s,Z,r] for every production X -> Y Z of N and all states p, s, r of A (_intersection_when_two_non_terminals, _get_all_bodies); [p,X,delta(p,a)] -> a for every '
       'production X -> a of N and every state p with a transition on a (_intersection_when_terminal); Start -> [q0,S,f] for every final state f (_intersection_starting_rules); Start -> (empty) '
       'exactly when the grammar contains the empty word and the start state of A is final - and nothing else; that N is in Chomsky normal form (so that the else branch only meets one-terminal bodies) '
       'is the proved shape of to_normal_form. ' + CONV_TEXT + 'Deductive for the structure of PDA.intersection (worklist over the reachable pairs, five nested loops; every worklist and iteration order): with A the deterministic automaton the operand is turned into, the result is PDA() when A has no start state; otherwise its start state is the pair (q0, s0), every transition of the result is a product move ((p,s), a, X) -> ((p\',s\'), push) of a move of the PDA and a step of A (s\' = s on epsilon) whose source pair is the start pair or the target of a transition of the result, every product move of such a reachable pair is a transition of the result, and a state is final iff it is a reachable pair of two final states; an operand of another class raises NotImplementedError on every path. ',
       'contract-based deductive verification (pyvc + z3) of the Bar-Hillel construction in CFG.intersection with its four helpers and the triple-variable converter, and of the reachable product construction in PDA.intersection; bounded run-time contract checking for the two language statements',
       ['language statements from the proved structures: Bar-Hillel theorem and the product of a PDA with a DFA (Hopcroft-Motwani-Ullman Thm 7.27), assumed, backed by the bounded comparison',
        'PDA.intersection: _PDAStateConverter.to_pda_combined_state is modelled as the pairing State((p, s)) (injective because tuples compare by value; the numpy cache only saves allocations - by inspection); pda.TransitionFunction.__call__ returns the set of (target, push) stored for the key; is_deterministic / to_deterministic / to_epsilon_nfa of the operand are assumed (C01); the view of the result is (transitions, start state, start stack symbol, final states) - its registered states and alphabets are not part of the postcondition',
        'assumed contracts in contracts/cfg_inter*.py: CFGVariableConverter.to_cfg_combined_variable is a function of (state, symbol, state) returning a Variable - in contracts/cfg_inter*.py it is a fixed function of the triple, while contracts/cfg_conv.py proves for the real, lazily numbering converter that an assigned variable never changes and that different registered triples get different variables - the step from the second to the first (the eventual assignment as the fixed function) is by inspection; '
        'DeterministicFiniteAutomaton.__call__ returns [] or [the successor]; accepts([]) of a deterministic automaton == its start state is final; contains([]) is a function of the grammar; to_deterministic returns a deterministic automaton with one start state whose start and final states are states; '
        'language parts of to_normal_form and to_deterministic: C09, C01',
        'Terminal.value of a terminal is read as the automaton symbol with the same value (symbol_of); Production(..., filtering=False) stores the body as given'])

# the grammar constructor: proved once (contracts/cfg_init.py), listed under every property whose proved functions build grammars with it
for _pid in ('C09', 'C10', 'C11', 'C12', 'C13'):
    PROPS[_pid]['pyvc'] = list(PROPS[_pid]['pyvc']) + CFG_INIT_JOBS
    PROPS[_pid]['level_text'] = PROPS[_pid]['level_text'].replace(' The rest of the chain is only covered by the bounded stand-in: ', ' ' + CFG_INIT_TEXT + 'The rest of the chain is only covered by the bounded stand-in: ', 1)
    PROPS[_pid]['trusted_base'] = list(PROPS[_pid].get('trusted_base', [])) + ['`CFG(...)` at the call sites is the model of contracts/cfg.py (cfg_ctor); that CFG.__init__ satisfies this model is proved in contracts/cfg_init.py for the argument shapes listed there (the correspondence of the two formulations is word for word, by inspection); `_productions` keeps the object it is given (set or list)']

# the PDA constructor: proved once (contracts/pda_init.py), listed under the properties whose proved functions build PDAs with it
PDA_INIT_JOBS = [('contracts.pda_init', 'PDA.__init__#' + k) for k in ('full', 'no-transitions-no-finals', 'start-only', 'nothing')]
for _pid in ('C11', 'C13'):
    PROPS[_pid]['pyvc'] = list(PROPS[_pid]['pyvc']) + PDA_INIT_JOBS
    PROPS[_pid]['level_text'] = PROPS[_pid]['level_text'].replace(' The rest of the chain is only covered by the bounded stand-in: ', ' Deductive for PDA.__init__ in the four argument shapes the library uses (all seven arguments; without transition function and final states; start state and start stack symbol only; nothing): the new PDA has exactly the given states plus the start and final states, the given input symbols, the given stack alphabet plus the start stack symbol, the transitions of the given transition function, and the given start state, start stack symbol and final states. The rest of the chain is only covered by the bounded stand-in: ', 1)
    PROPS[_pid]['trusted_base'] = [t.replace('the PDA constructor is modelled, not verified; ', 'the PDA constructor is proved to satisfy its model in contracts/pda_init.py; ') for t in PROPS[_pid]['trusted_base']]

# the automaton constructor: proved once (contracts/fa_init.py), listed under the properties whose proved functions build automata with `EpsilonNFA()`
FA_INIT_JOBS = [('contracts.fa_init', k) for k in ('ENFA.__init__#nothing', 'ENFA.__init__#sets', 'FA.__init__')]
for _pid in ('C01', 'C03'):
    PROPS[_pid]['pyvc'] = list(PROPS[_pid]['pyvc']) + FA_INIT_JOBS
    PROPS[_pid]['level_text'] = PROPS[_pid]['level_text'] + ' Also deductive: EpsilonNFA.__init__ (and FiniteAutomaton.__init__ under it) without arguments - the only shape used inside the library - and with the four sets but no transition function: the new automaton has the given states plus the final and start states, the given symbols, start and final states, and no transition, which is the model every other contract reads `EpsilonNFA()` as (contracts/fa_init.py).'
    PROPS[_pid]['trusted_base'] = list(PROPS[_pid].get('trusted_base', [])) + ['`EpsilonNFA()` at the call sites is the empty automaton (contracts/fa.py new_automaton); that EpsilonNFA.__init__ satisfies this is proved in contracts/fa_init.py; the constructors of NondeterministicFiniteAutomaton (inherited) and DeterministicFiniteAutomaton (`self._start_state = {}` is a dict) are read as the same model without proof; a transition function passed to the constructor is outside the proved shapes (NondeterministicTransitionFunction defines __len__, so an empty one is replaced by a new object); two fields sharing one set object would not be visible in the view']
