"""Engine self-test (thorough tier): for every SMOKE entry of the contract modules used by a property, apply the edit to a scratch copy of
the sources (under the system temp dir, removed afterwards) and verify the target: a `break` edit must make the target not proved, a
`benign` edit must keep it proved.  Also runs the seed-stability stress test.  Prints a JSON summary; exit 3 on a mismatch."""
import sys, os, json, importlib, shutil, tempfile
HERE = os.path.dirname(os.path.dirname(os.path.abspath(__file__))); sys.path.insert(0, HERE)


def run(modules, keys=None):
    from pyvc.run import verify
    repo = os.environ.get('VERIF_REPO', '/repo'); results = []
    for module in modules:
        M = importlib.import_module(module)
        for (key, rel, old, new, kind) in getattr(M, 'SMOKE', []):
            if keys is not None and key not in keys: continue
            tmp = tempfile.mkdtemp(prefix='verif-smoke-')
            try:
                shutil.copytree(os.path.join(repo, 'pyformlang'), os.path.join(tmp, 'pyformlang'), ignore=shutil.ignore_patterns('tests', '__pycache__'))
                p = os.path.join(tmp, rel); s = open(p).read()
                if old not in s:
                    results.append({'target': key, 'kind': kind, 'outcome': 'edit-does-not-apply (source changed)', 'ok': None}); continue
                open(p, 'w').write(s.replace(old, new, 1))
                os.environ['VERIF_REPO'] = tmp; os.environ['VERIF_FAST'] = '1'
                r = verify([(module, key)], 1)[0]
                proved = r['status'] == 'proved'
                ok = (not proved) if kind == 'break' else proved
                results.append({'target': key, 'kind': kind, 'status_after_edit': r['status'], 'failed': [f['name'] for f in r['failed']][:3], 'ok': ok})
            finally:
                os.environ['VERIF_REPO'] = repo; os.environ.pop('VERIF_FAST', None)
                shutil.rmtree(tmp, ignore_errors=True)
    return results


if __name__ == '__main__':
    res = run(sys.argv[1:])
    print(json.dumps(res, indent=1)); sys.exit(3 if any(r['ok'] is False for r in res) else 0)
