"""Finite-universe grounding of quantified formulas (refutation pass, DESIGN section 5).

Quantifiers over the sorts listed in `universes` are expanded over the given ground terms; quantifiers over other sorts
(Int, sequences, ...) and lambda terms are kept, with their bodies grounded recursively.  The result is implied by the
original formula (universal instances) only for the expanded universals; expanded existentials restrict the witnesses to the
universe - so a model of the grounded query in which the universe is closed is a candidate counter-model, replayed natively
before it is called a failing input.
"""
import itertools
from z3 import *

_fresh = itertools.count()


def collect_terms_of_sort(es, sort):
    seen = set(); out = []; ids = set()
    def walk(e, under_binder):
        key = (e.get_id(), under_binder)
        if key in seen: return
        seen.add(key)
        if is_quantifier(e):
            walk(e.body(), True); return
        if is_app(e):
            if e.sort() == sort and not has_var(e) and e.get_id() not in ids:
                ids.add(e.get_id()); out.append(e)
            for c in e.children(): walk(c, under_binder)
    for e in es: walk(e, False)
    return out


_hv = {}
def has_var(e):
    k = e.get_id()
    if k in _hv: return _hv[k]
    if is_var(e): r = True
    elif is_quantifier(e): r = True          # conservative: treat binders as non-ground
    elif is_app(e): r = any(has_var(c) for c in e.children())
    else: r = False
    _hv[k] = r
    return r


def ground(e, universes):
    if is_quantifier(e):
        n = e.num_vars(); sorts = [e.var_sort(i) for i in range(n)]
        expand = (not e.is_lambda()) and all(s in universes and universes[s] for s in sorts)
        if expand:
            insts = []
            for combo in itertools.product(*[universes[s] for s in sorts]):
                insts.append(ground(substitute_vars(e.body(), *reversed(combo)), universes))
            return And(insts) if e.is_forall() else Or(insts)
        # keep the binder: replace the bound variables by fresh constants, ground the body, re-bind
        consts = [Const(f'gk!{next(_fresh)}', s) for s in sorts]
        body = ground(substitute_vars(e.body(), *reversed(consts)), universes)
        if e.is_lambda(): return Lambda(consts, body)
        return ForAll(consts, body) if e.is_forall() else Exists(consts, body)
    if is_app(e) and e.num_args() > 0:
        ch = [ground(c, universes) for c in e.children()]
        return e.decl()(*ch)
    return e
