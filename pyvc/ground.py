from z3 import *
def collect_terms_of_sort(es, sort):
    seen=set(); out=[]
    def walk(e):
        if e.get_id() in seen: return
        seen.add(e.get_id())
        if is_quantifier(e):
            walk(e.body()); return
        if is_app(e):
            if e.sort()==sort and not any(is_var(c) for c in e.children()) and not has_var(e): out.append(e)
            for c in e.children(): walk(c)
    for e in es: walk(e)
    return out
def has_var(e):
    if is_var(e): return True
    if is_quantifier(e): return has_var(e.body())
    return any(has_var(c) for c in e.children()) if is_app(e) else False
def ground(e, universes):
    """universes: dict sort -> list of ground terms. Expands quantifiers over those sorts."""
    if is_quantifier(e):
        n=e.num_vars(); sorts=[e.var_sort(i) for i in range(n)]
        body=e.body()
        import itertools
        doms=[]
        for s in sorts:
            if s not in universes: raise ValueError('cannot ground sort %s'%s)
            doms.append(universes[s])
        insts=[]
        for combo in itertools.product(*doms):
            # de Bruijn: var i refers to sorts reversed
            inst=substitute_vars(body,*reversed(combo))
            insts.append(ground(inst,universes))
        return And(insts) if e.is_forall() else Or(insts)
    if is_app(e) and e.num_args()>0:
        ch=[ground(c,universes) for c in e.children()]
        return e.decl()(*ch)
    return e
