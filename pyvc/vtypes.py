"""Type descriptors for symbolic values; every value is (type, z3 term)."""
import itertools
from z3 import *

_cnt = itertools.count()
def fresh_name(base): return f"{base}!{next(_cnt)}"

class T:                                   # base type descriptor
    _sort = None
    def sort(self): raise NotImplementedError
    def __repr__(self): return self.name
    def __eq__(self, o): return isinstance(o, T) and self.name == o.name
    def __hash__(self): return hash(self.name)
    def fresh(self, base): return Sym(self, Const(fresh_name(base), self.sort()))

class TVal(T):
    def __init__(self, name): self.name = name; self._s = DeclareSort(name)
    def sort(self): return self._s
class _TBool(T):
    name = 'bool'
    def sort(self): return BoolSort()
class _TInt(T):
    name = 'int'
    def sort(self): return IntSort()
class _TNone(T):
    name = 'none'
    def sort(self): return BoolSort()
TBool, TInt, TNone = _TBool(), _TInt(), _TNone()

class TSet(T):
    def __init__(self, elem): self.elem = elem; self.name = f"set[{elem.name}]"
    def sort(self): return ArraySort(self.elem.sort(), BoolSort())
    def empty(self): return Sym(self, K(self.elem.sort(), False))
class TBag(T):                               # list used as worklist / accumulator, order abstracted
    def __init__(self, elem): self.elem = elem; self.name = f"bag[{elem.name}]"
    def sort(self): return ArraySort(self.elem.sort(), IntSort())
    def empty(self): return Sym(self, K(self.elem.sort(), 0))
class TSeq(T):
    def __init__(self, elem): self.elem = elem; self.name = f"seq[{elem.name}]"
    def sort(self): return SeqSort(self.elem.sort())
    def empty(self): return Sym(self, Empty(self.sort()))

_dt_cache = {}
_dt_sig = {}
class TRec(T):
    """record / object / tuple / map: a z3 datatype with one constructor"""
    def __init__(self, name, fields):
        self.name = name; self.fields = list(fields)          # [(fname, T)]
        sig = tuple((f, t.name) for f, t in self.fields)
        if name in _dt_sig and _dt_sig[name] != sig:
            raise TypeError(f'record type {name!r} declared twice with different fields in one process: {_dt_sig[name]} / {sig}')
        _dt_sig[name] = sig
        if name not in _dt_cache:
            d = Datatype(name.replace('[', '_').replace(']', '_').replace(',', '_').replace(' ', ''))
            d.declare('mk', *[(f, t.sort()) for f, t in self.fields])
            _dt_cache[name] = d.create()
        self._s = _dt_cache[name]
    def sort(self): return self._s
    def ftype(self, f): return dict(self.fields)[f]
    def get(self, sym, f):
        i = [n for n, _ in self.fields].index(f)
        t = sym.term
        if is_app(t) and t.num_args() == len(self.fields) and t.decl().eq(self._s.constructor(0)):
            return Sym(self.fields[i][1], t.arg(i))          # field of a constructor application: the argument itself (keeps if-terms of other fields out of patterns)
        return Sym(self.fields[i][1], self._s.accessor(0, i)(t))
    def make(self, **vals):
        return Sym(self, self._s.constructor(0)(*[vals[f].term for f, _ in self.fields]))
    def update(self, sym, f, v):
        vals = {n: self.get(sym, n) for n, _ in self.fields}; vals[f] = v
        return self.make(**vals)

class TURec(TRec):
    """record as an uninterpreted sort with accessor / constructor functions and the axioms  f_i(mk(x)) = x_i,  mk(f(p)) = p.
    Same interface as TRec; used where a z3 datatype containing sequences would be an array index (slow theory combination)."""
    def __init__(self, name, fields):
        self.name = name; self.fields = list(fields)
        self._s = DeclareSort(name)
        self._acc = {f: Function(f'{name}.{f}', self._s, t.sort()) for f, t in self.fields}
        self._mk = Function(f'{name}.mk', *[t.sort() for _, t in self.fields], self._s)
    def sort(self): return self._s
    def get(self, sym, f): return Sym(dict(self.fields)[f], self._acc[f](sym.term))
    def make(self, **vals): return Sym(self, self._mk(*[vals[f].term for f, _ in self.fields]))
    def axioms(self):
        xs = [Const(f'{self.name}_x{i}', t.sort()) for i, (_, t) in enumerate(self.fields)]; p = Const(f'{self.name}_p', self._s)
        return [ForAll(xs, And([self._acc[f](self._mk(*xs)) == xs[i] for i, (f, _) in enumerate(self.fields)])),
                ForAll([p], self._mk(*[self._acc[f](p) for f, _ in self.fields]) == p)]


_tuple_override = {}
def register_tuple(rec):
    """use `rec` (e.g. a TURec) wherever a Python tuple of these component types is built"""
    _tuple_override[rec.name] = rec
def TTuple(*items):
    name = 'tuple[' + ','.join(t.name for t in items) + ']'
    if name in _tuple_override: return _tuple_override[name]
    return TRec('tuple[' + ','.join(t.name for t in items) + ']', [(f'_{i}', t) for i, t in enumerate(items)])
def TMap(k, v):
    """dict: domain set + total value array (values outside the domain are unspecified)"""
    r = TRec(f'map[{k.name},{v.name}]', [('dom', TSet(k)), ('val', _TArr(k, v))])
    r.key, r.val = k, v
    return r
class _TArr(T):
    def __init__(self, k, v): self.k, self.v = k, v; self.name = f"arr[{k.name},{v.name}]"
    def sort(self): return ArraySort(self.k.sort(), self.v.sort())
def is_map(t): return isinstance(t, TRec) and t.name.startswith('map[')
def is_tuple(t): return isinstance(t, TRec) and t.name.startswith('tuple[')

class TRel(T):
    """n-ary relation as array to Bool (abstract views such as the transition relation)"""
    def __init__(self, *doms): self.doms = doms; self.name = 'rel[' + ','.join(d.name for d in doms) + ']'
    def sort(self): return ArraySort(*[d.sort() for d in self.doms], BoolSort())

class Sym:
    __slots__ = ('t', 'term', 'ref')
    def __init__(self, t, term, ref=None): self.t, self.term, self.ref = t, term, ref
    def __repr__(self): return f"<{self.t}: {self.term}>"
    def __getattr__(self, f):                  # record field access for contracts: o.self.T
        t = object.__getattribute__(self, 't')
        if isinstance(t, TRec): return t.get(self, f)
        raise AttributeError(f)
    # contract sugar
    def __getitem__(self, idx):
        if isinstance(idx, tuple): return Select(self.term, *[unwrap(i) for i in idx])
        return Select(self.term, unwrap(idx))
    def __eq__(self, o): return self.term == unwrap(o)
    def __ne__(self, o): return self.term != unwrap(o)
    def __hash__(self): return id(self)

def unwrap(x): return x.term if isinstance(x, Sym) else x
NONE_SYM = Sym(TNone, BoolVal(True))
