"""Per-function driver: read the *current* source of a function from the repository working tree, generate its
verification conditions against the sidecar contract, discharge them, return a plain-dict verdict.

One function = one task of a process pool (z3 state is per process).
"""
import ast, sys, time, os, json, importlib, traceback, hashlib
from concurrent.futures import ProcessPoolExecutor


def load(path):
    tree = ast.parse(open(path).read()); out = {}
    for n in tree.body:
        if isinstance(n, ast.FunctionDef): out['fn.' + n.name] = n
        if isinstance(n, ast.ClassDef):
            for m in n.body:
                if isinstance(m, ast.FunctionDef): out[f'{n.name}.{m.name}'] = m
    return out


def source_digest(fn):
    """digest of the function body as verified: docstring, annotations, decorators, comments dropped (DESIGN §2)"""
    return hashlib.sha256(ast.dump(fn, annotate_fields=False, include_attributes=False).encode()).hexdigest()[:16]


def run_target(job):
    module, key, repo, timeout_ms = job
    t0 = time.time()
    res = {'key': key, 'module': module, 'status': 'error', 'obligations': 0, 'proved': 0, 'failed': [], 'secs': 0.0,
           'by_backend': {}, 'sample': [], 'canaries': 0}
    try:
        import resource
        lim = int(os.environ.get('VERIF_PYVC_MEM_GB', '10')) << 30          # a runaway solver call must not take the machine down: it fails (undecided) instead
        resource.setrlimit(resource.RLIMIT_AS, (lim, lim))
        from pyvc.engine import Engine, Unsupported
        from pyvc.solve import discharge, summary, concretize
        mod = importlib.import_module(module)
        W = mod.W
        rel, qual = mod.TARGETS[key][:2]
        res['file'], res['qualname'] = rel, qual
        fns = load(os.path.join(repo, rel))
        if qual not in fns:
            res['status'] = 'unbound'; res['detail'] = f'{qual} not found in {rel}'; return res
        fn = fns[qual]; res['line'] = fn.lineno; res['digest'] = source_digest(fn)
        eng = Engine(W, timeout_ms)
        try:
            obls = eng.generate(key, fn)
        except Unsupported as ex:
            res['status'] = 'out-of-subset'; res['detail'] = str(ex); return res
        except AttributeError as ex:          # an invariant names a local that no longer exists
            res['status'] = 'unbound'; res['detail'] = f'contract does not bind to the current source: {ex}'; return res
        ve = getattr(mod, 'VERIFIED_ELSEWHERE', {})
        res['callee_contracts'] = {k: ('target' if k in mod.TARGETS else ve.get(k, 'assumed')) for k in sorted(eng.used)}
        fast = bool(os.environ.get('VERIF_FAST'))          # development aid: no reseeding / second opinion / grounding on failures
        discharge(obls, W.axioms, timeout_ms=timeout_ms, ground_sorts=() if fast else getattr(W, 'ground_sorts', ()), second=not fast, reseed=not fast)
        if not fast:
            # last resort for an obligation that is still open (typically a time-out on a loaded machine): the same query with six times the budget under four more
            # seeds - a verdict that depends on the load of the machine must not be reported; `unsat` only counts, nothing else changes
            left = [o for o in obls if not o.canary and o.status == 'undecided']
            try: base = json.load(open(os.path.join(os.path.dirname(os.path.dirname(os.path.abspath(__file__))), 'pyvc_baseline.json'))).get(key, {})
            except Exception: base = {}
            # only for a function whose source is the one the committed baseline was proved on (a changed function is reported as it stands, without long retries)
            if 0 < len(left) <= 6 and base.get('digest') == res.get('digest'):
                from z3 import Solver, Not, unsat
                for o in left:
                    ax = [] if getattr(o, 'isolated', False) else W.axioms
                    for seed in (1, 2, 3, 5):
                        sv = Solver(); sv.set(timeout=6 * timeout_ms, random_seed=seed); sv.set('smt.random_seed', seed); sv.add(ax); sv.add(o.hyps); sv.add(Not(o.goal))
                        try: r = sv.check()
                        except Exception: continue
                        if r == unsat: o.status = 'proved'; o.backend = getattr(o, 'backend', 'z3') + ' (retry, 6x budget)'; break
        s = summary(obls)
        res.update(obligations=s['obligations'], proved=s['proved'], canaries=s['canaries'])
        for o in obls:
            if o.canary: continue
            be = getattr(o, 'backend', '?'); res['by_backend'][be] = res['by_backend'].get(be, 0) + (o.status == 'proved')
        res['sample'] = [f'{key} :: {o.name} (line {o.line})' for o in obls if not o.canary][:3]
        for o in obls:
            if o.canary:
                if o.status == 'vacuous': res['failed'].append({'name': o.name, 'line': o.line, 'status': 'vacuous'})
                continue
            if o.status == 'proved': continue
            f = {'name': o.name, 'line': o.line, 'status': o.status, 'backend': getattr(o, 'backend', '?'),
                 'reason': getattr(o, 'reason', '')}
            if o.status == 'refuted' and o.model is not None:
                try:
                    uni = getattr(o, 'universe', None)
                    f['entry'] = {n: concretize(v, o.model, uni) for n, v in eng.entry.items()}
                    f['special'] = {n: str(o.model.eval(c, model_completion=True)) for n, c in getattr(W, 'special', {}).items()}
                except Exception as ex:
                    f['entry_error'] = repr(ex)
                f['solver_output'] = str(o.model)[:3000]
            res['failed'].append(f)
        if s['vacuous']: res['status'] = 'vacuous'
        elif s['obligations'] == 0: res['status'] = 'no-obligations'
        elif s['refuted']: res['status'] = 'refuted'
        elif s['undecided']: res['status'] = 'undecided'
        else: res['status'] = 'proved'
    except Exception:
        res['status'] = 'error'; res['detail'] = traceback.format_exc()[-1500:]
    res['secs'] = round(time.time() - t0, 2)
    return res


def verify(jobs, nproc=16):
    """jobs: [(module, key)]"""
    repo = os.environ.get('VERIF_REPO', '/repo')
    tmo = int(os.environ.get('VERIF_SOLVER_TIMEOUT_MS', '10000'))
    full = [(m, k, repo, tmo) for m, k in jobs]
    if not full: return []
    # one fresh process per function: no z3 / module state is shared between proofs, and the address-space limit below applies to each of them
    with ProcessPoolExecutor(max_workers=min(nproc, len(full)), max_tasks_per_child=1) as ex:
        return list(ex.map(run_target, full))


if __name__ == '__main__':
    here = os.path.dirname(os.path.dirname(os.path.abspath(__file__))); sys.path.insert(0, here)
    module = sys.argv[1]; keys = [a for a in sys.argv[2:] if not a.startswith('-')]
    mod = importlib.import_module(module)
    keys = keys or list(mod.TARGETS)
    ok = True
    for r in verify([(module, k) for k in keys]):
        print(f"== {r['key']}: {r['status'].upper()} {r['proved']}/{r['obligations']} {r['secs']}s {r.get('detail', '')}")
        for f in r['failed']:
            print('    ', f['name'], f['line'], f['status'], f.get('backend', ''), json.dumps(f.get('entry'))[:600] if '-v' in sys.argv else '')
        ok &= r['status'] == 'proved'
    print('ALL PROVED' if ok else 'NOT ALL PROVED'); sys.exit(0 if ok else 1)
