"""AST -> z3 verification-condition generator for a Python subset (see DESIGN.md §2-§3).

The engine is generic; what is specific to pyformlang (classes, views, spec functions, contracts)
lives in model/contract modules that register into a `World`.
"""
import ast, time, itertools
from dataclasses import dataclass, field
from z3 import *
from .vtypes import *
from .vtypes import fresh_name

class Unsupported(Exception):
    """construct outside the verified subset (function falls back to the bounded stand-in)"""

@dataclass
class Obligation:
    fn: str
    name: str
    hyps: list
    goal: object
    line: int = 0
    canary: bool = False
    isolated: bool = False                     # discharged without the world axioms (its hypotheses carry the axioms it needs)
    status: str = '?'
    secs: float = 0.0
    model: object = None

@dataclass
class Contract:
    key: str                                   # "Class.method" or "fn.name"
    params: list                               # [(name, T)]  (self first for methods)
    ret: T = TNone
    requires: object = None                    # f(o) -> Bool           o: namespace of entry values
    ensures: object = None                     # f(o, res, n) -> Bool   n: namespace of exit values of params
    modifies: tuple = ()                       # names of params whose value may change
    pure: object = None                        # f(o) -> Sym : result as a term (usable under binders)
    loops: dict = field(default_factory=dict)  # ordinal -> f(e, done) -> Bool
    loop_post: dict = field(default_factory=dict)
    hints: object = None                       # f(o, e, res) -> [Bool]   sound schema instances (listed in evidence)
    raises: dict = field(default_factory=dict) # exception name -> f(o) -> Bool (exact condition under which it is raised)
    fresh_result: bool = False
    locals: dict = field(default_factory=dict) # declared types for locals that cannot be inferred
    ghosts: dict = field(default_factory=dict) # ghost results: name -> T  (existential witnesses of the postcondition)
    ghost_witness: object = None               # f(o, e) -> {name: Sym}: the witnesses, chosen from the exit environment
    loop_post_isolated: dict = field(default_factory=dict)   # ordinal -> ([axioms], f(e) -> Bool): exit lemma proved from the exit invariant (and the negated
                                               # loop condition) and the listed axioms *only*, then available to the code after the loop
    ghost_state: dict = field(default_factory=dict)   # name -> (T, f(o) -> Sym): specification-only variables, read in invariants as e.get('$g.<name>')
    ghost_updates: dict = field(default_factory=dict) # loop ordinal -> f(e) -> {name: Sym}: assignment executed at the end of every iteration of that loop
    ghost_fields_of: tuple = ()                # names of environment records whose ghost fields are assigned by ghost_updates ("self")
    at: dict = field(default_factory=dict)     # first line of a statement (as printed by ast.unparse, prefix match) -> {'ghost': f(e) -> {name: Sym}, 'lemmas': f(e) -> [Bool]}:
                                               # before that statement runs, the ghost variables are assigned ($g.<name>) and the lemmas are proved in order in the current
                                               # context and then kept - the way to record a value that the code overwrites, or to cut a long argument at a program point
    dead_returns: tuple = ()                   # boolean constants whose return the postcondition excludes (the path that returns them is expected to be infeasible)
    if_ordinals: bool = False                  # number loops inside `if` blocks separately (if<k>.<n>); off: they restart at <n> and may share an invariant with a top-level loop
    entry_lemmas: object = None                # f(o) -> [(name, [local axioms], Bool)]: consequences of the precondition, each proved *in isolation*
                                               # (from the precondition and the listed axioms only), then available to every later obligation

class NS:
    """attribute namespace over a dict of Syms (entry values `o`, loop env `e`)"""
    def __init__(self, d): object.__setattr__(self, '_d', d)
    def __getattr__(self, k):
        try: return self._d[k]
        except KeyError: raise AttributeError(k)
    def __contains__(self, k): return k in self._d
    def get(self, k, default=None): return self._d.get(k, default)

@dataclass
class State:
    env: dict
    pc: list
    def copy(self): return State(dict(self.env), list(self.pc))

class World:
    """registry of classes, constructors, functions, contracts, axioms"""
    def __init__(self):
        self.contracts = {}
        self.axioms = []
        self.classes = {}          # python class name -> TRec
        self.fields = {}           # (TRec name, python attr) -> f(sym) -> Sym | view field name
        self.ctors = {}            # python callable name -> f(engine, args, st, line) -> Sym
        self.consts = {}           # python name -> Sym
        self.identity_fns = set()  # to_state, to_symbol ...: identity on abstract values
        self.isinstance_preds = {} # (class name) -> f(sym) -> Bool
        self.none_consts = {}      # TVal name -> z3 const standing for None in that sort
    def contract(self, c): self.contracts[c.key] = c; return c

class Engine:
    def __init__(self, world, timeout_ms=10000):
        self.w = world; self.timeout_ms = timeout_ms
        self.obls = []; self.cur = None; self.cur_key = None

    # ------------------------------------------------------------------ obligations
    def oblige(self, st, name, goal, line=0, canary=False):
        goal = unwrap(goal)
        if is_and(goal) and not canary:
            flat = []
            def fl(g):
                if is_and(g):
                    for c in g.children(): fl(c)
                else: flat.append(g)
            fl(goal)
            for i, g in enumerate(flat):
                self.obls.append(Obligation(self.cur_key, f'{name} #{i}', list(st.pc), g, line))
            return
        self.obls.append(Obligation(self.cur_key, name, list(st.pc), goal, line, canary))

    def feasible(self, st):
        s = Solver(); s.set(timeout=300); s.add(self.w.axioms); s.add(st.pc)
        return s.check() != unsat

    # ------------------------------------------------------------------ helpers on collections
    def mem(self, coll, x):
        t = coll.t
        if isinstance(t, TSet): return Select(coll.term, x.term)
        if isinstance(t, TBag): return Select(coll.term, x.term) > 0
        if is_map(t): return Select(t.get(coll, 'dom').term, self.keyproj(x, t.key).term)
        if isinstance(t, TSeq):
            sm = getattr(self.w, 'seq_member', None)
            return sm(coll.term, x.term) if sm else Contains(coll.term, Unit(x.term))
        raise Unsupported(f'membership in {t}')

    def keyproj(self, k, keytype):
        """dict key of an object whose class compares and hashes by a projection (World.key_of: record type name -> f(sym) -> key value)"""
        if k.t != keytype and getattr(k.t, 'name', None) in getattr(self.w, 'key_of', {}):
            k2 = self.w.key_of[k.t.name](k)
            if k2.t == keytype: return k2
        return k

    def truthy(self, s):
        t = s.t
        if t is TBool: return s.term
        if isinstance(t, (TSet, TBag)):
            q = Const(fresh_name('tq'), t.elem.sort())
            return Exists([q], Select(s.term, q) if isinstance(t, TSet) else Select(s.term, q) > 0)
        if isinstance(t, TSeq): return Length(s.term) > 0
        if is_map(t):
            q = Const(fresh_name('tq'), t.key.sort()); return Exists([q], Select(t.get(s, 'dom').term, q))
        if t is TInt: return s.term != 0
        if t is TNone: return BoolVal(False)
        if isinstance(t, TVal) and t.name in self.w.none_consts:
            return s.term != self.w.none_consts[t.name]
        if isinstance(t, TRec) and f'{t.name}.__bool__' in self.w.contracts and self.w.contracts[f'{t.name}.__bool__'].pure is not None:
            return unwrap(self.w.contracts[f'{t.name}.__bool__'].pure(NS({'self': s})))          # bool(obj) through the pure contract of __bool__
        raise Unsupported(f'truthiness of {t}')

    # ------------------------------------------------------------------ expressions
    def ev(self, e, st):
        m = getattr(self, 'ev_' + type(e).__name__, None)
        if m is None: raise Unsupported(f'expression {type(e).__name__} (line {getattr(e, "lineno", "?")})')
        return m(e, st)

    def ev_Name(self, e, st):
        if e.id in st.env: return self.deref(st.env[e.id], st)
        if e.id in self.w.consts: return self.w.consts[e.id]
        raise Unsupported(f'name {e.id} (line {e.lineno})')

    def deref(self, v, st):
        if isinstance(v, Sym) and v.ref is not None and v.t is None:       # reference local: read through the path
            return self.ev(v.ref, st)
        return v

    def ev_Constant(self, e, st):
        v = e.value
        if v is None: return NONE_SYM
        if isinstance(v, bool): return Sym(TBool, BoolVal(v))
        if isinstance(v, int): return Sym(TInt, IntVal(v))
        if isinstance(v, str) and ('str:' + v) in self.w.consts: return self.w.consts['str:' + v]
        raise Unsupported(f'constant {v!r} (line {e.lineno})')

    def ev_Attribute(self, e, st):
        base = self.ev(e.value, st)
        return self.read_field(base, e.attr, e)

    def read_field(self, base, attr, node=None):
        key = (base.t.name, attr)
        if key in self.w.fields:
            f = self.w.fields[key]
            return base.t.get(base, f) if isinstance(f, str) else f(base)
        if isinstance(base.t, TRec) and attr in dict(base.t.fields):
            return base.t.get(base, attr)
        raise Unsupported(f'attribute {attr} of {base.t} (line {getattr(node, "lineno", "?")})')

    def ev_UnaryOp(self, e, st):
        if isinstance(e.op, ast.Not): return Sym(TBool, Not(self.truthy(self.ev(e.operand, st))))
        if isinstance(e.op, ast.USub):
            v = self.ev(e.operand, st); return Sym(TInt, -v.term)
        raise Unsupported('unary op')

    def ev_BoolOp(self, e, st):
        is_and_ = isinstance(e.op, ast.And); vals = []; guards = []
        for v in e.values:                     # short-circuit: later operands evaluated under earlier guards
            sub = st.copy(); sub.pc += guards; n0 = len(sub.pc)
            t = self.truthy(self.ev(v, sub))
            for fact in sub.pc[n0:]:
                st.pc.append(Implies(And(guards), fact) if guards else fact)
            vals.append(t); guards.append(t if is_and_ else Not(t))
        return Sym(TBool, And(vals) if is_and_ else Or(vals))

    def ev_BinOp(self, e, st):
        hook = getattr(self.w, 'binop_hook', None)
        if hook is not None:
            hv = hook(self, e, st)
            if hv is not None: return hv
        l = self.ev(e.left, st); r = self.ev(e.right, st)
        if l.t is TInt and r.t is TInt:
            if isinstance(e.op, ast.Add): return Sym(TInt, l.term + r.term)
            if isinstance(e.op, ast.Sub): return Sym(TInt, l.term - r.term)
            if isinstance(e.op, ast.Mult): return Sym(TInt, l.term * r.term)
        if isinstance(e.op, ast.Add) and isinstance(l.t, TSeq) and l.t == r.t:          # list + list, both read as sequences
            new = Concat(l.term, r.term); jq = Const(fresh_name('cj'), IntSort()); nl = Length(l.term)
            # theory-valid pointwise facts (the solver does not unfold seq.++ under quantifiers); the second one is indexed by the position in the result
            if getattr(self.w, 'concat_facts', False):
                st.pc.append(And(Length(new) == nl + Length(r.term), ForAll([jq], Implies(And(0 <= jq, jq < nl), new[jq] == l.term[jq])),
                                 ForAll([jq], Implies(And(nl <= jq, jq < nl + Length(r.term)), new[jq] == r.term[jq - nl]))))
            return Sym(l.t, new)
        if isinstance(e.op, ast.Add) and isinstance(l.t, TBag) and isinstance(r.t, TBag):
            return self.bag_union(l, r, st)
        if isinstance(e.op, ast.Add) and isinstance(l.t, TBag) and isinstance(r.t, TSet) and l.t.elem == r.t.elem:
            q = Const(fresh_name('bq'), l.t.elem.sort()); res = l.t.fresh('bagplusset')     # list += set : every member once
            st.pc.append(ForAll([q], Select(res.term, q) == Select(l.term, q) + If(Select(r.term, q), 1, 0)))
            return res
        raise Unsupported(f'binary op on {l.t},{r.t} (line {e.lineno})')

    def bag_union(self, l, r, st):
        q = Const(fresh_name('bq'), l.t.elem.sort()); res = l.t.fresh('bagsum')
        st.pc.append(ForAll([q], Select(res.term, q) == Select(l.term, q) + Select(r.term, q)))
        return res

    def ev_Compare(self, e, st):
        if len(e.ops) != 1: raise Unsupported('chained comparison')
        op = e.ops[0]
        # len(x) <op> const  (cardinality without a cardinality theory)
        lc = self.len_compare(e, st)
        if lc is not None: return lc
        if isinstance(op, (ast.Is, ast.IsNot)) and isinstance(e.comparators[0], ast.Constant) and e.comparators[0].value is None and isinstance(e.left, ast.Attribute):
            base = self.ev(e.left.value, st); hook = getattr(self.w, 'attr_none_tests', {}).get((getattr(base.t, 'name', None), e.left.attr))
            if hook is not None:                  # `obj.attr is None` for an attribute whose None-ness is a flag of the view
                t = hook(base); return Sym(TBool, Not(t) if isinstance(op, ast.IsNot) else t)
        l = self.ev(e.left, st); r = self.ev(e.comparators[0], st)
        if isinstance(op, (ast.In, ast.NotIn)):
            t = self.mem(r, l); return Sym(TBool, Not(t) if isinstance(op, ast.NotIn) else t)
        if isinstance(op, (ast.Eq, ast.NotEq, ast.Is, ast.IsNot)):
            t = self.equal(l, r); return Sym(TBool, Not(t) if isinstance(op, (ast.NotEq, ast.IsNot)) else t)
        if l.t is TInt and r.t is TInt:
            f = {ast.Lt: lambda a, b: a < b, ast.LtE: lambda a, b: a <= b, ast.Gt: lambda a, b: a > b, ast.GtE: lambda a, b: a >= b}
            return Sym(TBool, f[type(op)](l.term, r.term))
        raise Unsupported(f'comparison (line {e.lineno})')

    def equal(self, l, r):
        if l.t is TNone or r.t is TNone:
            other = r if l.t is TNone else l
            if other.t is TNone: return BoolVal(True)
            if isinstance(other.t, TVal) and other.t.name in self.w.none_consts:
                return other.term == self.w.none_consts[other.t.name]
            if other.t is not None and other.t.name in getattr(self.w, 'none_tests', {}):          # Optional[...] modelled as a record with an is-None flag
                return self.w.none_tests[other.t.name](other)
            return BoolVal(False)          # a collection / object is never None
        if l.t != r.t:
            hook = getattr(self.w, 'equal_hook', None)
            r2 = hook(l, r) if hook is not None else None
            if r2 is None: raise Unsupported(f'equality between {l.t} and {r.t}')
            return r2
        return l.term == r.term

    def len_compare(self, e, st):
        """len(S) <= 1, len(S) > 1, len(S) == 0, len(S) != 0 ... for sets, as first-order formulas"""
        def is_len(n): return isinstance(n, ast.Call) and isinstance(n.func, ast.Name) and n.func.id == 'len'
        if not is_len(e.left) or not isinstance(e.comparators[0], ast.Constant): return None
        s = self.ev(e.left.args[0], st); k = e.comparators[0].value; op = type(e.ops[0])
        if isinstance(s.t, TSeq):
            f = {ast.Lt: lambda a, b: a < b, ast.LtE: lambda a, b: a <= b, ast.Gt: lambda a, b: a > b,
                 ast.GtE: lambda a, b: a >= b, ast.Eq: lambda a, b: a == b, ast.NotEq: lambda a, b: a != b}
            return Sym(TBool, f[op](Length(s.term), k))
        if isinstance(s.t, TBag):               # len(list) against 0 / 1 / 2, lists as bags: total multiplicity without a sum
            x, y = Const(fresh_name('lx'), s.t.elem.sort()), Const(fresh_name('ly'), s.t.elem.sort())
            empty = ForAll([x], Select(s.term, x) <= 0)
            atmost1 = And(ForAll([x], Select(s.term, x) <= 1), ForAll([x, y], Implies(And(Select(s.term, x) > 0, Select(s.term, y) > 0), x == y)))
            tb = {(ast.Gt, 1): Not(atmost1), (ast.GtE, 2): Not(atmost1), (ast.LtE, 1): atmost1, (ast.Lt, 2): atmost1, (ast.Eq, 0): empty, (ast.NotEq, 0): Not(empty),
                  (ast.Gt, 0): Not(empty), (ast.GtE, 1): Not(empty), (ast.LtE, 0): empty, (ast.Lt, 1): empty}
            return Sym(TBool, tb[(op, k)]) if (op, k) in tb else None
        if not isinstance(s.t, TSet): return None
        x, y = Const(fresh_name('lx'), s.t.elem.sort()), Const(fresh_name('ly'), s.t.elem.sort())
        atmost1 = ForAll([x, y], Implies(And(Select(s.term, x), Select(s.term, y)), x == y))
        empty = ForAll([x], Not(Select(s.term, x)))
        exactly1 = And(Not(empty), atmost1)
        table = {(ast.Eq, 1): exactly1, (ast.NotEq, 1): Not(exactly1), (ast.LtE, 1): atmost1, (ast.Lt, 2): atmost1, (ast.Gt, 1): Not(atmost1), (ast.GtE, 2): Not(atmost1),
                 (ast.Eq, 0): empty, (ast.LtE, 0): empty, (ast.Lt, 1): empty, (ast.NotEq, 0): Not(empty),
                 (ast.Gt, 0): Not(empty), (ast.GtE, 1): Not(empty)}
        if (op, k) in table: return Sym(TBool, table[(op, k)])
        return None

    def ev_Set(self, e, st):
        els = [self.ev(x, st) for x in e.elts]
        t = TSet(els[0].t); term = t.empty().term
        for x in els: term = Store(term, x.term, True)
        return Sym(t, term)

    def ev_List(self, e, st):
        els = [self.ev(x, st) for x in e.elts]
        if els and els[0].t in getattr(self.w, 'seq_literals', ()):
            term = Unit(els[0].term)
            for x in els[1:]: term = Concat(term, Unit(x.term))
            return Sym(TSeq(els[0].t), term)
        if not els: raise Unsupported(f'empty list literal needs a declared type (line {e.lineno})')
        t = TBag(els[0].t); term = t.empty().term
        for x in els: term = Store(term, x.term, Select(term, x.term) + 1)
        return Sym(t, term)

    def ev_Dict(self, e, st):
        if not e.keys or any(k is None for k in e.keys): raise Unsupported(f'dict literal (line {e.lineno})')
        ks = [self.ev(k, st) for k in e.keys]; vs = [self.ev(v, st) for v in e.values]
        t = TMap(ks[0].t, vs[0].t)
        if any(k.t != ks[0].t for k in ks) or any(v.t != vs[0].t for v in vs): raise Unsupported('dict literal with mixed types')
        # values at absent keys: one fixed (unconstrained) constant per value sort, so that a specification can name the same literal
        dom = TSet(ks[0].t).empty().term; val = K(ks[0].t.sort(), Const(f'absent!{vs[0].t.name}', vs[0].t.sort()))
        for k, v in zip(ks, vs): dom = Store(dom, k.term, True); val = Store(val, k.term, v.term)          # later keys win, as in Python
        return t.make(dom=Sym(TSet(ks[0].t), dom), val=Sym(t.ftype('val'), val))

    def ev_Tuple(self, e, st):
        tet = getattr(self.w, 'empty_in_tuple', None)          # (x, set()): the element type of an empty literal inside a tuple comes from the world
        els = [tet.empty() if (tet is not None and self.is_empty_literal(x)) else self.ev(x, st) for x in e.elts]
        nit = getattr(self.w, 'none_in_tuple', None)          # (flag, None): the type of a None inside a tuple comes from the world (an Optional[value] with a none constant)
        if nit is not None: els = [Sym(nit, self.w.none_consts[nit.name]) if x.t is TNone else x for x in els]
        t = TTuple(*[x.t for x in els])
        return t.make(**{f'_{i}': x for i, x in enumerate(els)})

    def ev_Subscript(self, e, st):
        v = e.value
        if isinstance(v, ast.Call) and isinstance(v.func, ast.Name) and v.func.id == 'list' and len(v.args) == 1 \
                and isinstance(e.slice, ast.Constant) and e.slice.value == 0:
            coll = self.ev(v.args[0], st)                 # list(S)[0]: some element of the set S (order unknown)
            if isinstance(coll.t, TSet):
                self.oblige(st, 'no IndexError (list(set)[0] of a non-empty set)', self.truthy(coll), e.lineno)
                x = coll.t.elem.fresh('any'); st.pc.append(Select(coll.term, x.term)); return x
        base = self.ev(e.value, st)
        if isinstance(e.slice, ast.Slice):
            sl = e.slice
            if sl.lower is None and sl.upper is None and isinstance(sl.step, ast.UnaryOp) and isinstance(sl.step.op, ast.USub) \
                    and isinstance(sl.step.operand, ast.Constant) and sl.step.operand.value == 1 and isinstance(base.t, TSeq) and getattr(self.w, 'seq_reverse', None):
                return Sym(base.t, self.w.seq_reverse(base.term))
            if sl.upper is None and sl.step is None and sl.lower is not None and isinstance(base.t, TSeq):       # seq[lo:]
                lo = self.ev(sl.lower, st)
                if lo.t is TInt:
                    self.oblige(st, 'slice lower bound is not negative (negative bounds count from the end: not modelled)', lo.term >= 0, e.lineno)
                    return Sym(base.t, SubSeq(base.term, lo.term, Length(base.term) - lo.term))       # empty when lo >= len (seq.extract with a length <= 0)
            raise Unsupported(f'slice (line {e.lineno})')
        k = self.ev(e.slice, st)
        if is_map(base.t):
            k = self.keyproj(k, base.t.key)
            self.oblige(st, 'no KeyError', self.mem(base, k), e.lineno)
            return Sym(base.t.val, Select(base.t.get(base, 'val').term, k.term))
        if isinstance(base.t, TSeq) and k.t is TInt:
            if isinstance(e.slice, ast.UnaryOp) and isinstance(e.slice.op, ast.USub) and isinstance(e.slice.operand, ast.Constant) and isinstance(e.slice.operand.value, int):
                pos = Length(base.term) - e.slice.operand.value          # seq[-c]: counted from the end
                self.oblige(st, 'no IndexError (index from the end)', pos >= 0, e.lineno)
                return Sym(base.t.elem, base.term[pos])
            self.oblige(st, 'no IndexError', And(k.term >= 0, k.term < Length(base.term)), e.lineno)
            return Sym(base.t.elem, base.term[k.term])
        if is_tuple(base.t) and isinstance(e.slice, ast.Constant):
            return base.t.get(base, f'_{e.slice.value}')
        if isinstance(base.t, TRec) and f'{base.t.name}.__getitem__' in self.w.contracts:       # indexable record (a Python list viewed as length + array)
            return self.apply_contract(self.w.contracts[f'{base.t.name}.__getitem__'], None, base, [k], st, e.lineno)
        raise Unsupported(f'subscript of {base.t} (line {e.lineno})')

    def ev_IfExp(self, e, st):
        c = self.truthy(self.ev(e.test, st)); a = self.ev(e.body, st); b = self.ev(e.orelse, st)
        if a.t != b.t: raise Unsupported('if-expression with different types')
        return Sym(a.t, If(c, a.term, b.term))

    # comprehensions -------------------------------------------------------------
    def bind_target(self, target, val, env):
        if isinstance(target, ast.Name): env[target.id] = val; return
        if isinstance(target, ast.Tuple) and is_tuple(val.t):
            for i, tg in enumerate(target.elts): self.bind_target(tg, val.t.get(val, f'_{i}'), env)
            return
        raise Unsupported('binding target')

    def comp_parts(self, e, st):
        """single-generator comprehension: returns (coll, bound var Sym, elt Sym, filter Bool) — elt/filter pure terms"""
        if len(e.generators) != 1: raise Unsupported('comprehension with several generators')
        g = e.generators[0]; coll = self.ev(g.iter, st)
        et = coll.t.elem if isinstance(coll.t, (TSet, TBag, TSeq)) else None
        if et is None: raise Unsupported(f'comprehension over {coll.t}')
        x = et.fresh('cx'); sub = st.copy(); self.bind_target(g.target, x, sub.env)
        sub.pc.append(self.mem(coll, x)); n0 = len(sub.pc)          # obligations under the binder keep `x` free: they hold for every element
        conds = []
        for c in g.ifs:                                              # the filter is evaluated before the element expression, left to right
            t = self.truthy(self.ev(c, sub)); conds.append(t); sub.pc.append(t)
        n1 = len(sub.pc)
        elt = self.ev(e.elt, sub) if hasattr(e, 'elt') else None
        flt = And(conds) if conds else BoolVal(True)
        if len(sub.pc) != n1 or n1 != n0 + len(conds): raise Unsupported(f'comprehension body calls a function without a pure spec term (line {e.lineno})')
        return coll, x, elt, flt

    def ev_ListComp(self, e, st):
        g0 = e.generators[0] if len(e.generators) == 1 else None
        if g0 is not None and not g0.ifs and isinstance(g0.target, ast.Name) and isinstance(g0.iter, ast.Call) and isinstance(g0.iter.func, ast.Name) and g0.iter.func.id == 'range' \
                and len(g0.iter.args) == 1 and not any(isinstance(n, ast.Name) and n.id == g0.target.id and isinstance(n.ctx, ast.Load) for n in ast.walk(e.elt)) and getattr(self.w, 'repeat_lists', None):
            # [v for _ in range(n)] with v not depending on the loop variable: the list of length max(n, 0) holding v everywhere (World.repeat_lists: element type name -> list record)
            n = self.ev(g0.iter.args[0], st); v = self.ev(e.elt, st)
            lt = self.w.repeat_lists.get(getattr(v.t, 'name', None))
            if lt is not None and n.t is TInt:
                at_t = lt.ftype('at')
                ln = TInt.fresh('replen'); st.pc.append(ln.term == If(n.term >= 0, n.term, 0))          # a constant for the length: keeps if-terms out of the list term (and out of patterns built on it)
                return lt.make(len=ln, at=Sym(at_t, K(IntSort(), v.term)))
        coll, x, elt, flt = self.comp_parts(e, st)
        if elt.term.eq(x.term) and is_true(flt): return coll                      # identity map
        if isinstance(coll.t, TSeq):
            hook = getattr(self.w, 'seq_map', None)              # [f(x) for x in seq] as a spec function of the sequence, when the world knows f
            r = hook(self, coll, x, elt) if (hook is not None and is_true(flt)) else None
            if r is None: raise Unsupported('map over a sequence')
            return r
        rt = TBag(elt.t); res = rt.fresh('lc'); y = Const(fresh_name('lcy'), elt.t.sort())
        st.pc.append(ForAll([y], And(Select(res.term, y) >= 0,
            (Select(res.term, y) > 0) == Exists([x.term], And(self.mem(coll, x), flt, y == elt.term)))))
        return res

    def ev_SetComp(self, e, st):
        coll, x, elt, flt = self.comp_parts(e, st)
        rt = TSet(elt.t); res = rt.fresh('sc'); y = Const(fresh_name('scy'), elt.t.sort())
        st.pc.append(ForAll([y], Select(res.term, y) == Exists([x.term], And(self.mem(coll, x), flt, y == elt.term))))
        return res

    def quantified(self, e, st, universal):
        coll, x, elt, flt = self.comp_parts(e, st)
        body = self.truthy(elt)
        if universal: return Sym(TBool, ForAll([x.term], Implies(And(self.mem(coll, x), flt), body)))
        return Sym(TBool, Exists([x.term], And(self.mem(coll, x), flt, body)))

    # calls ------------------------------------------------------------------------
    COLL_MUT = ('add', 'append', 'pop', 'remove', 'popleft', 'extend', 'update', 'discard', 'insert', 'setdefault')

    def ev_Call(self, e, st):
        f = e.func
        if isinstance(f, ast.Name) and f.id in st.env:             # obj(...)  ->  obj.__call__(...)
            recv = self.ev(f, st); key = f'{recv.t.name}.__call__'
            if key not in self.w.contracts: raise Unsupported(f'call of object {f.id}: no contract {key}')
            return self.apply_contract(self.w.contracts[key], f, recv, [self.ev(a, st) for a in e.args], st, e.lineno)
        if isinstance(f, ast.Name):
            n = f.id
            if n in ('any', 'all') and e.args and isinstance(e.args[0], ast.GeneratorExp):
                return self.quantified(e.args[0], st, n == 'all')
            if n == 'isinstance' and len(e.args) == 2:
                cn = e.args[1].id if isinstance(e.args[1], ast.Name) else (e.args[1].attr if isinstance(e.args[1], ast.Attribute) and isinstance(e.args[1].value, ast.Name) and e.args[1].value.id not in st.env else None)
                if cn in self.w.isinstance_preds: return Sym(TBool, self.w.isinstance_preds[cn](self.ev(e.args[0], st)))
            if n in self.w.identity_fns: return self.ev(e.args[0], st)
            if n == 'bool' and len(e.args) == 1: return Sym(TBool, self.truthy(self.ev(e.args[0], st)))
            if n == 'len' and len(e.args) == 1:
                a = self.ev(e.args[0], st)
                if a.t is None and a.ref is not None: a = self.ev(a.ref, st)          # reference local
                if isinstance(a.t, TSeq): return Sym(TInt, Length(a.term))
                if isinstance(a.t, TSet) and getattr(self.w, 'card', None) is not None: return Sym(TInt, self.w.card(a))          # |S| as an uninterpreted function with the world's axioms
                if isinstance(a.t, TRec) and f'{a.t.name}.__len__' in self.w.contracts:
                    return self.apply_contract(self.w.contracts[f'{a.t.name}.__len__'], None, a, [], st, e.lineno)
                raise Unsupported(f'len() of {a.t} outside a comparison with a constant (line {e.lineno})')
            if n in ('set', 'list', 'deque') and len(e.args) == 1:
                a = self.ev(e.args[0], st)
                if n == 'deque' and isinstance(a.t, TBag): return a
                if n == 'list' and isinstance(a.t, TSet) and getattr(self.w, 'list_of_set_is_the_set', False): return a    # only iterated, never indexed
                if n in ('list', 'deque') and isinstance(a.t, TSet):        # list(S): a bag with every element once
                    rt = TBag(a.t.elem); q = Const(fresh_name('lq'), a.t.elem.sort()); res = rt.fresh('list')
                    st.pc.append(ForAll([q], Select(res.term, q) == If(Select(a.term, q), 1, 0))); return res
                if n == 'set' and isinstance(a.t, TSet): return a
                if n == 'set' and isinstance(a.t, TBag):                       # set(list): membership only
                    rt = TSet(a.t.elem); q = Const(fresh_name('sq'), a.t.elem.sort()); res = rt.fresh('set')
                    st.pc.append(ForAll([q], Select(res.term, q) == (Select(a.term, q) > 0))); return res
                raise Unsupported(f'{n}() of {a.t}')
            if n in self.w.ctors: return self.w.ctors[n](self, e, st)
            if ('fn.' + n) in self.w.contracts:
                args = [NONE_SYM if self.is_empty_literal(a) else self.ev(a, st) for a in e.args]
                return self.apply_contract(self.w.contracts['fn.' + n], None, None, args, st, e.lineno)
            raise Unsupported(f'call of {n} (line {e.lineno})')
        if isinstance(f, ast.Attribute):
            root = f.value
            while isinstance(root, ast.Attribute): root = root.value
            if f.attr in self.w.ctors and isinstance(root, ast.Name) and root.id not in st.env:
                return self.w.ctors[f.attr](self, e, st)                      # module.Class() / package.module.Class()
            if isinstance(f.value, ast.Call) and isinstance(f.value.func, ast.Name) and f.value.func.id == 'super' and not f.value.args:
                me = self.ev(ast.Name(id='self', ctx=ast.Load(), lineno=e.lineno, col_offset=0), st)
                sup = getattr(self.w, 'super_of', {}).get(me.t.name)
                if sup is None or f'{sup.name}.{f.attr}' not in self.w.contracts: raise Unsupported(f'super().{f.attr} on {me.t} (line {e.lineno})')
                up = sup.make(**{fl: me.t.get(me, fl) for fl, _ in sup.fields})
                c = self.w.contracts[f'{sup.name}.{f.attr}']
                tmp = '$super'; st.env[tmp] = up
                res = self.apply_contract(c, ast.Name(id=tmp, ctx=ast.Load(), lineno=e.lineno, col_offset=0), up, [self.ev(a, st) for a in e.args], st, e.lineno)
                back = st.env[tmp]
                self.assign(ast.Name(id='self', ctx=ast.Store(), lineno=e.lineno, col_offset=0), me.t.make(**{fl: sup.get(back, fl) for fl, _ in me.t.fields}), st)
                return res
            recv = self.ev(f.value, st)
            args = [NONE_SYM if (self.is_empty_literal(a) or (isinstance(a, ast.Tuple) and not a.elts)) else self.ev(a, st) for a in e.args]
            if recv.ref is not None and recv.t is None:          # method called on a reference local (d.setdefault(k, []).append(x))
                node = recv.ref; recv = self.ev(node, st)
                f = ast.Attribute(value=node, attr=f.attr, ctx=ast.Load(), lineno=e.lineno, col_offset=0)
            r = self.coll_method(f, recv, args, st, e)
            if r is not None: return r
            if isinstance(recv.t, TRec):
                key = f'{recv.t.name}.{f.attr}'
                if key in self.w.contracts:
                    return self.apply_contract(self.w.contracts[key], f.value, recv, args, st, e.lineno, arg_nodes=e.args)
                try: callee = self.read_field(recv, f.attr, f)               # callable field: self._transition_function(...)
                except Unsupported: callee = None
                if callee is not None and f'{callee.t.name}.__call__' in self.w.contracts:
                    return self.apply_contract(self.w.contracts[f'{callee.t.name}.__call__'], None, callee, args, st, e.lineno)
            raise Unsupported(f'method {f.attr} on {recv.t} (line {e.lineno})')
        raise Unsupported('call form')

    def stores_reference(self, node, st):
        """the expression puts an existing mutable object (a name / attribute / subscript of collection or record type), or a tuple / list holding one,
        into a container: the container then shares it with whoever else holds it"""
        if isinstance(node, (ast.Tuple, ast.List, ast.Set)): return any(self.stores_reference(x, st) for x in node.elts)
        if isinstance(node, (ast.Name, ast.Attribute, ast.Subscript)):
            try:
                n0 = len(self.obls); v = self.ev(node, st.copy()); del self.obls[n0:]
            except Unsupported: return False
            return v.t is not None and (isinstance(v.t, (TSet, TBag, TSeq)) or (isinstance(v.t, TRec) and not is_tuple(v.t) and not isinstance(v.t, TURec)) or
                                        (is_tuple(v.t) and any(isinstance(ft, (TSet, TBag, TSeq)) for _, ft in v.t.fields)))
        return False

    def root_name(self, node):
        while isinstance(node, (ast.Attribute, ast.Subscript)): node = node.value
        return node.id if isinstance(node, ast.Name) else None

    def coll_method(self, f, recv, args, st, e):
        t, a = recv.t, f.attr
        if a in ('append', 'add', 'insert', 'extend', 'update') and e.args and self.stores_reference(e.args[-1], st):
            rn = self.root_name(f.value)
            if rn is not None: st.env['$shares:' + rn] = True          # what comes out of this container later may be shared: it must not be mutated (see bind of pop / for)
        if isinstance(t, TSet):
            if a == 'union' or a == 'intersection':
                q = Const(fresh_name('uq'), t.elem.sort()); res = t.fresh(a)
                op = Or if a == 'union' else And
                st.pc.append(ForAll([q], Select(res.term, q) == op(Select(recv.term, q), self.mem(args[0], Sym(t.elem, q)))))
                return res
            if a == 'copy': return Sym(t, recv.term)
            if a == 'add':
                self.assign(f.value, Sym(t, Store(recv.term, args[0].term, True)), st); return NONE_SYM
            if a == 'remove':
                self.oblige(st, 'remove: element present (no KeyError)', Select(recv.term, args[0].term), e.lineno)
                self.assign(f.value, Sym(t, Store(recv.term, args[0].term, False)), st); return NONE_SYM
            if a == 'discard':
                self.assign(f.value, Sym(t, Store(recv.term, args[0].term, False)), st); return NONE_SYM
        if isinstance(t, TSeq):
            if a == 'copy' and not args: return Sym(t, recv.term)
            if a == 'append' and len(args) == 1 and args[0].t == t.elem:
                new = Concat(recv.term, Unit(args[0].term)); kq = Const(fresh_name('ak'), IntSort()); n0 = Length(recv.term)
                # theory-valid facts about the appended sequence, stated pointwise (the solver does not unfold seq.++ under quantifiers)
                st.pc.append(And(Length(new) == n0 + 1, new[n0] == args[0].term, ForAll([kq], Implies(And(0 <= kq, kq < n0), new[kq] == recv.term[kq]))))
                self.assign(f.value, Sym(t, new), st); return NONE_SYM
        if isinstance(t, TBag):
            if a == 'append':
                v = args[0].term
                if isinstance(t.elem, TSeq) or (is_tuple(t.elem) and any(isinstance(ft, (TSet, TBag, TSeq)) for _, ft in t.elem.fields)):
                    # bags of sequences (or of tuples holding a collection): a fresh bag characterised by monotone facts instead of an array store - most goals need `no smaller than before` only,
                    # and deciding whether two sequence-valued index terms are equal is what makes the solver unstable
                    new = t.fresh('appended').term; u = Const(fresh_name('bu'), t.elem.sort()); old_ = recv.term
                    st.pc.append(And(Select(new, v) == Select(old_, v) + 1, ForAll([u], Select(new, u) >= Select(old_, u), patterns=[Select(new, u)]),
                                     ForAll([u], Implies(Select(new, u) > Select(old_, u), u == v), patterns=[Select(new, u)])))
                else: new = Store(recv.term, v, Select(recv.term, v) + 1)
                self.assign(f.value, Sym(t, new), st); return NONE_SYM
            if a in ('pop', 'popleft') and not args:
                v = t.elem.fresh('pop')
                self.oblige(st, 'pop from non-empty (no IndexError)', self.truthy(recv), e.lineno)
                st.pc.append(Select(recv.term, v.term) > 0)
                self.assign(f.value, Sym(t, Store(recv.term, v.term, Select(recv.term, v.term) - 1)), st); return v
            if a == 'copy': return Sym(t, recv.term)
        if is_map(t):
            if a == 'get' and len(args) == 2:
                k, d = args
                if d.t is TNone and isinstance(t.val, (TSet, TBag, TSeq)): d = t.val.empty()          # d.get(k, []) / d.get(k, ())
                if d.t != t.val: raise Unsupported('dict.get default of another type')
                return Sym(t.val, If(self.mem(recv, k), Select(t.get(recv, 'val').term, k.term), d.term))
            if a == 'setdefault' and len(args) == 2:
                k, d = args
                if d.t is TNone and isinstance(t.val, (TSet, TBag, TSeq)): d = t.val.empty()
                if d.t is TNone and t.val.name in getattr(self.w, 'empty_values', {}): d = self.w.empty_values[t.val.name]()      # [] for a list viewed as a record
                newmap = t.make(dom=Sym(TSet(t.key), Store(t.get(recv, 'dom').term, k.term, True)),
                                val=Sym(t.ftype('val'), If(self.mem(recv, k), t.get(recv, 'val').term,
                                                            Store(t.get(recv, 'val').term, k.term, d.term))))
                self.assign(f.value, newmap, st)
                ref = ast.Subscript(value=f.value, slice=e.args[0], ctx=ast.Load(), lineno=e.lineno, col_offset=0)
                return Sym(None, None, ref=ref)          # reference local: aliasing through an lvalue path
            if a in ('values', 'keys', 'items'): raise Unsupported(f'dict.{a}() outside a for header')
        return None

    def apply_contract(self, c, recv_node, recv, args, st, line, arg_nodes=None):
        self.used.add(c.key)
        names = [p for p, _ in c.params]
        o = {}
        if recv is not None: o[names[0]] = recv; rest = names[1:]
        else: rest = names
        for n, a in zip(rest, args): o[n] = a
        for (n, t) in c.params:
            if n in o and o[n].t is TNone and isinstance(t, (TSet, TBag, TSeq)): o[n] = t.empty()
        for (n, t) in c.params:
            if n in o and o[n].t != t and not (o[n].t is TNone):
                if (o[n].t.name, t.name) in getattr(self.w, 'subtypes', ()):      # upcast between record types with the same fields
                    o[n] = t.make(**{f: o[n].t.get(o[n], f) for f, _ in t.fields}); continue
                raise Unsupported(f'argument {n} of {c.key}: {o[n].t} given, {t} expected (line {line})')
        ons = NS(o)
        if c.requires is not None: self.oblige(st, f'precondition of {c.key}', c.requires(ons), line)
        for exc, cond in c.raises.items():
            self.oblige(st, f'{c.key} does not raise {exc}', Not(unwrap(cond(ons))), line)
        new = dict(o)
        for m in c.modifies: new[m] = o[m].t.fresh('post_' + m)
        if c.pure is not None: res = c.pure(ons)
        elif c.ret is TNone: res = NONE_SYM
        else: res = c.ret.fresh('ret_' + c.key.split('.')[-1])
        if c.ensures is not None and (c.pure is None or c.modifies):       # a pure spec term already is the postcondition
            if c.ghosts:
                gd = {k: t.fresh('ghost_' + k) for k, t in c.ghosts.items()}; g = NS(gd)
                for k, v in gd.items(): st.env[f"$ghost.{c.key.split('.')[-1]}.{k}"] = v
                st.pc.append(unwrap(c.ensures(ons, res, NS(new), g)))
            else: st.pc.append(unwrap(c.ensures(ons, res, NS(new))))
        st.env['$ret.' + c.key.split('.')[-1]] = res
        for m in c.modifies: st.env[f"$post.{c.key.split('.')[-1]}.{m}"] = new[m]          # value of a modified argument right after the call (for specifications)
        if recv is not None and names[0] in c.modifies:
            if recv_node is None: raise Unsupported(f'mutating call {c.key} on a temporary')
            self.assign(recv_node, new[names[0]], st)
        for m in c.modifies:
            if m == names[0] and recv is not None: continue
            i = rest.index(m) if m in rest else None
            if i is None or arg_nodes is None or i >= len(arg_nodes) or not isinstance(arg_nodes[i], (ast.Name, ast.Attribute, ast.Subscript)):
                raise Unsupported(f'call {c.key} modifies its argument `{m}`, which is not an assignable expression here (line {line})')
            self.assign(arg_nodes[i], new[m], st)
        return res

    # ------------------------------------------------------------------ assignment (functional update along lvalue paths)
    def assign(self, node, val, st, rebind=False):
        if isinstance(node, ast.Name):
            cur = st.env.get(node.id)
            if isinstance(cur, Sym) and cur.ref is not None and cur.t is None and not rebind:
                return self.assign(cur.ref, val, st)              # write through a reference local
            if not rebind and st.env.get('$alias:' + node.id):
                raise Unsupported(f'mutation through `{node.id}`, a local that aliases another object (sharing is not modelled)')
            if rebind: st.env['$rebound:' + node.id] = True      # the name no longer denotes the caller's object
            elif ('$param:' + node.id) in st.env and not st.env.get('$rebound:' + node.id):
                st.env['$param:' + node.id] = val                 # mutation of the caller's object
            st.env[node.id] = val; return
        if isinstance(node, ast.Attribute):
            base = self.ev(node.value, st)
            key = (base.t.name, node.attr)
            fld = self.w.fields.get(key, node.attr if isinstance(base.t, TRec) and node.attr in dict(base.t.fields) else None)
            if callable(fld):
                setter = self.w.fields.get((base.t.name, node.attr, 'set'))
                if setter is None: raise Unsupported(f'assignment through computed field {node.attr}')
                return self.assign(node.value, setter(base, val), st)
            if fld is None: raise Unsupported(f'assignment to attribute {node.attr} of {base.t}')
            ft_ = base.t.ftype(fld)
            if val.t is TNone and isinstance(ft_, TVal) and ft_.name in self.w.none_consts: val = Sym(ft_, self.w.none_consts[ft_.name])          # obj.attr = None for an Optional[value] field
            if base.t.ftype(fld) != val.t: raise Unsupported(f'field {fld}: {val.t} assigned, {base.t.ftype(fld)} declared')
            return self.assign(node.value, base.t.update(base, fld, val), st)
        if isinstance(node, ast.Subscript):
            n0 = len(self.obls); base = self.ev(node.value, st); del self.obls[n0:]
            k = self.ev(node.slice, st)
            if is_map(base.t):
                k = self.keyproj(k, base.t.key)
                if val.t != base.t.val: raise Unsupported(f'map value {val.t} assigned, {base.t.val} declared')
                nm = base.t.make(dom=Sym(TSet(base.t.key), Store(base.t.get(base, 'dom').term, k.term, True)),
                                 val=Sym(base.t.ftype('val'), Store(base.t.get(base, 'val').term, k.term, val.term)))
                return self.assign(node.value, nm, st)
            if isinstance(base.t, TRec) and f'{base.t.name}.__setitem__' in self.w.contracts:
                upd = self.apply_contract(self.w.contracts[f'{base.t.name}.__setitem__'], None, base, [k, val], st, getattr(node, 'lineno', 0))
                return self.assign(node.value, upd, st)
        raise Unsupported(f'assignment target {type(node).__name__}')

    # ------------------------------------------------------------------ statements
    def ex_block(self, stmts, st, path):
        outs = [(st, 'normal')]; li = 0; ii = 0
        for s in stmts:
            nxt = []
            if isinstance(s, ast.If): s._if_index = ii; ii += 1
            hooks = []
            if self.cur.at:
                src = ast.unparse(s).split('\n')[0]
                hooks = [spec for key_, spec in self.cur.at.items() if src.startswith(key_)]
            for cur, oc in outs:
                if oc != 'normal': nxt.append((cur, oc)); continue
                for spec in hooks:
                    if 'ghost' in spec:
                        for g, v in spec['ghost'](NS(cur.env)).items(): cur.env['$g.' + g] = v
                    for gi, g in enumerate(spec['lemmas'](NS(cur.env)) if 'lemmas' in spec else []):
                        g = unwrap(g); self.oblige(cur, f'lemma {gi} before line {s.lineno}', g, s.lineno); cur.pc.append(g)
                if isinstance(s, (ast.For, ast.While)): nxt += self.ex_loop(s, cur, path + [li])
                else: nxt += self.ex_stmt(s, cur, path)
            if isinstance(s, (ast.For, ast.While)): li += 1
            outs = nxt
        return outs

    def ex_stmt(self, s, st, path):
        if isinstance(s, ast.Expr) and isinstance(s.value, (ast.Yield, ast.YieldFrom)):
            acc = st.env.get('$yield')
            if acc is None: raise Unsupported('yield in a function whose contract does not return a bag')
            if isinstance(s.value, ast.Yield):
                v = self.ev(s.value.value, st)
                if v.t != acc.t.elem: raise Unsupported(f'yield of {v.t}, contract says {acc.t}')
                st.env['$yield'] = Sym(acc.t, Store(acc.term, v.term, Select(acc.term, v.term) + 1))
            else:
                g = self.ev(s.value.value, st)
                if isinstance(g.t, TBag) and g.t == acc.t: st.env['$yield'] = self.bag_union(acc, g, st)
                else: raise Unsupported(f'yield from {g.t}')
            return [(st, 'normal')]
        if isinstance(s, ast.Expr):
            if not isinstance(s.value, ast.Constant): self.ev(s.value, st)
            return [(st, 'normal')]
        if isinstance(s, (ast.Import, ast.ImportFrom, ast.Pass)): return [(st, 'normal')]
        if isinstance(s, ast.Assign):
            val_node = s.value
            if isinstance(val_node, ast.BoolOp) and isinstance(val_node.op, ast.Or) and len(val_node.values) == 2 and self.is_empty_literal(val_node.values[1]):
                # x = given or set() / [] / {}: the given collection when there is one (an empty one equals the literal), the empty literal for None
                first = self.ev(val_node.values[0], st)
                if first.t is TNone: val_node = val_node.values[1]
                elif isinstance(first.t, (TSet, TBag, TSeq)) or is_map(first.t): val_node = val_node.values[0]
            elif isinstance(val_node, ast.BoolOp) and isinstance(val_node.op, ast.Or) and len(val_node.values) == 2 and isinstance(val_node.values[1], ast.Call):
                # x = given or Cls(): None gives the new object; an object of a class without __bool__ / __len__ (World.always_truthy names them) is kept
                first = self.ev(val_node.values[0], st)
                if first.t is TNone: val_node = val_node.values[1]
                elif isinstance(first.t, TRec) and first.t.name in getattr(self.w, 'always_truthy', ()): val_node = val_node.values[0]
            v = self.empty_literal(val_node, s.targets[0], st) or self.ev(val_node, st)
            t0 = s.targets[0]
            if v.t is TNone and isinstance(t0, ast.Name) and t0.id in self.cur.locals:
                dt = self.cur.locals[t0.id]
                if isinstance(dt, TVal) and dt.name in self.w.none_consts: v = Sym(dt, self.w.none_consts[dt.name])     # Optional[value]
            # `x = obj.attr` / `x = d[k]` / `x = y` binds x to the *same* mutable object: a later mutation through x would change the other one too.
            # The engine does not model that sharing; it remembers that x is an alias and refuses a mutation through it (see assign).
            aliasing = isinstance(s.value, (ast.Attribute, ast.Subscript, ast.Name)) and v.t is not None and \
                (isinstance(v.t, (TSet, TBag, TSeq)) or (isinstance(v.t, TRec) and not is_tuple(v.t)))
            from_shared = isinstance(s.value, ast.Call) and isinstance(s.value.func, ast.Attribute) and s.value.func.attr in ('pop', 'popleft') \
                and st.env.get('$shares:' + str(self.root_name(s.value.func.value)))
            for t in s.targets:
                if isinstance(t, ast.Tuple):
                    self.bind_target(t, v, st.env)
                    for nm_ in self.target_names(t): st.env['$alias:' + nm_] = bool(from_shared)
                else:
                    self.assign(t, v, st, rebind=isinstance(t, ast.Name))
                    if isinstance(t, ast.Name): st.env['$alias:' + t.id] = bool(aliasing or from_shared)
            return [(st, 'normal')]
        if isinstance(s, ast.AugAssign):
            v = self.ev(ast.BinOp(left=s.target, op=s.op, right=s.value, lineno=s.lineno, col_offset=0), st)
            self.assign(s.target, v, st); return [(st, 'normal')]
        if isinstance(s, ast.Return):
            if s.value is not None and self.is_empty_literal(s.value):
                t = self.cur.ret
                if not isinstance(t, (TSet, TBag, TSeq)): raise Unsupported('empty literal returned, contract return type is not a collection')
                return [(st, ('return', t.empty()))]
            if isinstance(s.value, ast.List) and len(s.value.elts) == 1 and self.is_empty_literal(s.value.elts[0]) and isinstance(self.cur.ret, TBag) \
                    and isinstance(self.cur.ret.elem, TSeq):                                   # return [[]]: the list holding one empty list
                rt = self.cur.ret; return [(st, ('return', Sym(rt, Store(rt.empty().term, rt.elem.empty().term, 1))))]
            if isinstance(s.value, ast.List) and isinstance(self.cur.ret, TSeq):        # a list literal returned as a sequence
                els = [self.ev(x, st) for x in s.value.elts]; term = Unit(els[0].term)
                for x in els[1:]: term = Concat(term, Unit(x.term))
                return [(st, ('return', Sym(self.cur.ret, term)))]
            return [(st, ('return', self.ev(s.value, st) if s.value is not None else NONE_SYM))]
        if isinstance(s, ast.Delete):
            for tgt in s.targets:
                if not isinstance(tgt, ast.Subscript): raise Unsupported(f'del of {type(tgt).__name__} (line {s.lineno})')
                base = self.ev(tgt.value, st); k = self.ev(tgt.slice, st)
                if not is_map(base.t): raise Unsupported(f'del on {base.t}')
                self.oblige(st, 'no KeyError (del)', self.mem(base, k), s.lineno)
                nm_ = base.t.make(dom=Sym(TSet(base.t.key), Store(base.t.get(base, 'dom').term, k.term, False)), val=base.t.get(base, 'val'))
                self.assign(tgt.value, nm_, st)
            return [(st, 'normal')]
        if isinstance(s, ast.Raise):
            n = s.exc.func.id if isinstance(s.exc, ast.Call) else getattr(s.exc, 'id', '?')
            return [(st, ('raise', n))]
        if isinstance(s, ast.Continue): return [(st, 'continue')]
        if isinstance(s, ast.Break): return [(st, 'break')]
        if isinstance(s, ast.If):
            c = self.truthy(self.ev(s.test, st)); out = []
            for cond, blk in ((c, s.body), (Not(c), s.orelse)):
                sx = st.copy(); sx.pc.append(cond)
                if not self.feasible(sx): continue
                sub = path
                if self.cur.if_ordinals:        # loops inside the k-th `if` of a block are numbered if<k>.0, if<k>.1 ... (else<k>.0 ...) instead of restarting at 0
                    sub = path + [('if' if blk is s.body else 'else') + str(getattr(s, '_if_index', 0))]
                out += self.ex_block(blk, sx, sub)
            return out
        raise Unsupported(f'statement {type(s).__name__} (line {s.lineno})')

    def is_empty_literal(self, val):
        return (isinstance(val, ast.Call) and isinstance(val.func, ast.Name) and val.func.id in ('set', 'list', 'dict', 'deque')
                and not val.args) or (isinstance(val, (ast.List, ast.Dict)) and not (getattr(val, 'elts', None) or getattr(val, 'keys', None)))

    def empty_literal(self, val, target, st=None):
        """`x = set()`, `x = []`, `x = {}`, `x = deque()`: element type comes from the contract's `locals` declaration"""
        if not self.is_empty_literal(val): return None
        if isinstance(target, ast.Subscript) and st is not None:          # d[k] = {}  : the type is the container's value type
            n0 = len(self.obls); base = self.ev(target.value, st); del self.obls[n0:]
            if not is_map(base.t): raise Unsupported('empty literal stored into a non-map')
            t = base.t.val
        elif isinstance(target, ast.Name) and target.id in self.cur.locals:
            t = self.cur.locals[target.id]
        elif isinstance(target, ast.Attribute) and st is not None:
            base = self.ev(target.value, st); fld = self.w.fields.get((base.t.name, target.attr), target.attr)
            if callable(fld): t = fld(base).t                      # computed field: the type its getter gives
            elif not isinstance(fld, str): raise Unsupported('empty literal stored into a computed field')
            else: t = base.t.ftype(fld)
        else:
            raise Unsupported(f'empty collection needs a declared type (line {val.lineno})')
        if is_map(t):
            return t.make(dom=TSet(t.key).empty(), val=t.ftype('val').fresh('emptymap'))
        return t.empty()

    def modified_names(self, stmts):
        names = set()
        for n in ast.walk(ast.Module(body=stmts, type_ignores=[])):
            if isinstance(n, (ast.Yield, ast.YieldFrom)): names.add('$yield')
            if isinstance(n, ast.Name) and isinstance(n.ctx, ast.Store): names.add(n.id)
            elif isinstance(n, (ast.Subscript, ast.Attribute)) and isinstance(n.ctx, ast.Store):
                b = n
                while isinstance(b, (ast.Subscript, ast.Attribute)): b = b.value
                if isinstance(b, ast.Name): names.add(b.id)
            elif isinstance(n, ast.Call) and isinstance(n.func, ast.Attribute):
                m = n.func.attr
                if m in self.COLL_MUT or any(k.endswith('.' + m) and c.modifies for k, c in self.w.contracts.items()):
                    b = n.func.value
                    while isinstance(b, (ast.Subscript, ast.Attribute)): b = b.value
                    if isinstance(b, ast.Name): names.add(b.id)
        return names

    def havoc(self, st, names, tag):
        closed = set(names)
        for n, v in st.env.items():                  # a reference local is modified when its container is
            if isinstance(v, Sym) and v.t is None and v.ref is not None:
                b = v.ref
                while isinstance(b, (ast.Subscript, ast.Attribute)): b = b.value
                if isinstance(b, ast.Name) and n in names: closed.add(b.id)
        for n in closed:
            v = st.env.get(n)
            if isinstance(v, Sym) and v.t is not None and v.t is not TNone:
                st.env[n] = v.t.fresh(f'{n}@{tag}')
                if ('$param:' + n) in st.env and not st.env.get('$rebound:' + n):
                    st.env['$param:' + n] = st.env[n]

    def loop_iter(self, s, st):
        """(collection Sym, element binder) for a `for` header, with dict views and enumerate handled"""
        it = s.iter
        if isinstance(it, ast.Call) and isinstance(it.func, ast.Attribute) and it.func.attr in ('values', 'keys', 'items'):
            m = self.ev(it.func.value, st)
            if is_map(m.t):
                dom = m.t.get(m, 'dom')
                def binder(x, env, kind=it.func.attr, m=m):
                    val = Sym(m.t.val, Select(m.t.get(m, 'val').term, x.term))
                    if kind == 'keys': self.bind_target(s.target, x, env)
                    elif kind == 'values': self.bind_target(s.target, val, env)
                    else:
                        tt = TTuple(x.t, val.t); self.bind_target(s.target, tt.make(_0=x, _1=val), env)
                return dom, binder
        if isinstance(it, ast.Call) and isinstance(it.func, ast.Name) and it.func.id == 'enumerate' and len(it.args) == 1 and not it.keywords \
                and isinstance(s.target, ast.Tuple) and len(s.target.elts) == 2:
            coll = self.ev(it.args[0], st)
            if not isinstance(coll.t, TSeq): raise Unsupported(f'enumerate over {coll.t} (line {s.lineno})')
            def binder(x, env, idx=None, st_=None):
                if isinstance(s.target.elts[0], ast.Attribute):          # for obj.attr, x in enumerate(...): the counter is stored in an attribute
                    if st_ is None: raise Unsupported(f'attribute as loop target (line {s.lineno})')
                    self.assign(s.target.elts[0], idx, st_)
                else: self.bind_target(s.target.elts[0], idx, env)
                self.bind_target(s.target.elts[1], x, env)
            return coll, binder
        coll = self.ev(it, st)
        if is_map(coll.t): coll = coll.t.get(coll, 'dom')
        return coll, (lambda x, env, idx=None: self.bind_target(s.target, x, env))

    def target_names(self, t):
        """names bound by a loop target (an attribute target binds no name: it modifies its root object, see target_roots)"""
        if isinstance(t, ast.Name): return {t.id}
        if isinstance(t, (ast.Tuple, ast.List)): return set().union(*[self.target_names(x) for x in t.elts]) if t.elts else set()
        return set()

    def target_roots(self, t):
        """root objects modified by a loop header whose target holds an attribute / subscript"""
        out = set()
        for x in (t.elts if isinstance(t, (ast.Tuple, ast.List)) else [t]):
            if isinstance(x, (ast.Attribute, ast.Subscript)):
                while isinstance(x, (ast.Attribute, ast.Subscript)): x = x.value
                if isinstance(x, ast.Name): out.add(x.id)
        return out

    def ex_loop(self, s, st, path):
        """a loop body may store a shared reference into a container that the *next* iteration reads (to_process.append((state, visited))): the body is
        analysed once, and if that made a container `sharing`, the analysis is redone with the container marked from the start"""
        n0 = len(self.obls); self._share_seen = set()
        res = self._ex_loop(s, st.copy(), path)
        new = {k for k in self._share_seen if not st.env.get(k)}
        if not new:
            return self._ex_loop_commit(s, st, path, res, n0)
        del self.obls[n0:]
        for k in new: st.env[k] = True
        return self._ex_loop(s, st, path)

    def _ex_loop_commit(self, s, st, path, res, n0):
        return res

    def _ex_loop(self, s, st, path):
        ordinal = '.'.join(map(str, path))
        inv = self.cur.loops.get(ordinal)
        if inv is None: raise Unsupported(f'loop {ordinal} (line {s.lineno}) has no invariant')
        INV = lambda state, done: unwrap(inv(NS(state.env), done))
        mod = self.modified_names(s.body); results = []
        if isinstance(s, ast.For): mod |= self.target_roots(s.target)
        if self.cur.ghost_updates:                         # ghost variables assigned in this loop or in a loop nested in it are modified by it
            for od, upd in self.cur.ghost_updates.items():
                if od == ordinal or od.startswith(ordinal + '.'): mod |= {'$g.' + g for g in self.cur.ghost_state} | set(getattr(self.cur, 'ghost_fields_of', ()))
        gupd = self.cur.ghost_updates.get(ordinal)
        def finish(body_outs, next_done_inv):
            for e_st, oc in body_outs:
                self._share_seen |= {k for k, v in e_st.env.items() if isinstance(k, str) and k.startswith('$shares:') and v}
                if oc in ('normal', 'continue'):
                    if gupd is not None:
                        for g, v in gupd(NS(e_st.env)).items():
                            if '.' in g:                      # ghost *field* of a record in the environment ("self.pr"): specification-only part of the view
                                var, fld = g.split('.', 1); curv = e_st.env[var]; newv = curv.t.update(curv, fld, v)
                                e_st.env[var] = newv
                                if ('$param:' + var) in e_st.env and not e_st.env.get('$rebound:' + var): e_st.env['$param:' + var] = newv
                            else: e_st.env['$g.' + g] = v
                    for n_ in mod:
                        a_, b_ = st.env.get(n_), e_st.env.get(n_)
                        if isinstance(a_, Sym) and isinstance(b_, Sym) and a_.t is not None and b_.t is not None and a_.t != b_.t:
                            raise Unsupported(f'loop {ordinal}: `{n_}` has type {a_.t} at the loop head and {b_.t} at the end of the body (line {s.lineno})')
                    self.oblige(e_st, f'loop {ordinal} inv-preserved', next_done_inv(e_st), s.lineno)
                elif oc == 'break': results.append((e_st, 'normal'))
                else: results.append((e_st, oc))
        def exit_state(final_inv, extra=None):
            ex = st.copy(); self.havoc(ex, mod, f'X{ordinal}'); ex.pc.append(final_inv(ex))
            if extra is not None: ex.pc.append(extra(ex))          # negated loop condition of a `while`: known before the exit lemma is stated
            lpi = self.cur.loop_post_isolated.get(ordinal)
            if lpi is not None:
                n_inv = 2 if extra is not None else 1
                g = unwrap(lpi[1](NS(ex.env)))
                ob = Obligation(self.cur_key, f'loop {ordinal} exit-lemma (isolated)', list(ex.pc[-n_inv:]) + list(lpi[0](NS(ex.env)) if callable(lpi[0]) else lpi[0]), g, s.lineno); ob.isolated = True
                self.obls.append(ob); ex.pc.append(g)
            lp = self.cur.loop_post.get(ordinal)
            if lp is not None:
                gs = lp(NS(ex.env))
                for gi, g in enumerate(gs if isinstance(gs, (list, tuple)) else [gs]):        # a list: proved in order, each available to the next
                    g = unwrap(g); self.oblige(ex, f'loop {ordinal} exit-lemma' + (f' step {gi}' if isinstance(gs, (list, tuple)) else ''), g, s.lineno); ex.pc.append(g)
            return ex
        if isinstance(s, ast.While):
            self.oblige(st, f'loop {ordinal} inv-entry', INV(st, None), s.lineno)
            it = st.copy(); self.havoc(it, mod, f'L{ordinal}'); it.pc.append(INV(it, None))
            it.pc.append(self.truthy(self.ev(s.test, it)))
            finish(self.ex_block(s.body, it, path), lambda e_st: INV(e_st, None))
            ex = exit_state(lambda x: INV(x, None), extra=lambda x: Not(self.truthy(self.ev(s.test, x))))
            results.append((ex, 'normal')); return results
        if isinstance(s.iter, ast.Call) and isinstance(s.iter.func, ast.Name) and s.iter.func.id == 'range' and len(s.iter.args) in (1, 2) and not s.iter.keywords:
            # for i in range(n) / range(a, b): the counted loop; the invariant is given the number of the next iteration (a at entry, max(a, b) at exit)
            lo = Sym(TInt, IntVal(0)) if len(s.iter.args) == 1 else self.ev(s.iter.args[0], st); hi = self.ev(s.iter.args[-1], st)
            if lo.t is not TInt or hi.t is not TInt: raise Unsupported(f'range() of non-integers (line {s.lineno})')
            tn = self.target_names(s.target)
            self.oblige(st, f'loop {ordinal} inv-entry', INV(st, lo), s.lineno)
            it = st.copy(); self.havoc(it, mod - tn, f'L{ordinal}')
            i = TInt.fresh('idx'); it.pc += [i.term >= lo.term, i.term < hi.term, INV(it, i)]
            it.env['$done' + ordinal] = i; self.bind_target(s.target, i, it.env)
            finish(self.ex_block(s.body, it, path), lambda e_st: INV(e_st, Sym(TInt, i.term + 1)))
            results.append((exit_state(lambda x: INV(x, Sym(TInt, If(hi.term > lo.term, hi.term, lo.term)))), 'normal')); return results
        coll, binder = self.loop_iter(s, st); t = coll.t; tn = self.target_names(s.target)
        if isinstance(t, TSeq):
            self.oblige(st, f'loop {ordinal} inv-entry', INV(st, Sym(TInt, IntVal(0))), s.lineno)
            it = st.copy(); self.havoc(it, mod - tn, f'L{ordinal}')
            i = TInt.fresh('idx'); it.pc += [i.term >= 0, i.term < Length(coll.term), INV(it, i)]
            it.env['$done' + ordinal] = i
            elem = coll.term[i.term]
            if is_app_of(coll.term, Z3_OP_SEQ_EXTRACT):       # for x in seq[lo:]: the element is seq[lo + idx] (lo >= 0 is an obligation of the slice); avoids seq.extract under quantifiers
                elem = coll.term.arg(0)[coll.term.arg(1) + i.term]; it.pc.append(elem == coll.term[i.term])
            try: binder(Sym(t.elem, elem), it.env, i, it)
            except TypeError: binder(Sym(t.elem, elem), it.env, i)
            finish(self.ex_block(s.body, it, path), lambda e_st: INV(e_st, Sym(TInt, i.term + 1)))
            results.append((exit_state(lambda x: INV(x, Sym(TInt, Length(coll.term)))), 'normal')); return results
        if isinstance(t, (TSet, TBag)):
            self.oblige(st, f'loop {ordinal} inv-entry', INV(st, t.empty()), s.lineno)
            it = st.copy(); self.havoc(it, mod - tn, f'L{ordinal}')
            done = t.fresh(f'done{ordinal}'); q = Const(fresh_name('dq'), t.elem.sort()); x = t.elem.fresh('it')
            if isinstance(t, TSet):
                it.pc += [ForAll([q], Implies(Select(done.term, q), Select(coll.term, q))),
                          Select(coll.term, x.term), Not(Select(done.term, x.term))]
                done2 = Sym(t, Store(done.term, x.term, True))
            else:
                it.pc += [ForAll([q], And(Select(done.term, q) >= 0, Select(done.term, q) <= Select(coll.term, q))),
                          Select(done.term, x.term) < Select(coll.term, x.term)]
                done2 = Sym(t, Store(done.term, x.term, Select(done.term, x.term) + 1))
            it.pc.append(INV(it, done)); it.env['$done' + ordinal] = done; it.env['$key' + ordinal] = x; binder(x, it.env)       # $key: the element (for dict views: the key)
            finish(self.ex_block(s.body, it, path), lambda e_st: INV(e_st, done2))
            results.append((exit_state(lambda xst: INV(xst, coll)), 'normal')); return results
        raise Unsupported(f'for over {t} (line {s.lineno})')

    # ------------------------------------------------------------------ per-function driver
    def generate(self, key, fn):
        c = self.w.contracts[key]; self.cur, self.cur_key, self.obls = c, key, []; self.used = set()
        env = {n: t.fresh(n) for n, t in c.params}; old = dict(env)
        for n in old: env['$param:' + n] = old[n]; env['$old.' + n] = old[n]
        st = State(env, [])
        self.is_generator = any(isinstance(n_, (ast.Yield, ast.YieldFrom)) for n_ in ast.walk(fn))
        if self.is_generator:
            if not isinstance(c.ret, TBag): raise Unsupported('generator function: the contract must return a bag')
            env['$yield'] = c.ret.empty()
        o = NS(old); self.entry = old
        if c.requires is not None: st.pc.append(unwrap(c.requires(o)))
        for g, (gt, ginit) in c.ghost_state.items(): env['$g.' + g] = ginit(o)
        for (lname, from_axioms, formula) in getattr(self.w, 'derived', []):        # axioms that are consequences of other axioms: re-proved in isolation for every function that may use them
            ob = Obligation(key, f'derived axiom {lname}', list(from_axioms), unwrap(formula), fn.lineno); ob.isolated = True
            self.obls.append(ob)
        if c.entry_lemmas is not None:
            for (lname, local_axioms, formula) in c.entry_lemmas(o):
                ob = Obligation(key, f'entry lemma {lname}', list(st.pc[:1]) + list(local_axioms), unwrap(formula), fn.lineno); ob.isolated = True
                self.obls.append(ob); st.pc.append(unwrap(formula))
        for e_st, oc in self.ex_block(fn.body, st, []):
            if oc == 'normal': oc = ('return', NONE_SYM)
            if oc[0] == 'raise':
                cond = c.raises.get(oc[1])
                if cond is None: self.oblige(e_st, f'raise {oc[1]} unreachable', BoolVal(False), fn.lineno)
                else: self.oblige(e_st, f'raise {oc[1]} only when declared', cond(o), fn.lineno)
                continue
            res = oc[1]
            if self.is_generator: res = e_st.env['$yield']          # what a generator returns is the bag of what it yielded
            if c.hints is not None: e_st.pc += [unwrap(h) for h in c.hints(o, NS(e_st.env), res)]
            new = {n: e_st.env['$param:' + n] for n, _ in c.params}
            for exc, cond in c.raises.items():
                self.oblige(e_st, f'normal return excludes {exc}', Not(unwrap(cond(o))), fn.lineno)
            if res.t is TNone and isinstance(c.ret, TVal) and c.ret.name in self.w.none_consts: res = Sym(c.ret, self.w.none_consts[c.ret.name])     # `return None` of an Optional[value]
            if c.ret is not TNone and res.t != c.ret and res.t is not TNone:
                raise Unsupported(f'{key} returns {res.t}, contract says {c.ret}')
            if c.ensures is not None:
                if c.ghosts: post = c.ensures(o, res, NS(new), NS(c.ghost_witness(o, NS(e_st.env))))
                else: post = c.ensures(o, res, NS(new))
                self.oblige(e_st, 'postcondition', post, fn.lineno)
            for n, t in c.params:
                if n not in c.modifies and not (isinstance(t, TVal) or t in (TBool, TInt)):
                    self.oblige(e_st, f'frame: {n} unchanged', old[n].term == new[n].term, fn.lineno)
            # a contract may declare the return of a given constant dead (its postcondition says that the function does not return it): no vacuity alarm on that path
            if not (res.t is TBool and any(is_true(res.term) == dv and (is_true(res.term) or is_false(res.term)) for dv in getattr(c, 'dead_returns', ()))):
                self.oblige(e_st, 'canary', BoolVal(False), fn.lineno, canary=True)
        return self.obls
