"""Discharge obligations.

z3 (python API) first; `unknown` -> the same query through the SMT-LIB dump on the other installed solvers
(/usr/bin/z3 4.8.12, cvc5) -> finite-universe refutation pass (grounding).  Canaries (`false` at a path end) must
NOT be provable.  Statuses: proved / refuted / undecided; canaries: ok / vacuous.
`unknown`, timeouts and solver errors are never turned into `refuted`.
"""
import time, itertools, subprocess, tempfile, os
from z3 import *
from .ground import ground, collect_terms_of_sort
from .vtypes import Sym, TVal, TSet, TBag, TSeq, TRec, TRel, TBool, TInt, TNone


def _cli(smt2, cmd, secs):
    with tempfile.NamedTemporaryFile('w', suffix='.smt2', delete=False) as f:
        f.write(smt2); path = f.name
    try:
        out = subprocess.run(cmd + [path], capture_output=True, text=True, timeout=secs + 5).stdout.strip().split('\n')[0]
    except Exception:
        out = 'error'
    finally:
        os.unlink(path)
    return out


def second_opinion(axioms, hyps, goal, secs=6):
    """returns ('unsat'|'sat'|'unknown', backend)"""
    s = Solver(); s.add(axioms); s.add(hyps); s.add(Not(goal))
    try: smt2 = '(set-logic ALL)\n' + s.to_smt2()
    except Exception: return 'unknown', None
    for name, cmd in (('z3-4.8.12', ['/usr/bin/z3', f'-T:{secs}']),
                      ('cvc5', ['/usr/bin/cvc5', f'--tlimit={secs * 1000}', '--full-saturate-quant'])):
        if not os.path.exists(cmd[0]): continue
        r = _cli(smt2, cmd, secs)
        if r == 'unsat': return r, name          # only `unsat` is taken from a second solver; models come from grounding
    return 'unknown', None


def _decls(e, acc, seen):
    if e.get_id() in seen: return
    seen.add(e.get_id())
    if is_quantifier(e): _decls(e.body(), acc, seen); return
    if is_app(e):
        d = e.decl()
        if d.kind() == Z3_OP_UNINTERPRETED and e.num_args() > 0: acc.add(d.name())
        for c in e.children(): _decls(c, acc, seen)


def relevant_axioms(axioms, core):
    """axioms that (transitively) talk about a function symbol of the query; the others define symbols the query does not mention and
    cannot prevent a model of it from existing (definitional / closure axioms), so they are left out of the *refutation* pass only"""
    used = set(); seen = set()
    for f in core: _decls(f, used, seen)
    ax = [(a, (lambda s_: (_decls(a, s_, set()), s_)[1])(set())) for a in axioms]
    chosen = []; changed = True
    while changed:
        changed = False
        for a, ds in ax:
            if not any(a is c for c in chosen) and (ds & used or not ds):
                chosen.append(a); used |= ds; changed = True
    return chosen


def refute_by_grounding(o, axioms, sorts, sizes=(2, 3), budget=8.0):
    """finite-universe pass: quantifiers over the uninterpreted value sorts are expanded over k fresh constants,
    quantifiers over relation/set sorts are instantiated at the ground terms of that sort present in the query.
    A model is a *candidate* counter-model (it is replayed natively before being called a failing input)."""
    core = list(o.hyps) + [Not(o.goal)]
    fs = relevant_axioms(axioms, core) + core
    t0 = time.time()
    for k in sizes:
        try:
            U = {s: [Const(f'u{k}_{s.name()}_{i}', s) for i in range(k)] for s in sorts}
            uni = dict(U)
            qsorts = set()
            def qs(e, seen=set()):
                if e.get_id() in seen: return
                seen.add(e.get_id())
                if is_quantifier(e):
                    for i in range(e.num_vars()): qsorts.add(e.var_sort(i))
                    qs(e.body(), seen)
                elif is_app(e):
                    for c in e.children(): qs(c, seen)
            for f in fs: qs(f)
            for s in qsorts:
                if s not in uni:
                    if s.kind() != Z3_ARRAY_SORT: continue        # Int, sequences, records: the binder is kept
                    terms = collect_terms_of_sort(fs, s)
                    if terms: uni[s] = terms[:8]
            g = [ground(f, uni) for f in fs]
            dc = []
            for s in sorts:
                for c in collect_terms_of_sort(fs, s):
                    if c.num_args() == 0: dc.append(Or([c == u for u in U[s]]))
            sol = Solver(); sol.set(timeout=int(max(1.0, budget - (time.time() - t0)) * 1000)); sol.add(g); sol.add(dc)
            if sol.check() == sat:
                return sol.model(), U
        except (ValueError, Z3Exception, RecursionError, MemoryError):
            return None, None
        if time.time() - t0 > budget: break
    return None, None


def discharge(obls, axioms, timeout_ms=10000, canary_ms=1500, ground_sorts=(), second=True, reseed=True):
    world_axioms = axioms
    for o in obls:
        axioms = [] if getattr(o, 'isolated', False) else world_axioms
        s = Solver(); s.set(timeout=canary_ms if o.canary else timeout_ms)
        s.add(axioms); s.add(o.hyps); s.add(Not(o.goal))
        t = time.time()
        try: r = s.check()
        except (Z3Exception, MemoryError) as ex:          # out of memory / internal error of the solver: undecided, never a verdict
            r = unknown; o.reason = f'solver exception: {str(ex)[:120]}'
        o.secs = time.time() - t; o.backend = 'z3-' + get_version_string()
        if o.canary:
            o.status = 'vacuous' if r == unsat else 'ok'
            continue
        if r == unsat: o.status = 'proved'
        elif r == sat: o.status = 'refuted'; o.model = s.model(); o.universe = None
        else:
            o.status = 'undecided'; o.reason = getattr(o, 'reason', None) or s.reason_unknown()
            for seed in ((7, 23) if reseed else ()):              # quantifier instantiation is seed-sensitive: two more attempts before other back ends
                s2 = Solver(); s2.set(timeout=timeout_ms, random_seed=seed); s2.set('smt.random_seed', seed)
                s2.add(axioms); s2.add(o.hyps); s2.add(Not(o.goal))
                try: r2 = s2.check()
                except (Z3Exception, MemoryError): r2 = unknown
                if r2 == unsat: o.status = 'proved'; break
                if r2 == sat: o.status = 'refuted'; o.model = s2.model(); o.universe = None; break
            if o.status != 'undecided':
                o.secs = time.time() - t; continue
            if second:
                r2, be = second_opinion(axioms, o.hyps, o.goal)
                if r2 == 'unsat': o.status = 'proved'; o.backend = be
            if o.status == 'undecided' and ground_sorts:
                m, U = refute_by_grounding(o, axioms, ground_sorts)
                if m is not None: o.status = 'refuted'; o.model = m; o.universe = U; o.backend = 'z3 (finite grounding)'
            o.secs = time.time() - t
    return obls


def summary(obls):
    real = [o for o in obls if not o.canary]
    return {'obligations': len(real), 'proved': sum(o.status == 'proved' for o in real),
            'refuted': [o.name for o in real if o.status == 'refuted'],
            'undecided': [o.name for o in real if o.status == 'undecided'],
            'vacuous': [o.name for o in obls if o.canary and o.status == 'vacuous'],
            'canaries': sum(1 for o in obls if o.canary),
            'secs': round(sum(o.secs for o in obls), 3)}


# ---------------------------------------------------------------------------------------------- model -> JSON
def concretize(sym, model, universe):
    """value of a symbolic entry parameter in a (counter-)model, as plain JSON over named universe elements"""
    def ev(t): return model.eval(t, model_completion=True)
    def elems(sort):
        if universe and sort in universe: return universe[sort]
        u = model.get_universe(sort)
        return list(u) if u else []
    def name(v): return str(ev(v))
    t = sym.t
    if t is TBool: return is_true(ev(sym.term))
    if t is TInt:
        v = ev(sym.term); return v.as_long() if is_int_value(v) else str(v)
    if isinstance(t, TVal): return name(sym.term)
    if isinstance(t, TSet) and isinstance(t.elem, TVal):
        return [name(u) for u in elems(t.elem.sort()) if is_true(ev(Select(sym.term, u)))]
    if isinstance(t, TBag) and isinstance(t.elem, TVal):
        out = []
        for u in elems(t.elem.sort()):
            n = ev(Select(sym.term, u))
            if is_int_value(n) and n.as_long() > 0: out += [name(u)] * min(n.as_long(), 3)
        return out
    if isinstance(t, TRel):
        doms = [elems(d.sort()) for d in t.doms]
        return [[name(x) for x in combo] for combo in itertools.product(*doms) if is_true(ev(Select(sym.term, *combo)))]
    if isinstance(t, TSeq):
        v = ev(sym.term)
        try:
            n = ev(Length(sym.term)).as_long()
            return [name(sym.term[i]) for i in range(min(n, 8))]
        except Exception: return str(v)
    if isinstance(t, TRec):
        return {f: concretize(t.get(sym, f), model, universe) for f, _ in t.fields}
    return str(ev(sym.term))[:200]
