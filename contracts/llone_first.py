"""LLOneParser.get_first_set and _initialize_first_set (C14): the FIRST table is the textbook least fixpoint.

Spec: FT(P, Tm) : symbol -> set, the least table with  t in FT[t] for every terminal t,  epsilon in FT[A] for every production A -> (empty),
and  FSP(FT, alpha) inside FT[A]  for every production A -> alpha (alpha not empty), where FSP is FIRST of a sequence relative to a table
(contracts/llone_table.py; proved for _get_first_set_production in contracts/llone.py).  Proved: get_first_set() returns exactly FT, for every
grammar (terminals are not heads of productions) and every order of the work list.
Argument: (S) every entry of the table under construction is inside FT (monotonicity of FSP in the table - an entry lemma); (C) every
non-empty production whose head is not queued (or being processed) already has FSP(table, body) inside table[head] - a change of table[h]
only matters to productions whose body contains h (dependency lemma, entry lemma), and exactly their heads are queued (contract of
_get_triggers, proved in contracts/llone.py); at exit nothing is queued, so the table is closed and the induction principle of the least
table gives FT inside the table.
`len(table[h]) != length_before` after a union: |S| is an uninterpreted cardinality with the one fact "a subset of the same cardinality is the
same set" (finite sets).
"""
import ast
from z3 import *
from pyvc.vtypes import *
from pyvc.engine import World, Contract, NS, Unsupported
import contracts.cfg as C
import contracts.llone as L
import contracts.llone_table as T

W = World()
Ob, SetOb, SeqOb, Prod, SetProd, BagProd, CFGT, BagOb = C.Ob, C.SetOb, C.SeqOb, C.Prod, C.SetProd, C.BagProd, C.CFGT, TBag(C.Ob)
head, body, InBody, EPSOB = C.head, C.body, C.InBody, L.EPSOB
MapOS, MapOB, LLP, FSP, F = L.MapOS, L.MapOB, L.LLP, T.FSP, L.F
W.axioms += Prod.axioms() + [L.INBODY_DEF, T.FSP_DEF]
W.consts['None'] = NONE_SYM
for key_, f_ in C.W.fields.items(): W.fields[key_] = f_
W.seq_member = lambda seqterm, xterm: InBody(seqterm, xterm)
W.ctors['Epsilon'] = lambda eng, e, st: Sym(Ob, EPSOB)
x, y, X_, h_ = Consts('x y X_ h_', Ob.sort()); pr, pr2 = Consts('pr pr2', Prod.sort()); k_, j_ = Consts('k_ j_', IntSort()); sq = Const('sq', SeqOb.sort())
f1, f2 = Consts('f1 f2', MapOS.sort()); S1, S2 = Consts('S1 S2', SetOb.sort())

# ------------------------------------------------------------------ |S|
Card = Function('Card', SetOb.sort(), IntSort())
W.card = lambda s: Card(s.term)
W.axioms.append(ForAll([S1, S2], Implies(And(ForAll([x], Implies(Select(S1, x), Select(S2, x))), Card(S1) == Card(S2)), ForAll([x], Implies(Select(S2, x), Select(S1, x)))), patterns=[MultiPattern(Card(S1), Card(S2))]))

# ------------------------------------------------------------------ SetQueue (set view; representation proved in contracts/setqueue.py)
SQ = TRec('SetQueue', [('Q', SetOb)])
W.ctors['SetQueue'] = lambda eng, e, st: SQ.make(Q=SetOb.empty())
W.contract(Contract('SetQueue.append', [('self', SQ), ('value', Ob)], ret=TNone, modifies=('self',), ensures=lambda o, r, n: n.self.Q == Store(o.self.Q.term, o.value.term, True)))
W.contract(Contract('SetQueue.pop', [('self', SQ)], ret=Ob, modifies=('self',), requires=lambda o: Exists([x], o.self.Q[x]),
                    ensures=lambda o, r, n: And(o.self.Q[r], n.self.Q == Store(o.self.Q.term, r.term, False))))
W.contract(Contract('SetQueue.__bool__', [('self', SQ)], ret=TBool, pure=lambda o: Sym(TBool, Exists([x], o.self.Q[x]))))

# ------------------------------------------------------------------ the least table
FTD = Function('FIRST_table', SetProd.sort(), SetOb.sort(), MapOS.sort())          # the least table, as a dictionary read with .get(s, set())
def FT(P, Tm): return Lambda([X_], F(Sym(MapOS, FTD(P, Tm)), X_))
def closed(P, Tm, d):
    """d (a dictionary term) contains t in d[t] for terminals, epsilon in d[A] for A -> (empty), FSP(d, alpha) in d[A] for A -> alpha"""
    D = Sym(MapOS, d)
    return And(ForAll([x], Implies(Select(Tm, x), Select(F(D, x), x))),
               ForAll([pr], Implies(And(Select(P, pr), Length(body(pr)) == 0), Select(F(D, head(pr)), EPSOB))),
               ForAll([pr, x], Implies(And(Select(P, pr), Length(body(pr)) > 0, Select(FSP(d, body(pr)), x)), Select(F(D, head(pr)), x))))
P_, Tm_ = Const('P_', SetProd.sort()), Const('Tm_', SetOb.sort())
FT_CLOSED = ForAll([P_, Tm_], closed(P_, Tm_, FTD(P_, Tm_)))
def ft_induction(P, Tm, d):
    """sound for the least table: a closed dictionary contains FT pointwise"""
    return Implies(closed(P, Tm, d), ForAll([X_, x], Implies(Select(F(Sym(MapOS, FTD(P, Tm)), X_), x), Select(F(Sym(MapOS, d), X_), x))))
W.axioms.append(FT_CLOSED)
def le(fa, fb): return ForAll([X_, x], Implies(Select(F(Sym(MapOS, fa), X_), x), Select(F(Sym(MapOS, fb), X_), x)))
MONO = ForAll([f1, f2, sq], Implies(le(f1, f2), ForAll([x], Implies(Select(FSP(f1, sq), x), Select(FSP(f2, sq), x)))), patterns=[MultiPattern(FSP(f1, sq), FSP(f2, sq))])
DEP = ForAll([f1, f2, sq], Implies(ForAll([k_], Implies(And(0 <= k_, k_ < Length(sq)), F(Sym(MapOS, f1), sq[k_]) == F(Sym(MapOS, f2), sq[k_]))),
                                   ForAll([x], Select(FSP(f1, sq), x) == Select(FSP(f2, sq), x))))
NONEMPTY = ForAll([f1, sq, x], Implies(Select(FSP(f1, sq), x), Exists([k_, y], And(0 <= k_, k_ < Length(sq), Select(F(Sym(MapOS, f1), sq[k_]), y)))))

# ------------------------------------------------------------------ callees
def G_(e): return e.self._cfg
def tg_all(G, TG): return L.tg_spec(TG, lambda p_, kk: G.P[p_])
W.contract(Contract('LLOneParser._get_triggers', [('self', LLP)], ret=MapOB, ensures=lambda o, r, n: tg_all(o.self._cfg, r)))
W.contract(Contract('LLOneParser._get_first_set_production', [('self', LLP), ('production', Prod), ('first_set', MapOS)], ret=SetOb,
                    pure=lambda o: Sym(SetOb, FSP(o.first_set.term, body(o.production.term)))))
MapOP = C.MapOP
W.contract(Contract('fn.get_productions_d', [('productions', SetProd)], ret=MapOP,          # proved in contracts/cfg.py for a list argument; the same loop runs over a set here
    ensures=lambda o, r, n: C.pd_spec(r, lambda p_: o.productions[p_])))

# ------------------------------------------------------------------ invariants
def is_head(G, h): return Exists([pr], And(G.P[pr], head(pr) == h))
def empty_head(G, h): return Exists([pr], And(G.P[pr], head(pr) == h, Length(body(pr)) == 0))
def pre_ok(G): return ForAll([pr], Implies(G.P[pr], Not(G.Tm[head(pr)])))          # terminals are not heads
def sound(G, fs): return ForAll([X_, x], Implies(Select(F(fs, X_), x), Select(F(Sym(MapOS, FTD(G.P.term, G.Tm.term)), X_), x)))
def base(G, fs, doneT=None, doneP=None):
    dT = (lambda t: G.Tm[t]) if doneT is None else doneT; dP = (lambda p_: G.P[p_]) if doneP is None else doneP
    return And(ForAll([x], Implies(dT(x), Select(F(fs, x), x))), ForAll([pr], Implies(And(dP(pr), Length(body(pr)) == 0), Select(F(fs, head(pr)), EPSOB))))
def ok(fs, Q, p_): return Or(Select(Q, head(p_)), ForAll([x], Implies(Select(FSP(fs.term, body(p_)), x), Select(F(fs, head(p_)), x))))
def q_heads(G, Q): return ForAll([h_], Implies(Select(Q, h_), is_head(G, h_)))
fm = Const('fm', MapOS.sort()); S0 = Const('S0', SetOb.sort())
def upd(f, h, S):
    fs = Sym(MapOS, f)
    return MapOS.make(dom=Sym(SetOb, Store(MapOS.get(fs, 'dom').term, h, True)), val=Sym(MapOS.ftype('val'), Store(MapOS.get(fs, 'val').term, h, S))).term
UPD = ForAll([fm, h_, S0, sq], Implies(Not(InBody(sq, h_)), ForAll([x], Select(FSP(upd(fm, h_, S0), sq), x) == Select(FSP(fm, sq), x))), patterns=[FSP(upd(fm, h_, S0), sq)])
SAME = ForAll([f1, f2, sq], Implies(ForAll([X_, y], Select(F(Sym(MapOS, f1), X_), y) == Select(F(Sym(MapOS, f2), X_), y)), ForAll([x], Select(FSP(f1, sq), x) == Select(FSP(f2, sq), x))),
              patterns=[MultiPattern(FSP(f1, sq), FSP(f2, sq))])
LEMMAS = lambda o: [('FSP is monotone in the table', [T.FSP_DEF], MONO), ('FSP depends on the entries of the body symbols only', [T.FSP_DEF], DEP),
                    ('a member of FSP comes from a non-empty entry', [T.FSP_DEF], NONEMPTY),
                    ('changing the entry of a symbol that does not occur in the body does not change FSP', [T.FSP_DEF, L.INBODY_DEF], UPD),
                    ('two dictionaries that read the same give the same FSP', [T.FSP_DEF], SAME)]

# _initialize_first_set
def init_c0(G, fs, Q):
    """a non-empty production one of whose body symbols already has an entry is queued"""
    return ForAll([pr, k_, y], Implies(And(G.P[pr], 0 <= k_, k_ < Length(body(pr)), Select(F(fs, body(pr)[k_]), y)), Select(Q, head(pr))))
def init_facts(G, fs, Q, doneT, doneP, TG, pend=None):
    """entries so far: {t} for the terminals done, {epsilon} for the heads of the empty productions done; queued = heads of the productions containing a
    symbol that has an entry (pend: the symbol whose triggers are being queued, with the part of its trigger list already handled)"""
    has = lambda s_: Or(doneT(s_), Exists([pr2], And(doneP(pr2), Length(body(pr2)) == 0, head(pr2) == s_)))
    notpend = (lambda s_, hd: BoolVal(True)) if pend is None else (lambda s_, hd: Or(s_ != pend[0], pend[1](hd)))
    return And(ForAll([X_, x], Implies(Select(F(fs, X_), x), Or(And(doneT(X_), x == X_), And(x == EPSOB, Exists([pr2], And(doneP(pr2), Length(body(pr2)) == 0, head(pr2) == X_)))))),
               ForAll([x], Implies(doneT(x), Select(F(fs, x), x))), ForAll([pr], Implies(And(doneP(pr), Length(body(pr)) == 0), Select(F(fs, head(pr)), EPSOB))),
               q_heads(G, Q),
               ForAll([pr, k_], Implies(And(G.P[pr], 0 <= k_, k_ < Length(body(pr)), has(body(pr)[k_]), notpend(body(pr)[k_], head(pr))), Select(Q, head(pr)))))
RET = TTuple(MapOS, SQ)
W.contract(Contract('LLOneParser._initialize_first_set', [('self', LLP), ('triggers', MapOB)], ret=RET,
    requires=lambda o: And(tg_all(o.self._cfg, o.triggers), pre_ok(o.self._cfg)),
    ensures=lambda o, r, n: (lambda G, fs, Q: And(sound(G, fs), base(G, fs), q_heads(G, Q.term), init_c0(G, fs, Q.term)))(o.self._cfg, RET.get(r, '_0'), RET.get(r, '_1').Q),
    locals={'first_set': MapOS},
    entry_lemmas=LEMMAS,
    loops={'0': lambda e, done: init_facts(G_(e), e.first_set, e.to_process.Q.term, lambda t: done[t], lambda p_: BoolVal(False), e.triggers),
           '0.0': lambda e, done: init_facts(G_(e), e.first_set, e.to_process.Q.term, lambda t: Or(e.get('$done0')[t], t == e.terminal.term), lambda p_: BoolVal(False), e.triggers,
                                             (e.terminal.term, lambda hd: done[hd] > 0)),
           '1': lambda e, done: init_facts(G_(e), e.first_set, e.to_process.Q.term, lambda t: G_(e).Tm[t], lambda p_: done[p_], e.triggers),
           '1.0': lambda e, done: And(Length(body(e.production.term)) == 0,
                                      init_facts(G_(e), e.first_set, e.to_process.Q.term, lambda t: G_(e).Tm[t], lambda p_: Or(e.get('$done1')[p_], p_ == e.production.term), e.triggers,
                                                 (head(e.production.term), lambda hd: done[hd] > 0)))}))

# get_first_set
def pd_all(G, M): return C.pd_spec(M, lambda p_: G.P[p_])
def inv_common(e):
    G = G_(e)
    return And(tg_all(G, e.triggers), pd_all(G, e.production_by_head), sound(G, e.first_set), base(G, e.first_set), q_heads(G, e.to_process.Q.term))
def all_ok(e, exc=lambda p_: BoolVal(False)):
    G = G_(e)
    return ForAll([pr], Implies(And(G.P[pr], Length(body(pr)) > 0), Or(ok(e.first_set, e.to_process.Q.term, pr), exc(pr))))
def pending(e, done): return lambda p_: And(head(p_) == e.current.term, done[p_] == 0)
W.contract(Contract('LLOneParser.get_first_set', [('self', LLP)], ret=MapOS, requires=lambda o: pre_ok(o.self._cfg),
    ensures=lambda o, r, n: ForAll([X_, x], Select(F(r, X_), x) == Select(F(Sym(MapOS, FTD(o.self._cfg.P.term, o.self._cfg.Tm.term)), X_), x)),
    entry_lemmas=LEMMAS,
    at={'length_before = len(': {'ghost': lambda e: {'OLD': e.first_set}},          # the table before the update of first_set[head]
        'if len(first_set[production.head]) != length_before': {'lemmas': lambda e: (lambda old, new, h, same: [
            ForAll([x], Implies(Select(FSP(old.term, body(e.production.term)), x), Select(FSP(FTD(G_(e).P.term, G_(e).Tm.term), body(e.production.term)), x))),   # MONO, from (S)
            ForAll([x], Implies(Select(FSP(FTD(G_(e).P.term, G_(e).Tm.term), body(e.production.term)), x), Select(F(Sym(MapOS, FTD(G_(e).P.term, G_(e).Tm.term)), h), x))),   # FT is closed
            ForAll([x], Implies(Select(FSP(old.term, body(e.production.term)), x), Select(F(Sym(MapOS, FTD(G_(e).P.term, G_(e).Tm.term)), h), x))),   # so what is added is in FIRST
            sound(G_(e), new),
            Implies(same, ForAll([x], Select(F(new, h), x) == Select(F(old, h), x))),                                        # same cardinality after a union: same set
            Implies(same, ForAll([X_, y], Select(F(new, X_), y) == Select(F(old, X_), y))),                                  # so the two tables read the same
            Implies(same, ForAll([pr, x], Select(FSP(new.term, body(pr)), x) == Select(FSP(old.term, body(pr)), x))),       # and give the same FSP (lemma SAME)
            ForAll([X_, y], Implies(Select(F(old, X_), y), Select(F(new, X_), y))),                                          # in any case the table only grows ...
            ForAll([pr, x], Implies(Not(InBody(body(pr), h)), Select(FSP(new.term, body(pr)), x) == Select(FSP(old.term, body(pr)), x)))])(   # ... and FSP changes only for bodies containing h (lemma UPD)
                e.get('$g.OLD'), e.first_set, head(e.production.term), Card(F(e.first_set, head(e.production.term))) == e.length_before.term)}},
    loop_post={'0': lambda e: closed(G_(e).P.term, G_(e).Tm.term, e.first_set.term)},          # nothing queued: the table is closed
    hints=lambda o, e, r: [ft_induction(o.self._cfg.P.term, o.self._cfg.Tm.term, r.term)],
    loops={'0': lambda e, done: And(inv_common(e), all_ok(e)),
           '0.0': lambda e, done: And(inv_common(e), is_head(G_(e), e.current.term), ForAll([pr], done[pr] >= 0), all_ok(e, pending(e, done))),
           '0.0.0': lambda e, done: (lambda G, h: And(inv_common(e), is_head(G, e.current.term), h == e.current.term, Length(body(e.production.term)) > 0, G.P[e.production.term],
                                                     ForAll([pr], e.get('$done0.0')[pr] >= 0),
                                                     ForAll([pr], Implies(And(G.P[pr], Length(body(pr)) > 0),
                                                                          Or(ok(e.first_set, e.to_process.Q.term, pr), pending(e, e.get('$done0.0'))(pr) if False else And(head(pr) == e.current.term, e.get('$done0.0')[pr] == 0, pr != e.production.term),
                                                                             And(InBody(body(pr), h), done[head(pr)] == 0))))))(G_(e), head(e.production.term))}))

W.ground_sorts = (Ob.sort(),)
W.special = {}
_P = 'pyformlang/cfg/llone_parser.py'
TARGETS = {'LLOneParser._initialize_first_set': (_P, 'LLOneParser._initialize_first_set'), 'LLOneParser.get_first_set': (_P, 'LLOneParser.get_first_set')}
VERIFIED_ELSEWHERE = {'LLOneParser._get_triggers': 'contracts.llone', 'LLOneParser._get_first_set_production': 'contracts.llone (postcondition = FSP_DEF)', 'fn.get_productions_d': 'contracts.cfg (list argument)',
                      'SetQueue.append': 'contracts.setqueue', 'SetQueue.pop': 'contracts.setqueue', 'SetQueue.__bool__': 'contracts.setqueue'}
SMOKE = [
    ('LLOneParser.get_first_set', _P, "                if len(first_set[production.head]) != length_before:\n                    for triggered in triggers.get(production.head, []):\n                        to_process.append(triggered)\n        return first_set", "                if len(first_set[production.head]) == length_before:\n                    for triggered in triggers.get(production.head, []):\n                        to_process.append(triggered)\n        return first_set", 'break'),
    ('LLOneParser.get_first_set', _P, "                first_set[production.head] = first_set.get(\n                    production.head, set()).union(\n                        first_set_temp)", "                first_set[production.head] = first_set_temp", 'break'),
    ('LLOneParser._initialize_first_set', _P, "            first_set[terminal] = {terminal}\n            for triggered in triggers.get(terminal, []):\n                to_process.append(triggered)", "            first_set[terminal] = {terminal}", 'break'),
    ('LLOneParser._initialize_first_set', _P, "                first_set[production.head] = {Epsilon()}", "                first_set[production.head] = set()", 'break'),
]
