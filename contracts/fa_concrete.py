"""Concrete representation level: transition-function classes against the abstract view T."""
from z3 import *
from pyvc.vtypes import *
from pyvc.engine import Contract, NS
from contracts.fa import W, St, Sy, SetSt, RelT, EPS, p, a, q, r_

InnerMap = TMap(Sy, SetSt)
OuterMap = TMap(St, InnerMap)
NTF = TRec('NTF', [('_transitions', OuterMap)])
def view(tf):
    """T(p,a,q) of a NondeterministicTransitionFunction object"""
    m = tf._transitions
    def T(pp, aa, qq):
        inner = Sym(InnerMap, Select(OuterMap.get(m, 'val').term, pp))
        return And(Select(OuterMap.get(m, 'dom').term, pp), Select(InnerMap.get(inner, 'dom').term, aa),
                   Select(Select(InnerMap.get(inner, 'val').term, aa), qq))
    return T
PAR = [('self', NTF), ('s_from', St), ('symb_by', Sy), ('s_to', St)]
def is_edge(o, pp, aa, qq): return And(pp == o.s_from.term, aa == o.symb_by.term, qq == o.s_to.term)
W.contract(Contract('NTF.add_transition', PAR, ret=TInt, modifies=('self',),
    ensures=lambda o, r, n: And(r.term == 1,
        ForAll([p, a, q], view(n.self)(p, a, q) == Or(view(o.self)(p, a, q), is_edge(o, p, a, q))))))
W.contract(Contract('NTF.remove_transition', PAR, ret=TInt, modifies=('self',),
    ensures=lambda o, r, n: And(r.term == If(view(o.self)(o.s_from.term, o.symb_by.term, o.s_to.term), 1, 0),
        ForAll([p, a, q], view(n.self)(p, a, q) == And(view(o.self)(p, a, q), Not(is_edge(o, p, a, q)))))))
W.contract(Contract('NTF.__call__', PAR[:3], ret=SetSt,
    requires=lambda o: BoolVal(True),
    ensures=lambda o, r, n: ForAll([q], r[q] == view(o.self)(o.s_from.term, o.symb_by.term, q))))
W.contract(Contract('NTF.is_deterministic', [('self', NTF)], ret=TBool,
    ensures=lambda o, r, n: r.term == ForAll([p, a, q, r_], Implies(And(view(o.self)(p, a, q), view(o.self)(p, a, r_)), q == r_)),
    loops={}))
