"""Concrete representation level: transition-function classes against the abstract view T."""
from z3 import *
from pyvc.vtypes import *
from pyvc.engine import Contract, NS
from contracts.fa import W, St, Sy, SetSt, RelT, EPS, p, a, q, r_

InnerMap = TMap(Sy, SetSt)
OuterMap = TMap(St, InnerMap)
NTF = TRec('NTF', [('_transitions', OuterMap)])
def view(tf):
    """T(p,a,q) of a NondeterministicTransitionFunction object"""
    m = tf._transitions
    def T(pp, aa, qq):
        inner = Sym(InnerMap, Select(OuterMap.get(m, 'val').term, pp))
        return And(Select(OuterMap.get(m, 'dom').term, pp), Select(InnerMap.get(inner, 'dom').term, aa),
                   Select(Select(InnerMap.get(inner, 'val').term, aa), qq))
    return T
PAR = [('self', NTF), ('s_from', St), ('symb_by', Sy), ('s_to', St)]
def is_edge(o, pp, aa, qq): return And(pp == o.s_from.term, aa == o.symb_by.term, qq == o.s_to.term)
W.contract(Contract('NTF.add_transition', PAR, ret=TInt, modifies=('self',),
    ensures=lambda o, r, n: And(r.term == 1,
        ForAll([p, a, q], view(n.self)(p, a, q) == Or(view(o.self)(p, a, q), is_edge(o, p, a, q))))))
W.contract(Contract('NTF.remove_transition', PAR, ret=TInt, modifies=('self',),
    ensures=lambda o, r, n: And(r.term == If(view(o.self)(o.s_from.term, o.symb_by.term, o.s_to.term), 1, 0),
        ForAll([p, a, q], view(n.self)(p, a, q) == And(view(o.self)(p, a, q), Not(is_edge(o, p, a, q)))))))
from contracts.fa import NONE_SY
W.contract(Contract('NTF.__call__', PAR[:3], ret=SetSt,
    requires=lambda o: o.symb_by.term != NONE_SY,          # the one-argument form (symb_by=None: all items of a state) is outside the model
    ensures=lambda o, r, n: ForAll([q], r[q] == view(o.self)(o.s_from.term, o.symb_by.term, q))))
W.contract(Contract('NTF.is_deterministic', [('self', NTF)], ret=TBool,
    ensures=lambda o, r, n: r.term == ForAll([p, a, q, r_], Implies(And(view(o.self)(p, a, q), view(o.self)(p, a, r_)), q == r_)),
    loops={'0': lambda e, done: ForAll([p, a, q, r_], Implies(And(done[p], view(e.self)(p, a, q), view(e.self)(p, a, r_)), q == r_)),
           '0.0': lambda e, done: And(ForAll([p, a, q, r_], Implies(And(e.get('$done0')[p], view(e.self)(p, a, q), view(e.self)(p, a, r_)), q == r_)),
                                      ForAll([a, q, r_], Implies(And(done[a], Select(InnerMap.get(e.transitions, 'dom').term, a),
                                                                     Select(Select(InnerMap.get(e.transitions, 'val').term, a), q),
                                                                     Select(Select(InnerMap.get(e.transitions, 'val').term, a), r_)), q == r_)))}))

# ------------------------------------------------------------------ TransitionFunction (deterministic): dict of dict to a single state
from contracts.fa import SeqSt, NONE_ST
DInner = TMap(Sy, St); DOuter = TMap(St, DInner)
DTF = TRec('DTF', [('_transitions', DOuter)])
def dview(tf):
    m = tf._transitions
    def T(pp, aa, qq):
        inner = Sym(DInner, Select(DOuter.get(m, 'val').term, pp))
        return And(Select(DOuter.get(m, 'dom').term, pp), Select(DInner.get(inner, 'dom').term, aa), Select(DInner.get(inner, 'val').term, aa) == qq)
    return T
DPAR = [('self', DTF), ('s_from', St), ('symb_by', Sy), ('s_to', St)]
def has_other(o): return Exists([r_], And(dview(o.self)(o.s_from.term, o.symb_by.term, r_), r_ != o.s_to.term))
W.contract(Contract('DTF.add_transition', DPAR, ret=TInt, modifies=('self',),
    raises={'InvalidEpsilonTransition': lambda o: o.symb_by == EPS,
            'DuplicateTransitionError': lambda o: And(o.symb_by.term != EPS, has_other(o))},
    ensures=lambda o, r, n: And(r.term == 1, ForAll([p, a, q], dview(n.self)(p, a, q) == Or(dview(o.self)(p, a, q), is_edge(o, p, a, q))))))
W.contract(Contract('DTF.remove_transition', DPAR, ret=TInt, modifies=('self',),
    ensures=lambda o, r, n: And(r.term == If(dview(o.self)(o.s_from.term, o.symb_by.term, o.s_to.term), 1, 0),
        ForAll([p, a, q], dview(n.self)(p, a, q) == And(dview(o.self)(p, a, q), Not(is_edge(o, p, a, q)))))))
W.contract(Contract('DTF.__call__', DPAR[:3], ret=SeqSt, requires=lambda o: o.symb_by.term != NONE_SY,
    ensures=lambda o, r, n: Or(And(Length(r.term) == 0, ForAll([q], Not(dview(o.self)(o.s_from.term, o.symb_by.term, q)))),
                               And(Length(r.term) == 1, dview(o.self)(o.s_from.term, o.symb_by.term, r.term[0])))))

_P = 'pyformlang/finite_automaton/nondeterministic_transition_function.py'
TARGETS = {k: (_P, 'NondeterministicTransitionFunction.' + k.split('.', 1)[1]) for k in
           ['NTF.add_transition', 'NTF.remove_transition', 'NTF.__call__', 'NTF.is_deterministic']}
_PT = 'pyformlang/finite_automaton/transition_function.py'
TARGETS.update({k: (_PT, 'TransitionFunction.' + k.split('.', 1)[1]) for k in ['DTF.add_transition', 'DTF.remove_transition', 'DTF.__call__']})

from contracts.fa import VERIFIED_ELSEWHERE

_TFP = 'pyformlang/finite_automaton/transition_function.py'
SMOKE = [
    ('DTF.add_transition', _TFP, "                if self._transitions[s_from][symb_by] != s_to:", "                if self._transitions[s_from][symb_by] == s_to:", 'break'),
    ('DTF.__call__', _TFP, "                    return [self._transitions[s_from][symb_by]]", "                    return [s_from]", 'break'),
    ('DTF.remove_transition', _TFP, "                s_to == self._transitions[s_from][symb_by]:", "                True:", 'break'),
]
