"""Chomsky normal form, step "terminals out of long bodies" (C09): CFG._get_productions_with_only_single_terminals.

Proved: the result consists of exactly (a) the productions with a body of length 1, unchanged, (b) every other production with each terminal t
of its body replaced by a variable T2V[t], and (c) one production T2V[t] -> t for every terminal t that was replaced somewhere; T2V (ghost
result: the dictionary term_to_var) maps the terminals injectively to variables that are not variables of the grammar - whatever names the
grammar uses (the `while` loop that appends '#' is what guarantees it; that it terminates is not verified).
Strings: Variable(str(t.value) + "#CNF#") and Variable(str(v.value) + "#") are uninterpreted functions into the variables.
"""
import ast
from z3 import *
from pyvc.vtypes import *
from pyvc.engine import World, Contract, NS, Unsupported
import contracts.cfg as C
import contracts.cfg_subst as S

W = World()
Ob, SetOb, SeqOb, Prod, SetProd, BagProd, CFGT = C.Ob, C.SetOb, C.SeqOb, C.Prod, C.SetProd, C.BagProd, C.CFGT
isVar, isEps, InBody, NoEps, Filt, head, body, mkprod = C.isVar, C.isEps, C.InBody, C.NoEps, C.Filt, C.head, C.body, C.mkprod
MapOO, RenSeq, ren, mdom, mval = S.MapOO, S.RenSeq, S.ren, S.mdom, S.mval
for key_, f_ in C.W.fields.items(): W.fields[key_] = f_
W.consts['None'] = NONE_SYM
W.axioms += Prod.axioms() + [S.INBODY_DEF, S.NOEPS_DEF, S.INBODY_INTRO, ForAll([S.x], Implies(isEps(S.x), Not(isVar(S.x)))), ForAll([S.sq], Implies(NoEps(S.sq), Filt(S.sq) == S.sq)), S.RENSEQ_DEF]
W.derived = [('InBody introduction', [S.INBODY_DEF], S.INBODY_INTRO)]
W.seq_member = lambda seqterm, xterm: InBody(seqterm, xterm)
W.seq_literals = {Ob}
x, y, t_, t2 = Consts('x y t_ t2', Ob.sort()); pr, q = Consts('pr q', Prod.sort()); k_ = Const('k_', IntSort())
cnfname = Function('cnf_name', Ob.sort(), Ob.sort()); sharp = Function('sharp_name', Ob.sort(), Ob.sort())
W.axioms += [ForAll([x], isVar(cnfname(x))), ForAll([x], isVar(sharp(x)))]
def variable_ctor(eng, e, st):
    a = e.args[0] if len(e.args) == 1 else None
    if isinstance(a, ast.BinOp) and isinstance(a.op, ast.Add) and isinstance(a.right, ast.Constant) and isinstance(a.left, ast.Call) and getattr(a.left.func, 'id', None) == 'str' \
            and isinstance(a.left.args[0], ast.Attribute) and a.left.args[0].attr == 'value':
        v = eng.ev(a.left.args[0].value, st)
        if v.t == Ob and a.right.value == '#CNF#': return Sym(Ob, cnfname(v.term))
        if v.t == Ob and a.right.value == '#': return Sym(Ob, sharp(v.term))
    raise Unsupported('Variable(...) with a non-modelled argument')
W.ctors['Variable'] = variable_ctor
W.ctors['Production'] = S.production_ctor

def t2v_ok(G, M, done):
    """M names the terminals in `done`: by variables, none of them a variable of the grammar, no two equal"""
    return And(ForAll([t_], mdom(M, t_) == done(t_)),
               ForAll([t_], Implies(done(t_), And(isVar(mval(M, t_)), Not(G.V[mval(M, t_)])))),
               ForAll([t_, t2], Implies(And(done(t_), done(t2), mval(M, t_) == mval(M, t2)), t_ == t2)))
def long_(p_): return Length(body(p_)) != 1
def prods_ok(inP, G, M, covered, pat):
    return And(ForAll([q], Implies(inP(q), Or(Exists([pr], And(covered(pr), Not(long_(pr)), q == pr), patterns=[head(pr)]),
                                               Exists([pr], And(covered(pr), long_(pr), q == mkprod(head(pr), RenSeq(M.term, body(pr)))), patterns=[head(pr)]))), patterns=[pat(q)]),
               ForAll([pr], Implies(And(covered(pr), Not(long_(pr))), inP(pr)), patterns=[covered(pr)]),
               ForAll([pr], Implies(And(covered(pr), long_(pr)), inP(mkprod(head(pr), RenSeq(M.term, body(pr))))), patterns=[covered(pr)]))
def used_ok(U, G, covered, partial=None):
    """used = the terminals occurring in a covered long body; partial = (production, i): the production in progress - what is used may also occur in
    its body, and the terminals among its first i symbols are used (no existential over positions: those make the solver unstable)"""
    cur_body = (lambda xx: InBody(body(partial[0]), xx)) if partial else (lambda xx: BoolVal(False))
    cl = [ForAll([x], Implies(U[x], And(G.Tm[x], Or(Exists([pr], And(covered(pr), long_(pr), InBody(body(pr), x))), cur_body(x))))),
          ForAll([pr, x], Implies(And(covered(pr), long_(pr), InBody(body(pr), x), G.Tm[x]), U[x]))]
    if partial: cl.append(ForAll([k_], Implies(And(0 <= k_, k_ < partial[1], G.Tm[body(partial[0])[k_]]), U[body(partial[0])[k_]])))
    return And(cl)
def post(o, r, n, g):
    G, M, U = o.self, g.T2V, g.USED
    inR = lambda q_: r[q_] > 0
    return And(t2v_ok(G, M, lambda t: G.Tm[t]), used_ok(U, G, lambda p_: G.P[p_]), ForAll([q], r[q] >= 0),
               ForAll([q], Implies(inR(q), Or(Exists([pr], And(G.P[pr], Not(long_(pr)), q == pr), patterns=[head(pr)]),
                                              Exists([pr], And(G.P[pr], long_(pr), q == mkprod(head(pr), RenSeq(M.term, body(pr)))), patterns=[head(pr)]),
                                              Exists([t_], And(U[t_], q == mkprod(mval(M, t_), Unit(t_)))))), patterns=[r[q]]),
               ForAll([pr], Implies(And(G.P[pr], Not(long_(pr))), inR(pr)), patterns=[G.P[pr]]),
               ForAll([pr], Implies(And(G.P[pr], long_(pr)), inR(mkprod(head(pr), RenSeq(M.term, body(pr))))), patterns=[G.P[pr]]),
               ForAll([t_], Implies(U[t_], inR(mkprod(mval(M, t_), Unit(t_))))))
def inv0(e, done):
    return And(t2v_ok(e.self, e.term_to_var, lambda t: done[t]),          # new_variables = the names given so far (two implications with triggers)
               ForAll([x], Implies(e.new_variables[x], Exists([t_], And(done[t_], mval(e.term_to_var, t_) == x))), patterns=[e.new_variables[x]]),
               ForAll([t_], Implies(done[t_], e.new_variables[mval(e.term_to_var, t_)]), patterns=[done[t_]]))
def inv1(e, done):
    return And(ForAll([q], e.new_productions[q] >= 0), prods_ok(lambda q_: e.new_productions[q_] > 0, e.self, e.term_to_var, lambda p_: done[p_], lambda q_: e.new_productions[q_]),
               used_ok(e.used, e.self, lambda p_: done[p_]))
def inv10(e, i):
    b = body(e.production.term)
    return And(Length(e.new_body.term) == i.term, long_(e.production.term),
               ForAll([k_], Implies(And(0 <= k_, k_ < i.term), And(e.new_body.term[k_] == ren(e.term_to_var, b[k_]), Not(isEps(e.new_body.term[k_]))))),
               used_ok(e.used, e.self, lambda p_: e.get('$done1')[p_], (e.production.term, i.term)))
def inv2(e, done):
    M, G = e.term_to_var, e.self
    inN = lambda q_: e.new_productions[q_] > 0
    return And(ForAll([q], e.new_productions[q] >= 0),
               ForAll([q], Implies(inN(q), Or(Exists([pr], And(G.P[pr], Not(long_(pr)), q == pr), patterns=[head(pr)]),
                                              Exists([pr], And(G.P[pr], long_(pr), q == mkprod(head(pr), RenSeq(M.term, body(pr)))), patterns=[head(pr)]),
                                              Exists([t_], And(done[t_], q == mkprod(mval(M, t_), Unit(t_)))))), patterns=[e.new_productions[q]]),
               ForAll([pr], Implies(And(G.P[pr], Not(long_(pr))), inN(pr)), patterns=[G.P[pr]]),
               ForAll([pr], Implies(And(G.P[pr], long_(pr)), inN(mkprod(head(pr), RenSeq(M.term, body(pr))))), patterns=[G.P[pr]]),
               ForAll([t_], Implies(done[t_], inN(mkprod(mval(M, t_), Unit(t_))))))
W.contract(Contract('CFG._get_productions_with_only_single_terminals', [('self', CFGT)], ret=BagProd, requires=lambda o: C.WF(o.self), ensures=post,
    locals={'term_to_var': MapOO, 'new_productions': BagProd, 'new_variables': SetOb, 'used': SetOb, 'new_body': SeqOb},
    ghosts={'T2V': MapOO, 'USED': SetOb}, ghost_witness=lambda o, e: {'T2V': e.term_to_var, 'USED': e.used},
    entry_lemmas=lambda o: [('WF by position', [S.INBODY_DEF, S.NOEPS_DEF, S.INBODY_INTRO], S.WF_POS(o.self)),
                            ('a one-symbol list of a terminal holds no epsilon object', [S.INBODY_DEF, S.NOEPS_DEF], ForAll([x], Implies(Not(isEps(x)), NoEps(Unit(x)))))],
    loop_post_isolated={'1.0': (lambda e: [S.RENSEQ_DEF, S.ext_instance(e.new_body.term, RenSeq(e.term_to_var.term, body(e.production.term))), S.INBODY_DEF, S.NOEPS_DEF],
                                lambda e: And(e.new_body.term == RenSeq(e.term_to_var.term, body(e.production.term)), NoEps(e.new_body.term)))},
    loops={'0': inv0, '0.0': lambda e, done: isVar(e.var.term), '1': inv1, '1.0': inv10, '2': inv2}))

# ------------------------------------------------------------------ is_normal_form (Production and CFG)
W.fields[('Prod', '_body')] = 'body'; W.fields[('Prod', '_head')] = 'head'
W.isinstance_preds['Variable'] = lambda s_: isVar(s_.term)
W.isinstance_preds['Terminal'] = lambda s_: Not(isVar(s_.term))
def cnf_shape(p_):
    """A -> B C with two variables, or A -> a with one terminal"""
    b = body(p_)
    return Or(And(Length(b) == 2, isVar(b[0]), isVar(b[1])), And(Length(b) == 1, Not(isVar(b[0]))))
W.contract(Contract('Prod.is_normal_form', [('self', Prod)], ret=TBool, ensures=lambda o, r, n: r.term == cnf_shape(o.self.term), pure=lambda o: Sym(TBool, cnf_shape(o.self.term))))          # falls off the end (None, falsy) for any other length
W.contract(Contract('CFG.is_normal_form', [('self', CFGT)], ret=TBool, ensures=lambda o, r, n: r.term == ForAll([pr], Implies(o.self.P[pr], cnf_shape(pr)))))

# ------------------------------------------------------------------ binarisation: _get_next_free_variable, _decompose_productions (shape only)
Str = TVal('Str')
cvar = Function('cnf_var', IntSort(), Ob.sort())                    # Variable("C#CNF#" + str(idx))
W.axioms.append(ForAll([k_], isVar(cvar(k_))))
W.consts['str:C#CNF#'] = Sym(Str, Const('S_C_CNF', Str.sort()))
def variable_ctor2(eng, e, st):
    a = e.args[0] if len(e.args) == 1 else None
    if isinstance(a, ast.BinOp) and isinstance(a.op, ast.Add) and isinstance(a.left, ast.Name) and a.left.id == 'prefix' and isinstance(a.right, ast.Call) and getattr(a.right.func, 'id', None) == 'str':
        i = eng.ev(a.right.args[0], st)
        if i.t is TInt: return Sym(Ob, cvar(i.term))          # the only prefix passed is "C#CNF#" (precondition of the contract below)
    return variable_ctor(eng, e, st)
W.ctors['Variable'] = variable_ctor2
PairIO = TTuple(TInt, Ob)
W.contract(Contract('CFG._get_next_free_variable', [('self', CFGT), ('idx', TInt), ('prefix', Str)], ret=PairIO,
    requires=lambda o: o.prefix.term == W.consts['str:C#CNF#'].term,
    ensures=lambda o, r, n: And(PairIO.get(r, '_0').term > o.idx.term, PairIO.get(r, '_1').term == cvar(PairIO.get(r, '_0').term), Not(o.self.V[PairIO.get(r, '_1')])),
    loops={'0': lambda e, done: And(e.idx.term > e.get('$old.idx').term, e.temp.term == cvar(e.idx.term))}))
W.identity_fns |= {'tuple'}
NEp = Function('NoEpsilonObject', SeqOb.sort(), BoolSort())
sq_ = S.sq
W.axioms += [ForAll([x], NEp(Unit(x)) == Not(isEps(x)), patterns=[NEp(Unit(x))]),
             ForAll([x, sq_], NEp(Concat(Unit(x), sq_)) == And(Not(isEps(x)), NEp(sq_)), patterns=[NEp(Concat(Unit(x), sq_))]),
             ForAll([sq_], Implies(NEp(sq_), Filt(sq_) == sq_), patterns=[Filt(sq_)])]                  # List.filter_eq_self (bridge/count.lean)
MapSO = TMap(SeqOb, Ob)
def long_vars(p_): return Implies(Length(body(p_)) >= 2, ForAll([k_], Implies(And(0 <= k_, k_ < Length(body(p_))), isVar(body(p_)[k_]))))
def shape2(q_): return And(Length(body(q_)) == 2, isVar(body(q_)[0]), isVar(body(q_)[1]))
def dp_res(e_res, prods):
    return And(ForAll([q], e_res[q] >= 0), ForAll([q], Implies(e_res[q] > 0, Or(And(prods[q] > 0, Length(body(q)) <= 2), shape2(q)))))
def done_ok(e): return ForAll([S.sq], Implies(Select(MapSO.get(e.done, 'dom').term, S.sq), isVar(Select(MapSO.get(e.done, 'val').term, S.sq))))
W.contract(Contract('CFG._decompose_productions', [('self', CFGT), ('productions', BagProd)], ret=BagProd,
    requires=lambda o: ForAll([pr], Implies(o.productions[pr] > 0, long_vars(pr))),
    # shape only: every production of the result is an input production with at most two symbols, or has exactly two variables as its body; short inputs are kept
    ensures=lambda o, r, n: And(dp_res(r, o.productions), ForAll([pr], Implies(And(o.productions[pr] > 0, Length(body(pr)) <= 2), r[pr] > 0))),
    locals={'new_productions': BagProd, 'done': MapSO, 'new_var': SeqOb},
    loops={'0': lambda e, dn: And(dp_res(e.new_productions, e.productions), done_ok(e), ForAll([pr], Implies(And(dn[pr] > 0, Length(body(pr)) <= 2), e.new_productions[pr] > 0))),
           '0.0': lambda e, i: And(e.body.term == body(e.production.term), Length(e.body.term) > 2, e.productions[e.production.term] > 0, Length(e.new_var.term) == i.term,
                                   ForAll([k_], Implies(And(0 <= k_, k_ < i.term), isVar(e.new_var.term[k_])))),
           '0.1': lambda e, i: And(e.body.term == body(e.production.term), Length(e.body.term) > 2, e.productions[e.production.term] > 0, Length(e.new_var.term) == Length(e.body.term) - 2,
                                   ForAll([k_], Implies(And(0 <= k_, k_ < Length(e.new_var.term)), isVar(e.new_var.term[k_]))), Not(e.stopped.term),
                                   dp_res(e.new_productions, e.productions), done_ok(e),
                                   ForAll([pr], Implies(And(e.get('$done0')[pr] > 0, Length(body(pr)) <= 2), e.new_productions[pr] > 0)))}))

W.ground_sorts = (Ob.sort(),)
W.special = {}
_P = 'pyformlang/cfg/cfg.py'
TARGETS = {'CFG._get_productions_with_only_single_terminals': (_P, 'CFG._get_productions_with_only_single_terminals'), 'CFG.is_normal_form': (_P, 'CFG.is_normal_form'),
           'Prod.is_normal_form': ('pyformlang/cfg/production.py', 'Production.is_normal_form'),
           'CFG._get_next_free_variable': (_P, 'CFG._get_next_free_variable'), 'CFG._decompose_productions': (_P, 'CFG._decompose_productions')}
SMOKE = [
    ('CFG._decompose_productions', _P, "            if len(body) <= 2:\n                new_productions.append(production)\n                continue", "            if len(body) <= 3:\n                new_productions.append(production)\n                continue", 'break'),
    ('CFG._decompose_productions', _P, "                new_productions.append(Production(head, [body[-2], body[-1]]))", "                new_productions.append(Production(head, [body[-3], body[-2], body[-1]]))", 'break'),
    ('CFG._get_next_free_variable', _P, "        while temp in self._variables:\n            idx += 1\n            temp = Variable(prefix + str(idx))\n", "", 'break'),
    ('Prod.is_normal_form', 'pyformlang/cfg/production.py', "            return isinstance(self._body[0], Terminal)", "            return True", 'break'),
    ('CFG.is_normal_form', _P, "        return all(\n            production.is_normal_form() for production in self._productions)", "        return any(\n            production.is_normal_form() for production in self._productions)", 'break'),
    ('CFG._get_productions_with_only_single_terminals', _P, "            while var in self._variables or var in new_variables:\n                var = Variable(str(var.value) + \"#\")\n", "", 'break'),
    ('CFG._get_productions_with_only_single_terminals', _P, "            while var in self._variables or var in new_variables:", "            while var in self._variables:", 'break'),
    ('CFG._get_productions_with_only_single_terminals', _P, "                    new_body.append(term_to_var[symbol])\n                    used.add(symbol)", "                    new_body.append(term_to_var[symbol])", 'break'),
    ('CFG._get_productions_with_only_single_terminals', _P, "            if len(production.body) == 1:\n                new_productions.append(production)\n                continue", "            if len(production.body) <= 2:\n                new_productions.append(production)\n                continue", 'break'),
    ('CFG._get_productions_with_only_single_terminals', _P, "                Production(term_to_var[terminal], [terminal]))", "                Production(term_to_var[terminal], [term_to_var[terminal]]))", 'break'),
]
