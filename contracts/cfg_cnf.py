"""Chomsky normal form, step "terminals out of long bodies" (C09): CFG._get_productions_with_only_single_terminals.

Proved: the result consists of exactly (a) the productions with a body of length 1, unchanged, (b) every other production with each terminal t
of its body replaced by a variable T2V[t], and (c) one production T2V[t] -> t for every terminal t that was replaced somewhere; T2V (ghost
result: the dictionary term_to_var) maps the terminals injectively to variables that are not variables of the grammar - whatever names the
grammar uses (the `while` loop that appends '#' is what guarantees it; that it terminates is not verified).
Strings: Variable(str(t.value) + "#CNF#") and Variable(str(v.value) + "#") are uninterpreted functions into the variables.
"""
import ast
from z3 import *
from pyvc.vtypes import *
from pyvc.engine import World, Contract, NS, Unsupported
import contracts.cfg as C
import contracts.cfg_subst as S

W = World()
Ob, SetOb, SeqOb, Prod, SetProd, BagProd, CFGT = C.Ob, C.SetOb, C.SeqOb, C.Prod, C.SetProd, C.BagProd, C.CFGT
isVar, isEps, InBody, NoEps, Filt, head, body, mkprod = C.isVar, C.isEps, C.InBody, C.NoEps, C.Filt, C.head, C.body, C.mkprod
MapOO, RenSeq, ren, mdom, mval = S.MapOO, S.RenSeq, S.ren, S.mdom, S.mval
for key_, f_ in C.W.fields.items(): W.fields[key_] = f_
W.consts['None'] = NONE_SYM
W.axioms += Prod.axioms() + [S.INBODY_DEF, S.NOEPS_DEF, S.INBODY_INTRO, ForAll([S.x], Implies(isEps(S.x), Not(isVar(S.x)))), ForAll([S.sq], Implies(NoEps(S.sq), Filt(S.sq) == S.sq)), S.RENSEQ_DEF]
W.derived = [('InBody introduction', [S.INBODY_DEF], S.INBODY_INTRO)]
W.seq_member = lambda seqterm, xterm: InBody(seqterm, xterm)
W.seq_literals = {Ob}
x, y, t_, t2 = Consts('x y t_ t2', Ob.sort()); pr, q = Consts('pr q', Prod.sort()); k_ = Const('k_', IntSort())
cnfname = Function('cnf_name', Ob.sort(), Ob.sort()); sharp = Function('sharp_name', Ob.sort(), Ob.sort())
W.axioms += [ForAll([x], isVar(cnfname(x))), ForAll([x], isVar(sharp(x)))]
def variable_ctor(eng, e, st):
    a = e.args[0] if len(e.args) == 1 else None
    if isinstance(a, ast.BinOp) and isinstance(a.op, ast.Add) and isinstance(a.right, ast.Constant) and isinstance(a.left, ast.Call) and getattr(a.left.func, 'id', None) == 'str' \
            and isinstance(a.left.args[0], ast.Attribute) and a.left.args[0].attr == 'value':
        v = eng.ev(a.left.args[0].value, st)
        if v.t == Ob and a.right.value == '#CNF#': return Sym(Ob, cnfname(v.term))
        if v.t == Ob and a.right.value == '#': return Sym(Ob, sharp(v.term))
    raise Unsupported('Variable(...) with a non-modelled argument')
W.ctors['Variable'] = variable_ctor
W.ctors['Production'] = S.production_ctor

def t2v_ok(G, M, done):
    """M names the terminals in `done`: by variables, none of them a variable of the grammar, no two equal"""
    return And(ForAll([t_], mdom(M, t_) == done(t_)),
               ForAll([t_], Implies(done(t_), And(isVar(mval(M, t_)), Not(G.V[mval(M, t_)])))),
               ForAll([t_, t2], Implies(And(done(t_), done(t2), mval(M, t_) == mval(M, t2)), t_ == t2)))
def long_(p_): return Length(body(p_)) != 1
def prods_ok(inP, G, M, covered, pat):
    return And(ForAll([q], Implies(inP(q), Or(Exists([pr], And(covered(pr), Not(long_(pr)), q == pr), patterns=[head(pr)]),
                                               Exists([pr], And(covered(pr), long_(pr), q == mkprod(head(pr), RenSeq(M.term, body(pr)))), patterns=[head(pr)]))), patterns=[pat(q)]),
               ForAll([pr], Implies(And(covered(pr), Not(long_(pr))), inP(pr)), patterns=[covered(pr)]),
               ForAll([pr], Implies(And(covered(pr), long_(pr)), inP(mkprod(head(pr), RenSeq(M.term, body(pr))))), patterns=[covered(pr)]))
def used_ok(U, G, covered, partial=None):
    """used = the terminals occurring in a covered long body; partial = (production, i): the production in progress - what is used may also occur in
    its body, and the terminals among its first i symbols are used (no existential over positions: those make the solver unstable)"""
    cur_body = (lambda xx: InBody(body(partial[0]), xx)) if partial else (lambda xx: BoolVal(False))
    cl = [ForAll([x], Implies(U[x], And(G.Tm[x], Or(Exists([pr], And(covered(pr), long_(pr), InBody(body(pr), x))), cur_body(x))))),
          ForAll([pr, x], Implies(And(covered(pr), long_(pr), InBody(body(pr), x), G.Tm[x]), U[x]))]
    if partial: cl.append(ForAll([k_], Implies(And(0 <= k_, k_ < partial[1], G.Tm[body(partial[0])[k_]]), U[body(partial[0])[k_]])))
    return And(cl)
def post(o, r, n, g):
    G, M, U = o.self, g.T2V, g.USED
    inR = lambda q_: r[q_] > 0
    return And(t2v_ok(G, M, lambda t: G.Tm[t]), used_ok(U, G, lambda p_: G.P[p_]), ForAll([q], r[q] >= 0),
               ForAll([q], Implies(inR(q), Or(Exists([pr], And(G.P[pr], Not(long_(pr)), q == pr), patterns=[head(pr)]),
                                              Exists([pr], And(G.P[pr], long_(pr), q == mkprod(head(pr), RenSeq(M.term, body(pr)))), patterns=[head(pr)]),
                                              Exists([t_], And(U[t_], q == mkprod(mval(M, t_), Unit(t_)))))), patterns=[r[q]]),
               ForAll([pr], Implies(And(G.P[pr], Not(long_(pr))), inR(pr)), patterns=[G.P[pr]]),
               ForAll([pr], Implies(And(G.P[pr], long_(pr)), inR(mkprod(head(pr), RenSeq(M.term, body(pr))))), patterns=[G.P[pr]]),
               ForAll([t_], Implies(U[t_], inR(mkprod(mval(M, t_), Unit(t_))))))
def inv0(e, done):
    return And(t2v_ok(e.self, e.term_to_var, lambda t: done[t]), ForAll([x], e.new_variables[x] == Exists([t_], And(done[t_], mval(e.term_to_var, t_) == x))))
def inv1(e, done):
    return And(ForAll([q], e.new_productions[q] >= 0), prods_ok(lambda q_: e.new_productions[q_] > 0, e.self, e.term_to_var, lambda p_: done[p_], lambda q_: e.new_productions[q_]),
               used_ok(e.used, e.self, lambda p_: done[p_]))
def inv10(e, i):
    b = body(e.production.term)
    return And(Length(e.new_body.term) == i.term, long_(e.production.term),
               ForAll([k_], Implies(And(0 <= k_, k_ < i.term), And(e.new_body.term[k_] == ren(e.term_to_var, b[k_]), Not(isEps(e.new_body.term[k_]))))),
               used_ok(e.used, e.self, lambda p_: e.get('$done1')[p_], (e.production.term, i.term)))
def inv2(e, done):
    M, G = e.term_to_var, e.self
    inN = lambda q_: e.new_productions[q_] > 0
    return And(ForAll([q], e.new_productions[q] >= 0),
               ForAll([q], Implies(inN(q), Or(Exists([pr], And(G.P[pr], Not(long_(pr)), q == pr), patterns=[head(pr)]),
                                              Exists([pr], And(G.P[pr], long_(pr), q == mkprod(head(pr), RenSeq(M.term, body(pr)))), patterns=[head(pr)]),
                                              Exists([t_], And(done[t_], q == mkprod(mval(M, t_), Unit(t_)))))), patterns=[e.new_productions[q]]),
               ForAll([pr], Implies(And(G.P[pr], Not(long_(pr))), inN(pr)), patterns=[G.P[pr]]),
               ForAll([pr], Implies(And(G.P[pr], long_(pr)), inN(mkprod(head(pr), RenSeq(M.term, body(pr))))), patterns=[G.P[pr]]),
               ForAll([t_], Implies(done[t_], inN(mkprod(mval(M, t_), Unit(t_))))))
W.contract(Contract('CFG._get_productions_with_only_single_terminals', [('self', CFGT)], ret=BagProd, requires=lambda o: C.WF(o.self), ensures=post,
    locals={'term_to_var': MapOO, 'new_productions': BagProd, 'new_variables': SetOb, 'used': SetOb, 'new_body': SeqOb},
    ghosts={'T2V': MapOO, 'USED': SetOb}, ghost_witness=lambda o, e: {'T2V': e.term_to_var, 'USED': e.used},
    entry_lemmas=lambda o: [('WF by position', [S.INBODY_DEF, S.NOEPS_DEF, S.INBODY_INTRO], S.WF_POS(o.self)),
                            ('a one-symbol list of a terminal holds no epsilon object', [S.INBODY_DEF, S.NOEPS_DEF], ForAll([x], Implies(Not(isEps(x)), NoEps(Unit(x)))))],
    loop_post_isolated={'1.0': (lambda e: [S.RENSEQ_DEF, S.ext_instance(e.new_body.term, RenSeq(e.term_to_var.term, body(e.production.term))), S.INBODY_DEF, S.NOEPS_DEF],
                                lambda e: And(e.new_body.term == RenSeq(e.term_to_var.term, body(e.production.term)), NoEps(e.new_body.term)))},
    loops={'0': inv0, '0.0': lambda e, done: isVar(e.var.term), '1': inv1, '1.0': inv10, '2': inv2}))

W.ground_sorts = (Ob.sort(),)
W.special = {}
_P = 'pyformlang/cfg/cfg.py'
TARGETS = {'CFG._get_productions_with_only_single_terminals': (_P, 'CFG._get_productions_with_only_single_terminals')}
SMOKE = [
    ('CFG._get_productions_with_only_single_terminals', _P, "            while var in self._variables or var in new_variables:\n                var = Variable(str(var.value) + \"#\")\n", "", 'break'),
    ('CFG._get_productions_with_only_single_terminals', _P, "            while var in self._variables or var in new_variables:", "            while var in self._variables:", 'break'),
    ('CFG._get_productions_with_only_single_terminals', _P, "                    new_body.append(term_to_var[symbol])\n                    used.add(symbol)", "                    new_body.append(term_to_var[symbol])", 'break'),
    ('CFG._get_productions_with_only_single_terminals', _P, "            if len(production.body) == 1:\n                new_productions.append(production)\n                continue", "            if len(production.body) <= 2:\n                new_productions.append(production)\n                continue", 'break'),
    ('CFG._get_productions_with_only_single_terminals', _P, "                Production(term_to_var[terminal], [terminal]))", "                Production(term_to_var[terminal], [term_to_var[terminal]]))", 'break'),
]
