"""PDA.__init__ (C11, C13, C19): the constructor satisfies the model under which the other contracts of the PDA world read `PDA(...)`
(contracts/pda.py pda_ctor, contracts/pda_inter.py for the short forms).

Proved for the four argument shapes used inside the library (all seven arguments - to_final_state / to_empty_stack; everything but the
transition function and the final states - CFG.to_pda; start state and start stack symbol only - PDA.intersection; nothing - PDA()):
states = the given ones, the start state and the final states; input symbols = the given ones; stack alphabet = the given one and the
start stack symbol; transitions = those of the given transition function (none without one); start state, start stack symbol and final
states as given.  to_state / to_symbol / to_stack_symbol are the identity on values (proved in contracts/pda_creator.py).
"""
import ast
from z3 import *
from pyvc.vtypes import *
from pyvc.engine import World, Contract, NS, Unsupported
import contracts.pda as P
import contracts.cfg2pda as T

W = World()
PSt, PSy, PStk, SetSt, SetSy, SetStk, SeqStk, Trans, SetTr, PDA, TF = P.PSt, P.PSy, P.PStk, P.SetSt, P.SetSy, P.SetStk, P.SeqStk, P.Trans, P.SetTr, P.PDA, P.TF
W.axioms += Trans.axioms()
W.consts['None'] = NONE_SYM
for key_, fld_ in P.W.fields.items(): W.fields[key_] = fld_
NOST = Const('no_start_state', PSt.sort()); NOSTK = Const('no_start_stack_symbol', PStk.sort())
W.none_consts['PSt'] = NOST; W.none_consts['PStk'] = NOSTK
PCRE = T.PCRE
W.fields[('PDA', '_pda_obj_creator')] = T.W.fields[('PDA', '_pda_obj_creator')]
W.fields[('PDA', '_pda_obj_creator', 'set')] = lambda base, val: base                     # the creator only canonicalises objects: no part of the view
def _no_read(o): raise Unsupported('_cfg_variable_converter is read in the constructor')
W.fields[('PDA', '_cfg_variable_converter')] = _no_read
W.fields[('PDA', '_cfg_variable_converter', 'set')] = lambda base, val: base
W.ctors['PDAObjectCreator'] = lambda eng, e, st: PCRE.make(k=Sym(TBool, BoolVal(True)))
W.ctors['TransitionFunction'] = lambda eng, e, st: TF.make(D=SetTr.empty())
W.always_truthy = ('PdaTF',)                                                                # pda.TransitionFunction defines neither __bool__ nor __len__
for k in ('to_state', 'to_symbol', 'to_stack_symbol'): W.contracts['PdaObjCreator.' + k] = T.W.contracts['PdaObjCreator.' + k]
x = Const('x', PSt.sort()); a_ = Const('a_', PSy.sort()); g_ = Const('g_', PStk.sort())
def model(r, Q0, S0, G0, D0, q0, z0, F0):
    return And(ForAll([x], r.Q[x] == Or(Q0(x), And(q0 != NOST, x == q0), F0(x))), ForAll([a_], r.Sig[a_] == S0(a_)),
               ForAll([g_], r.Gam[g_] == Or(G0(g_), And(z0 != NOSTK, g_ == z0))), r.D == D0, r.q0 == q0, r.z0 == z0, ForAll([x], r.F[x] == F0(x)))
F_ = lambda *_: BoolVal(False)
def shape_inv(args):
    """the model with the final states registered so far: the loop only adds to the states"""
    def inv(e, done):
        Q0, S0, G0, D0, q0, z0, F0 = args(e)
        return \
            And(ForAll([x], e.self.Q[x] == Or(Q0(x), And(q0 != NOST, x == q0), done[x])), ForAll([a_], e.self.Sig[a_] == S0(a_)),
                ForAll([g_], e.self.Gam[g_] == Or(G0(g_), And(z0 != NOSTK, g_ == z0))), e.self.D == D0, e.self.q0 == q0, e.self.z0 == z0, ForAll([x], e.self.F[x] == F0(x)))
    return inv
SHAPES = {
    'full': ([('states', SetSt), ('input_symbols', SetSy), ('stack_alphabet', SetStk), ('transition_function', TF), ('start_state', PSt), ('start_stack_symbol', PStk), ('final_states', SetSt)],
             lambda o, r: model(r, lambda v: o.states[v], lambda v: o.input_symbols[v], lambda v: o.stack_alphabet[v], o.transition_function.D, o.start_state.term, o.start_stack_symbol.term, lambda v: o.final_states[v]),
             lambda o: (lambda v: o.states[v], lambda v: o.input_symbols[v], lambda v: o.stack_alphabet[v], o.transition_function.D, o.start_state.term, o.start_stack_symbol.term, lambda v: o.final_states[v])),
    'no-transitions-no-finals': ([('states', SetSt), ('input_symbols', SetSy), ('stack_alphabet', SetStk), ('transition_function', TNone), ('start_state', PSt), ('start_stack_symbol', PStk), ('final_states', TNone)],
             lambda o, r: model(r, lambda v: o.states[v], lambda v: o.input_symbols[v], lambda v: o.stack_alphabet[v], SetTr.empty(), o.start_state.term, o.start_stack_symbol.term, F_),
             lambda o: (lambda v: o.states[v], lambda v: o.input_symbols[v], lambda v: o.stack_alphabet[v], SetTr.empty(), o.start_state.term, o.start_stack_symbol.term, F_)),
    'start-only': ([('states', TNone), ('input_symbols', TNone), ('stack_alphabet', TNone), ('transition_function', TNone), ('start_state', PSt), ('start_stack_symbol', PStk), ('final_states', TNone)],
             lambda o, r: model(r, F_, F_, F_, SetTr.empty(), o.start_state.term, o.start_stack_symbol.term, F_),
             lambda o: (F_, F_, F_, SetTr.empty(), o.start_state.term, o.start_stack_symbol.term, F_)),
}
for name, (params, post, args) in SHAPES.items():
    W.contract(Contract('PDA.__init__#' + name, [('self', PDA)] + params, ret=TNone, modifies=('self',), ensures=(lambda post_: lambda o, r, n: post_(o, n.self))(post), loops={'0': shape_inv(args)}))
# PDA(): nothing given (start state and start stack symbol None)
NONE7 = [(p_, TNone) for p_ in ('states', 'input_symbols', 'stack_alphabet', 'transition_function', 'start_state', 'start_stack_symbol', 'final_states')]
W.contract(Contract('PDA.__init__#nothing', [('self', PDA)] + NONE7, ret=TNone, modifies=('self',),
    ensures=lambda o, r, n: model(n.self, F_, F_, F_, SetTr.empty(), NOST, NOSTK, F_),
    loops={'0': shape_inv(lambda e: (F_, F_, F_, SetTr.empty(), NOST, NOSTK, F_))}))

W.ground_sorts = ()
W.special = {}
_P = 'pyformlang/pda/pda.py'
TARGETS = {'PDA.__init__#' + k: (_P, 'PDA.__init__') for k in list(SHAPES) + ['nothing']}
SMOKE = [
    ('PDA.__init__#full', _P, "        if start_state is not None:\n            self._states.add(start_state)\n", "", 'break'),
    ('PDA.__init__#full', _P, "        for state in self._final_states:\n            self._states.add(state)\n", "", 'break'),
    ('PDA.__init__#no-transitions-no-finals', _P, "        if start_stack_symbol is not None:\n            self._stack_alphabet.add(start_stack_symbol)\n", "", 'break'),
    ('PDA.__init__#full', _P, "        self._transition_function = transition_function or TransitionFunction()", "        self._transition_function = TransitionFunction()", 'break'),
    ('PDA.__init__#start-only', _P, "        self._input_symbols = set(self._input_symbols)\n", "", 'benign'),
]
