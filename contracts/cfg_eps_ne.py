"""utils_cfg.remove_nullable_production_sub, part 2 of 2 (the two postconditions are proved separately on the same source: together they are the
contract used by contracts/cfg_eps.py; in one context the solver is unstable).  See contracts/cfg_eps.py for the specification.
Part 2: no body in the result holds an epsilon object.
"""
import ast
from z3 import *
from pyvc.vtypes import *
from pyvc.engine import World, Contract, NS, Unsupported
import contracts.cfg as C
import contracts.cfg_eps as E

W = World()
Ob, SetOb, SeqOb, BagSeq, EPSOB, Sub, NEp = E.Ob, E.SetOb, E.SeqOb, E.BagSeq, E.EPSOB, E.Sub, E.NEp
W.consts['None'] = NONE_SYM
W.seq_literals = {Ob}
W.ctors['Epsilon'] = lambda eng, e, st: Sym(Ob, EPSOB)
sq2, t_ = E.sq2, E.t_

W.axioms += E.NEP_AXIOMS
W.contract(Contract('fn.remove_nullable_production_sub', [('body', SeqOb), ('nullables', SetOb)], ret=BagSeq,
    ensures=lambda o, r, n: And(ForAll([sq2], r[sq2] >= 0), ForAll([sq2], Implies(r[sq2] > 0, NEp(sq2)))),
    locals={'res': BagSeq}, loops={'0': lambda e, done: And(ForAll([sq2], e.res[sq2] >= 0), ForAll([sq2], Implies(e.res[sq2] > 0, NEp(sq2))))}))
W.ground_sorts = (Ob.sort(),)
W.special = {}
W.contracts['fn.remove_nullable_production_sub#no-epsilon'] = W.contracts['fn.remove_nullable_production_sub']          # same contract under a second name: the other half (#1) is in cfg_eps_sub
TARGETS = {'fn.remove_nullable_production_sub#no-epsilon': ('pyformlang/cfg/utils_cfg.py', 'fn.remove_nullable_production_sub')}
_U = 'pyformlang/cfg/utils_cfg.py'
SMOKE = [
    ('fn.remove_nullable_production_sub#no-epsilon', _U, "        if body[0] != Epsilon():\n            res.append([body[0]] + body_temp.copy())", "        if True:\n            res.append([body[0]] + body_temp.copy())", 'break'),
]
