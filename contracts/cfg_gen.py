"""CFG._get_generating_or_nullable computes the least set: generating symbols (nullable=False) / nullable symbols (nullable=True)  (C12, C09).

Spec: GNS(P, B) is the least set of symbols that contains the base set B and the head of every production all of whose body symbols it
contains (B = the terminals for "generating", B = {} for "nullable").  Proved: the function returns exactly GNS(P, B) (the epsilon object,
which the function uses as a sentinel, excluded), for every grammar and every iteration order; get_generating_symbols /
get_nullable_symbols return it and keep their memo fields consistent.

How the counter algorithm is specified.  `_set_impacts_and_remaining_lists` (contract ASSUMED, see below) gives every production with a
non-empty body one counter cell (head, index) initialised with the length of the body, and lists in `_impacts[c]` the cell once per
position at which c occurs in the body.  Ghost PR maps a cell to its production.  Invariant of the worklist: for a symbol s not yet in the
result, counter(s, i) = |body| - NP(POPPED, body), the number of body positions whose symbol has not been popped yet (NP counts positions
in a set, Occ counts occurrences of one symbol; their four arithmetic facts are List.countP / List.count lemmas, bridge/count.lean).
Soundness of every addition follows when a counter reaches 0 (all positions popped, hence generating), completeness at exit from
"counter > 0 for every cell of a symbol outside the result" by the induction principle of the least set.
"""
import ast
from z3 import *
from pyvc.vtypes import *
from pyvc.engine import World, Contract, NS, Unsupported
import contracts.cfg as C

W = World()
Ob, SetOb, SeqOb, Prod, SetProd, BagOb = C.Ob, C.SetOb, C.SeqOb, C.Prod, C.SetProd, TBag(C.Ob)
head, body = C.head, C.body
PairOI = TTuple(Ob, TInt); BagPair = TBag(PairOI)
from pyvc.vtypes import _TArr
IL = TRec('IntList', [('len', TInt), ('at', _TArr(TInt, TInt))])          # a Python list of ints: its length and its content
MapRem = TMap(Ob, IL); MapImp = TMap(Ob, BagPair)
class TFunPI(T):
    """ghost function production -> index of its counter cell"""
    name = 'fun[Prod->int]'
    def sort(self): return ArraySort(Prod.sort(), IntSort())
CELLT = TFunPI()
class TFun2(T):
    """ghost function (symbol, index) -> production, as a z3 array"""
    name = 'fun[Ob,int->Prod]'
    def sort(self): return ArraySort(Ob.sort(), IntSort(), Prod.sort())
PRT = TFun2()
GT = TRec('CFGGen', [('Tm', SetOb), ('P', SetProd), ('S', Ob), ('impacts', MapImp), ('remaining', MapRem), ('added', SetOb), ('built', TBool), ('pr', PRT), ('cell', CELLT),       # ghosts: pr = the production a counter cell belongs to, cell = the index of a production's cell
                    
                     ('gen', SetOb), ('gen_none', TBool), ('nul', SetOb), ('nul_none', TBool)])
for py, f in [('_terminals', 'Tm'), ('_productions', 'P'), ('_start_symbol', 'S'), ('_impacts', 'impacts'), ('_remaining_lists', 'remaining'), ('_added_impacts', 'added')]: W.fields[('CFGGen', py)] = f
W.consts['None'] = NONE_SYM
W.axioms += Prod.axioms()
EPSOB = C.EPSOB
W.ctors['Epsilon'] = lambda eng, e, st: Sym(Ob, EPSOB)
x, y, s_, c_ = Consts('x y s_ c_', Ob.sort()); i_, j_ = Consts('i_ j_', IntSort()); pr = Const('pr', Prod.sort()); sq = Const('sq', SeqOb.sort())
X_, Y_, B_ = Consts('X_ Y_ B_', SetOb.sort()); P_ = Const('P_', SetProd.sort())
def pair(a, b): return PairOI.make(_0=Sym(Ob, a), _1=Sym(TInt, b)).term

# ------------------------------------------------------------------ spec functions
AllIn = Function('AllIn', SetOb.sort(), SeqOb.sort(), BoolSort())                  # every symbol of the sequence is in the set
ALLIN_DEF = ForAll([X_, sq], AllIn(X_, sq) == ForAll([j_], Implies(And(0 <= j_, j_ < Length(sq)), Select(X_, sq[j_]))), patterns=[AllIn(X_, sq)])
GNS = C.GNS                                                                         # least set containing B and closed under the productions
GN_BASE = ForAll([P_, B_, x], Implies(Select(B_, x), Select(GNS(P_, B_), x)))
GN_STEP = ForAll([P_, B_, pr], Implies(And(Select(P_, pr), AllIn(GNS(P_, B_), body(pr))), Select(GNS(P_, B_), head(pr))))
def gn_induction(P, B, X):
    """sound for the least set: X contains B and is closed under the productions  =>  GNS(P, B) is inside X"""
    return Implies(And(ForAll([x], Implies(Select(B, x), Select(X, x))),
                       ForAll([pr], Implies(And(Select(P, pr), AllIn(X, body(pr))), Select(X, head(pr))))),
                   ForAll([x], Implies(Select(GNS(P, B), x), Select(X, x))))
NP = Function('NP', SetOb.sort(), SeqOb.sort(), IntSort())                          # number of positions whose symbol is in the set   (List.countP)
Occ = Function('Occ', SeqOb.sort(), Ob.sort(), IntSort())                           # number of occurrences of a symbol               (List.count)
COUNT_FACTS = [ForAll([X_, sq], And(0 <= NP(X_, sq), NP(X_, sq) <= Length(sq))),
               ForAll([sq], NP(K(Ob.sort(), False), sq) == 0),
               ForAll([X_, sq, c_], Implies(Not(Select(X_, c_)), NP(Store(X_, c_, True), sq) == NP(X_, sq) + Occ(sq, c_))),
               ForAll([X_, sq], (NP(X_, sq) == Length(sq)) == AllIn(X_, sq)),
               ForAll([sq, c_], Occ(sq, c_) >= 0),
               ForAll([sq, c_], Implies(Occ(sq, c_) > 0, Exists([j_], And(0 <= j_, j_ < Length(sq), sq[j_] == c_))))]
W.axioms += [ALLIN_DEF, GN_BASE, GN_STEP] + COUNT_FACTS
W.lemmas = {'count_facts': 'bridge/count.lean'}

# ------------------------------------------------------------------ tables
def rdom(R, s): return Select(MapRem.get(R, 'dom').term, s)
def rlist(R, s): return Sym(IL, Select(MapRem.get(R, 'val').term, s))
def cdom(R, s, i): return And(rdom(R, s), 0 <= i, i < rlist(R, s).len.term)          # (s, i) addresses a counter
def cval(R, s, i): return Select(rlist(R, s).at.term, i)
v_ = Const('v_', IntSort())
W.contract(Contract('IntList.__len__', [('self', IL)], ret=TInt, pure=lambda o: o.self.len))
W.contract(Contract('IntList.__getitem__', [('self', IL), ('i', TInt)], ret=TInt, requires=lambda o: And(0 <= o.i.term, o.i.term < o.self.len.term),        # negative indices (from the end) are not modelled: excluded
                    pure=lambda o: Sym(TInt, Select(o.self.at.term, o.i.term))))
W.contract(Contract('IntList.__setitem__', [('self', IL), ('i', TInt), ('v', TInt)], ret=IL, requires=lambda o: And(0 <= o.i.term, o.i.term < o.self.len.term),
                    pure=lambda o: IL.make(len=o.self.len, at=Sym(_TArr(TInt, TInt), Store(o.self.at.term, o.i.term, o.v.term)))))
W.contract(Contract('IntList.append', [('self', IL), ('v', TInt)], ret=TNone, modifies=('self',),
                    ensures=lambda o, r, n: And(n.self.len.term == o.self.len.term + 1, n.self.at.term == Store(o.self.at.term, o.self.len.term, o.v.term), o.self.len.term >= 0)))
W.empty_values = {'IntList': lambda: IL.make(len=Sym(TInt, IntVal(0)), at=Sym(_TArr(TInt, TInt), K(IntSort(), IntVal(0))))}
def idom(I, c): return Select(MapImp.get(I, 'dom').term, c)
def imult(I, c, s, i): return If(idom(I, c), Select(Select(MapImp.get(I, 'val').term, c), pair(s, i)), 0)
def same_shape(R, R0):
    """same keys, lists of the same length"""
    return And(ForAll([s_], rdom(R, s_) == rdom(R0, s_)), ForAll([s_], Implies(rdom(R0, s_), rlist(R, s_).len.term == rlist(R0, s_).len.term)))
def prod_of(PR, s, i): return Select(PR.term, s, i)
def no_eps_bodies(G): return ForAll([pr, j_], Implies(And(G.P[pr], 0 <= j_, j_ < Length(body(pr))), body(pr)[j_] != EPSOB))
def terminals_clean(G):
    """a terminal is not the head of an empty production (heads are variables): no symbol but the sentinel is queued twice"""
    return ForAll([x], Implies(G.Tm[x], ForAll([pr], Implies(And(G.P[pr], Length(body(pr)) == 0), head(pr) != x))))
def tables_ok(G, PR=None, doneP=None, skip=None, built=True):
    """the tables describe the productions in doneP (default: all); `skip` = (s0, i0): a cell under construction, excluded from the per-cell clauses"""
    R, I = G.remaining, G.impacts; PR = G.pr if PR is None else PR
    inP = (lambda p_: G.P[p_]) if doneP is None else doneP
    other = (lambda s, i: BoolVal(True)) if skip is None else (lambda s, i: Not(And(s == skip[0], i == skip[1])))
    return And(G.built.term if built else BoolVal(True),
               ForAll([pr], Implies(And(inP(pr), Length(body(pr)) > 0), And(cdom(R, head(pr), Select(G.cell.term, pr)), other(head(pr), Select(G.cell.term, pr)), prod_of(PR, head(pr), Select(G.cell.term, pr)) == pr))),   # every non-empty production has a cell
               ForAll([s_, i_], Implies(And(cdom(R, s_, i_), other(s_, i_)), And(inP(prod_of(PR, s_, i_)), head(prod_of(PR, s_, i_)) == s_, Length(body(prod_of(PR, s_, i_))) > 0))),
               ForAll([c_, s_, i_], imult(I, c_, s_, i_) >= 0),
               ForAll([c_, s_, i_], Implies(imult(I, c_, s_, i_) > 0, cdom(R, s_, i_))),
               ForAll([c_, s_, i_], Implies(And(cdom(R, s_, i_), other(s_, i_)), imult(I, c_, s_, i_) == Occ(body(prod_of(PR, s_, i_)), c_))),                               # one entry per position
               ForAll([s_], G.added[s_] == Exists([pr], And(inP(pr), head(pr) == s_, Length(body(pr)) == 0))),
               ForAll([s_], Implies(rdom(R, s_), rlist(R, s_).len.term >= 0)))
def fresh_counters(G, PR=None, skip=None):
    PR = G.pr if PR is None else PR
    other = (lambda s, i: BoolVal(True)) if skip is None else (lambda s, i: Not(And(s == skip[0], i == skip[1])))
    return ForAll([s_, i_], Implies(And(cdom(G.remaining, s_, i_), other(s_, i_)), cval(G.remaining, s_, i_) == Length(body(prod_of(PR, s_, i_)))))
# ------------------------------------------------------------------ the table builder
# Representation invariant of built tables (precondition of everything that reads them): consistent with the productions, counters at their
# initial values.  The builder establishes it; _get_generating_or_nullable restores it (also proved in contracts/cfg_cache.py).
def tables_inv(G): return Implies(G.built.term, And(tables_ok(G), fresh_counters(G)))
OccPre = Function('OccPre', SeqOb.sort(), IntSort(), Ob.sort(), IntSort())          # occurrences among the first i positions   (List.count of List.take)
OCCPRE_FACTS = [ForAll([sq, c_], OccPre(sq, 0, c_) == 0),
                # step, with a trigger made of two existing terms (a pattern containing i + 1 is matched syntactically and is not reliable)
                ForAll([sq, i_, j_, c_], Implies(And(0 <= i_, i_ < Length(sq), j_ == i_ + 1), OccPre(sq, j_, c_) == OccPre(sq, i_, c_) + If(sq[i_] == c_, 1, 0)),
                       patterns=[MultiPattern(OccPre(sq, j_, c_), OccPre(sq, i_, c_))]),
                ForAll([sq, c_], OccPre(sq, Length(sq), c_) == Occ(sq, c_))]
W.axioms += OCCPRE_FACTS
W.attr_none_tests = {('CFGGen', '_impacts'): lambda base: Not(base.built.term)}
W.fields[('CFGGen', '_impacts')] = lambda o: o.impacts
W.fields[('CFGGen', '_impacts', 'set')] = lambda base, val: base.t.update(base.t.update(base, 'impacts', val), 'built', Sym(TBool, BoolVal(True)))
def cur_cell(e): return (head(e.production.term), e.index_impact.term)
def build_inv(e, done):
    G = e.self
    return And(tables_ok(G, doneP=lambda p_: done[p_]), fresh_counters(G), frame_b(e))
def build_inv_inner(e, i):
    G = e.self; s0, i0 = cur_cell(e); b = body(e.production.term); dn = e.get('$done0')
    return And(tables_ok(G, doneP=lambda p_: dn[p_], skip=(s0, i0)), fresh_counters(G, skip=(s0, i0)), frame_b(e),
               e.head.term == s0, e.body.term == b, Length(b) > 0, cdom(G.remaining, s0, i0), cval(G.remaining, s0, i0) == Length(b),
               ForAll([c_], imult(G.impacts, c_, s0, i0) == OccPre(b, i.term, c_)))
def frame_b(e):
    o = e.get('$old.self')
    return And(e.self.Tm == o.Tm, e.self.P == o.P, e.self.S == o.S, e.self.gen == o.gen, e.self.gen_none == o.gen_none, e.self.nul == o.nul, e.self.nul_none == o.nul_none, e.self.built.term)
def pr_update(e):
    if e.get('index_impact') is None: return {}
    b = body(e.production.term)
    return {'self.pr': Sym(PRT, If(Length(b) > 0, Store(e.self.pr.term, head(e.production.term), e.index_impact.term, e.production.term), e.self.pr.term)),
            'self.cell': Sym(CELLT, If(Length(b) > 0, Store(e.self.cell.term, e.production.term, e.index_impact.term), e.self.cell.term))}
W.contract(Contract('CFGGen._set_impacts_and_remaining_lists', [('self', GT)], ret=TNone, modifies=('self',),
    requires=lambda o: tables_inv(o.self),
    ensures=lambda o, r, n: And(tables_ok(n.self), fresh_counters(n.self), n.self.Tm == o.self.Tm, n.self.P == o.self.P, n.self.S == o.self.S,
                                n.self.gen == o.self.gen, n.self.gen_none == o.self.gen_none, n.self.nul == o.self.nul, n.self.nul_none == o.self.nul_none,
                                Implies(o.self.built.term, n.self == o.self)),
    ghost_updates={'0': pr_update}, ghost_fields_of=('self',),
    loops={'0': build_inv, '0.0': build_inv_inner}))

# ------------------------------------------------------------------ the worklist
BUILT = '$post._set_impacts_and_remaining_lists.self'
def base_of(e): return If(e.nullable.term, K(Ob.sort(), False), e.get(BUILT).Tm.term)
def gns(e): return GNS(e.get(BUILT).P.term, base_of(e))
def common(e, POP, pending_current=None):
    """facts shared by all loops: g_symbols = popped + pending, everything in it is generating (or the sentinel), the tables are the built ones"""
    g, tp, B0 = e.g_symbols, e.to_process, e.get(BUILT)
    cur = (lambda v: v == pending_current) if pending_current is not None else (lambda v: BoolVal(False))
    return And(g[EPSOB], ForAll([x], And(tp[x] >= 0, Implies(x != EPSOB, tp[x] <= 1))),          # the sentinel may be queued twice (when it is also listed as a terminal)
               ForAll([x], Implies(Select(POP, x), g[x])), ForAll([x], Implies(tp[x] > 0, And(g[x], Or(x == EPSOB, Not(Select(POP, x)))))),
               ForAll([x], Implies(g[x], Or(Select(POP, x), tp[x] > 0, cur(x)))),
               ForAll([x], Implies(g[x], Or(x == EPSOB, Select(gns(e), x)))),
               e.self.impacts == B0.impacts, e.self.added == B0.added, e.self.Tm == B0.Tm, e.self.P == B0.P, e.self.S == B0.S, e.self.built.term, e.self.pr == B0.pr, e.self.cell == B0.cell,
               e.self.gen == B0.gen, e.self.gen_none == B0.gen_none, e.self.nul == B0.nul, e.self.nul_none == B0.nul_none,
               same_shape(e.self.remaining, B0.remaining))
def counters(e, POP, minus=None):
    """a symbol outside the result has, in each of its cells, |body| - (positions already popped) [- entries of the current symbol already handled], and that is > 0"""
    g, B0 = e.g_symbols, e.get(BUILT); PR = B0.pr
    m = (lambda s, i: Select(minus.term, pair(s, i))) if minus is not None else (lambda s, i: 0)
    return ForAll([s_, i_], Implies(And(cdom(B0.remaining, s_, i_), Not(g[s_])),
                                    And(cval(e.self.remaining, s_, i_) == Length(body(prod_of(PR, s_, i_))) - NP(POP, body(prod_of(PR, s_, i_))) - m(s_, i_),
                                        cval(e.self.remaining, s_, i_) > 0)))
EMPTY = K(Ob.sort(), False)
def pop(e): return e.get('$g.POP').term
def added_in(e): return ForAll([x], Implies(e.get(BUILT).added[x], e.g_symbols[x]))
def base_in(e): return ForAll([x], Implies(Select(base_of(e), x), e.g_symbols[x]))
def inv_pre(e, done):          # loop 0, over _added_impacts
    return And(common(e, EMPTY), counters(e, EMPTY), ForAll([x], Implies(done[x], e.g_symbols[x])),
               ForAll([x], Implies(e.g_symbols[x], Or(x == EPSOB, done[x]))))
def inv_ter(e, done):          # loop if0.0, over _terminals (only when nullable is False)
    return And(common(e, EMPTY), counters(e, EMPTY), ForAll([x], Implies(done[x], e.g_symbols[x])), added_in(e),
               ForAll([x], Implies(e.g_symbols[x], Or(x == EPSOB, e.get(BUILT).added[x], done[x]))))
def restore(e, plus=None):
    """every counter = its built value - entries of the cell in processed_with_modification (+ those already given back)"""
    B0 = e.get(BUILT); pwm = e.processed_with_modification
    back = (lambda s, i: Select(plus.term, pair(s, i))) if plus is not None else (lambda s, i: 0)
    return ForAll([s_, i_], Implies(cdom(B0.remaining, s_, i_), cval(e.self.remaining, s_, i_) == cval(B0.remaining, s_, i_) - pwm[pair(s_, i_)] + back(s_, i_)))
def pwm_ok(e):
    return And(restore(e), ForAll([s_, i_], e.processed_with_modification[pair(s_, i_)] >= 0),
               ForAll([s_, i_], Implies(e.processed_with_modification[pair(s_, i_)] > 0, cdom(e.get(BUILT).remaining, s_, i_))))
def inv_w(e, done): return And(common(e, pop(e)), counters(e, pop(e)), base_in(e), added_in(e), pwm_ok(e))
def inv_w0(e, done):
    cur = e.current.term
    return And(common(e, pop(e), cur), e.g_symbols[cur], Or(cur == EPSOB, And(Not(Select(pop(e), cur)), e.to_process[cur] == 0)), base_in(e), added_in(e), counters(e, pop(e), done), step_facts(e),
               ForAll([s_, i_], Implies(Select(done.term, pair(s_, i_)) > 0, cdom(e.get(BUILT).remaining, s_, i_))),
               pwm_ok(e))
def step_facts(e):
    """consequence of the counting facts, stated so that the term NP(POPPED + current, body) exists where it is needed"""
    cur, B0 = e.current.term, e.get(BUILT); PR = B0.pr
    return ForAll([s_, i_], Implies(cdom(B0.remaining, s_, i_), NP(Store(pop(e), cur, True), body(prod_of(PR, s_, i_))) == NP(pop(e), body(prod_of(PR, s_, i_))) + Occ(body(prod_of(PR, s_, i_)), cur)))
def sound_lemma(o):
    """a production whose body lies in a set of generating symbols (or the sentinel, which no body contains) has a generating head"""
    P = o.self.P; B = If(o.nullable.term, EMPTY, o.self.Tm.term)
    return ForAll([X_, pr], Implies(And(P[pr], AllIn(X_, body(pr)), ForAll([y], Implies(Select(X_, y), Or(y == EPSOB, Select(GNS(P.term, B), y))))), Select(GNS(P.term, B), head(pr))))
def inv_r(e, done):            # restoring loop: the result set is final; cells listed in processed_with_modification exist
    return And(restore(e, done), ForAll([s_, i_], e.processed_with_modification[pair(s_, i_)] >= 0), ForAll([s_, i_], Implies(e.processed_with_modification[pair(s_, i_)] > 0, cdom(e.get(BUILT).remaining, s_, i_))),
               same_shape(e.self.remaining, e.get(BUILT).remaining),
               e.self.Tm == e.get(BUILT).Tm, e.self.P == e.get(BUILT).P, e.self.S == e.get(BUILT).S, e.self.pr == e.get(BUILT).pr, e.self.cell == e.get(BUILT).cell, e.self.impacts == e.get(BUILT).impacts, e.self.added == e.get(BUILT).added, e.self.built.term,
               e.self.gen == e.get(BUILT).gen, e.self.gen_none == e.get(BUILT).gen_none, e.self.nul == e.get(BUILT).nul, e.self.nul_none == e.get(BUILT).nul_none)

def gn_post(o, r, n):
    B = If(o.nullable.term, EMPTY, o.self.Tm.term)
    return And(ForAll([x], r[x] == And(x != EPSOB, Select(GNS(o.self.P.term, B), x))),
               n.self.Tm == o.self.Tm, n.self.P == o.self.P, n.self.S == o.self.S, n.self.gen == o.self.gen, n.self.gen_none == o.self.gen_none, n.self.nul == o.self.nul, n.self.nul_none == o.self.nul_none)
W.contract(Contract('CFGGen._get_generating_or_nullable', [('self', GT), ('nullable', TBool)], ret=SetOb, modifies=('self',),
    requires=lambda o: And(no_eps_bodies(o.self), terminals_clean(o.self), tables_inv(o.self)), ensures=lambda o, r, n: And(gn_post(o, r, n), tables_ok(n.self), fresh_counters(n.self)),
    locals={'processed_with_modification': BagPair},
    ghost_state={'POP': (SetOb, lambda o: SetOb.empty())},
    ghost_updates={'1': lambda e: {'POP': Sym(SetOb, Store(e.get('$g.POP').term, e.current.term, True))}},
    entry_lemmas=lambda o: [('a body inside the generating symbols gives a generating head', [ALLIN_DEF, GN_STEP], sound_lemma(o)),
                            ('the sentinel occurs in no body', [COUNT_FACTS[4], COUNT_FACTS[5]], ForAll([pr], Implies(o.self.P[pr], Occ(body(pr), EPSOB) == 0)))],
    loop_post={'1': lambda e: [e.g_symbols.term == pop(e),                                                                                   # nothing pending: the result is what was popped
                               ForAll([pr], Implies(And(e.get(BUILT).P[pr], AllIn(e.g_symbols.term, body(pr))), e.g_symbols[head(pr)]))]},   # and it is closed under the productions
    hints=lambda o, e, r: [gn_induction(o.self.P.term, If(o.nullable.term, EMPTY, o.self.Tm.term), Store(r.term, EPSOB, True))],
    if_ordinals=True, loops={'0': inv_pre, 'if0.0': inv_ter, '1': inv_w, '1.0': inv_w0, '2': inv_r}))

# ------------------------------------------------------------------ generate_epsilon (C08): the same worklist on a copy of the counters, stopping at the start symbol
W.identity_fns |= {'deepcopy'}                     # a deep copy of a dict of lists of ints is the same value
def ge_frame(e):
    B0 = e.get(BUILT)
    return e.self == B0                            # the object itself is not touched after the tables are built: the counters are decremented on a copy
def ge_common(e, POP, pending_current=None):
    g, tp, B0 = e.generate_epsilon, e.to_process, e.get(BUILT); nul = GNS(B0.P.term, EMPTY)
    cur = (lambda v: v == pending_current) if pending_current is not None else (lambda v: BoolVal(False))
    return And(g[EPSOB], ForAll([x], And(tp[x] >= 0, tp[x] <= 1)), Not(g[B0.S.term]),
               ForAll([x], Implies(Select(POP, x), g[x])), ForAll([x], Implies(tp[x] > 0, And(g[x], Not(Select(POP, x))))),
               ForAll([x], Implies(g[x], Or(Select(POP, x), tp[x] > 0, cur(x)))),
               ForAll([x], Implies(g[x], Or(x == EPSOB, Select(nul, x)))), ge_frame(e))
def ge_counters(e, R, POP, minus=None):
    g, B0 = e.generate_epsilon, e.get(BUILT); PR = B0.pr
    m = (lambda s, i: Select(minus.term, pair(s, i))) if minus is not None else (lambda s, i: 0)
    return And(same_shape(R, B0.remaining),
               ForAll([s_, i_], Implies(And(cdom(B0.remaining, s_, i_), Not(g[s_])),
                                        And(cval(R, s_, i_) == Length(body(prod_of(PR, s_, i_))) - NP(POP, body(prod_of(PR, s_, i_))) - m(s_, i_), cval(R, s_, i_) > 0))))
def ge_step_facts(e):
    cur, B0 = e.current.term, e.get(BUILT); PR = B0.pr
    return ForAll([s_, i_], Implies(cdom(B0.remaining, s_, i_), NP(Store(pop(e), cur, True), body(prod_of(PR, s_, i_))) == NP(pop(e), body(prod_of(PR, s_, i_))) + Occ(body(prod_of(PR, s_, i_)), cur)))
def ge_added(e, done=None):
    B0 = e.get(BUILT)
    return ForAll([x], Implies(And(B0.added[x], (done[x] if done is not None else BoolVal(True))), e.generate_epsilon[x]))
def ge_post(o, r, n):
    return And(r.term == Select(GNS(o.self.P.term, EMPTY), o.self.S.term), tables_ok(n.self), fresh_counters(n.self),
               n.self.Tm == o.self.Tm, n.self.P == o.self.P, n.self.S == o.self.S, n.self.gen == o.self.gen, n.self.gen_none == o.self.gen_none, n.self.nul == o.self.nul, n.self.nul_none == o.self.nul_none)
def ge_sound(o):
    P = o.self.P
    return ForAll([X_, pr], Implies(And(P[pr], AllIn(X_, body(pr)), ForAll([y], Implies(Select(X_, y), Or(y == EPSOB, Select(GNS(P.term, EMPTY), y))))), Select(GNS(P.term, EMPTY), head(pr))))
W.contract(Contract('CFGGen.generate_epsilon', [('self', GT)], ret=TBool, modifies=('self',),
    requires=lambda o: And(no_eps_bodies(o.self), tables_inv(o.self), o.self.S.term != EPSOB), ensures=ge_post,
    ghost_state={'POP': (SetOb, lambda o: SetOb.empty())},
    ghost_updates={'1': lambda e: {'POP': Sym(SetOb, Store(e.get('$g.POP').term, e.current.term, True))}},
    entry_lemmas=lambda o: [('a body inside the nullable symbols gives a nullable head', [ALLIN_DEF, GN_STEP], ge_sound(o)),
                            ('the sentinel occurs in no body', [COUNT_FACTS[4], COUNT_FACTS[5]], ForAll([pr], Implies(o.self.P[pr], Occ(body(pr), EPSOB) == 0)))],
    loop_post={'1': lambda e: [e.generate_epsilon.term == pop(e),
                               ForAll([pr], Implies(And(e.get(BUILT).P[pr], AllIn(e.generate_epsilon.term, body(pr))), e.generate_epsilon[head(pr)]))]},
    hints=lambda o, e, r: [gn_induction(o.self.P.term, EMPTY, e.generate_epsilon.term)] if 'generate_epsilon' in e else [],
    loops={'0': lambda e, done: And(ge_common(e, EMPTY), ge_counters(e, e.self.remaining, EMPTY), ge_added(e, done),
                                    ForAll([x], Implies(e.generate_epsilon[x], Or(x == EPSOB, done[x])))),
           '1': lambda e, done: And(ge_common(e, pop(e)), ge_counters(e, e.remaining_lists, pop(e)), ge_added(e)),
           '1.0': lambda e, done: And(ge_common(e, pop(e), e.current.term), e.generate_epsilon[e.current.term], Not(Select(pop(e), e.current.term)), e.to_process[e.current.term] == 0,
                                      ge_counters(e, e.remaining_lists, pop(e), done), ge_added(e), ge_step_facts(e),
                                      ForAll([s_, i_], Implies(Select(done.term, pair(s_, i_)) > 0, cdom(e.get(BUILT).remaining, s_, i_))))}))

# ------------------------------------------------------------------ the memoising wrappers
OPTSET = TRec('OptSetOb', [('isnone', TBool), ('val', SetOb)])          # Optional[set]: None or a set
W.none_tests = {'OptSetOb': lambda sym: sym.isnone.term}
W.fields[('CFGGen', '_generating_symbols')] = lambda o: OPTSET.make(isnone=o.gen_none, val=o.gen)
W.fields[('CFGGen', '_generating_symbols', 'set')] = lambda base, val: base.t.update(base.t.update(base, 'gen', val), 'gen_none', Sym(TBool, BoolVal(False)))
W.fields[('CFGGen', '_nullable_symbols')] = lambda o: OPTSET.make(isnone=o.nul_none, val=o.nul)
W.fields[('CFGGen', '_nullable_symbols', 'set')] = lambda base, val: base.t.update(base.t.update(base, 'nul', val), 'nul_none', Sym(TBool, BoolVal(False)))
# set.copy() of the memo (fix: the getters hand out a copy): the same set as a value - that the copy is a *different object* is what the value-level view
# cannot say; the C19 histories generating+mutate / nullable+mutate check it at run time.  None.copy() would raise: excluded by the precondition.
W.contract(Contract('OptSetOb.copy', [('self', OPTSET)], ret=OPTSET, requires=lambda o: Not(o.self.isnone.term), pure=lambda o: o.self))
def is_gns(S, G, B): return ForAll([x], Select(S, x) == And(x != EPSOB, Select(GNS(G.P.term, B), x)))
def memo_ok(G):
    """representation invariant of the memo fields: None, or the set the worklist computes"""
    return And(Or(G.gen_none.term, is_gns(G.gen.term, G, G.Tm.term)), Or(G.nul_none.term, is_gns(G.nul.term, G, EMPTY)))
def wrapper(name, base, which):
    W.contract(Contract(name, [('self', GT)], ret=OPTSET, modifies=('self',),
        requires=lambda o: And(no_eps_bodies(o.self), terminals_clean(o.self), memo_ok(o.self), tables_inv(o.self)),
        ensures=lambda o, r, n: And(Not(r.isnone.term), is_gns(r.val.term, o.self, base(o)), memo_ok(n.self), tables_inv(n.self), n.self.P == o.self.P, n.self.Tm == o.self.Tm, n.self.S == o.self.S,
                                    *( [n.self.nul == o.self.nul, n.self.nul_none == o.self.nul_none] if which == 'gen' else [n.self.gen == o.self.gen, n.self.gen_none == o.self.gen_none]))))
wrapper('CFGGen.get_generating_symbols', lambda o: o.self.Tm.term, 'gen')
wrapper('CFGGen.get_nullable_symbols', lambda o: EMPTY, 'nul')

W.ground_sorts = (Ob.sort(),)
W.special = {}
_P = 'pyformlang/cfg/cfg.py'
TARGETS = {'CFGGen._set_impacts_and_remaining_lists': (_P, 'CFG._set_impacts_and_remaining_lists'), 'CFGGen._get_generating_or_nullable': (_P, 'CFG._get_generating_or_nullable'), 'CFGGen.get_generating_symbols': (_P, 'CFG.get_generating_symbols'),
           'CFGGen.get_nullable_symbols': (_P, 'CFG.get_nullable_symbols'), 'CFGGen.generate_epsilon': (_P, 'CFG.generate_epsilon')}
SMOKE = [
    ('CFGGen.generate_epsilon', _P, "                    if symbol_impact == self._start_symbol:\n                        return True\n", "", 'break'),
    ('CFGGen.generate_epsilon', _P, "            if symbol == self._start_symbol:\n                return True\n", "            if symbol == self._start_symbol:\n                return False\n", 'break'),
    ('CFGGen.generate_epsilon', _P, "        remaining_lists = deepcopy(remaining_lists)\n", "", 'break'),
    ('CFGGen._set_impacts_and_remaining_lists', _P, "            temp.append(len(body))\n            index_impact = len(temp) - 1", "            temp.append(len(body))\n            index_impact = len(temp)", 'break'),
    ('CFGGen._set_impacts_and_remaining_lists', _P, "            if not body:\n                self._added_impacts.add(head)\n                continue", "            if not body:\n                continue", 'break'),
    ('CFGGen.get_generating_symbols', _P, "            self._generating_symbols = self._get_generating_or_nullable(False)", "            self._generating_symbols = self._get_generating_or_nullable(True)", 'break'),
    ('CFGGen.get_nullable_symbols', _P, "        if self._nullable_symbols is None:\n            self._nullable_symbols = self._get_generating_or_nullable(True)", "        if self._generating_symbols is None:\n            self._nullable_symbols = self._get_generating_or_nullable(True)", 'break'),
    ('CFGGen._get_generating_or_nullable', _P, "                self._remaining_lists[symbol_impact][index_impact] -= 1\n", "                self._remaining_lists[symbol_impact][index_impact] -= 2\n", 'break'),
    ('CFGGen._get_generating_or_nullable', _P, "                if self._remaining_lists[symbol_impact][index_impact] == 0:", "                if self._remaining_lists[symbol_impact][index_impact] <= 1:", 'break'),
    ('CFGGen._get_generating_or_nullable', _P, "        if not nullable:\n            for terminal in self._terminals:", "        if nullable:\n            for terminal in self._terminals:", 'break'),
    ('CFGGen._get_generating_or_nullable', _P, "                if symbol_impact in g_symbols:\n                    continue\n", "", 'break'),
    ('CFGGen._get_generating_or_nullable', _P, "                    g_symbols.add(symbol_impact)\n                    to_process.append(symbol_impact)\n        # Fix", "                    g_symbols.add(symbol_impact)\n        # Fix", 'break'),
]
