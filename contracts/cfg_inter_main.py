"""CFG.intersection (C11): the result is exactly the Bar-Hillel grammar of the normal form of the grammar and the determinised automaton.
The three kinds of productions are the named predicates of contracts/cfg_inter.py (whose definitions this world does not need and does not load);
the helper functions are used through their contracts, proved there."""
import ast
from z3 import *
from pyvc.vtypes import *
from pyvc.engine import World, Contract, NS, Unsupported
import contracts.cfg as C
import contracts.cfg_inter as H
from contracts.cfg_inter import (Ob, SetOb, SeqOb, Prod, SetProd, BagProd, CFGT, St, Sy, SetSt, DFA, CONV, START, BH2, BH1, BHS, isVar, head, body, mkprod, det, TNT, WT, SR,
                                 x, pr, q, p_, q_, r_, f_)
W = World()
W.axioms += Prod.axioms() + [isVar(START)]
W.consts['None'] = NONE_SYM
W.seq_literals = {Ob}
W.list_of_set_is_the_set = True
for key_, fld_ in H.W.fields.items(): W.fields[key_] = fld_
W.ctors['Variable'] = H.variable_ctor; W.ctors['Production'] = H.production_ctor
_P = H._P
# ------------------------------------------------------------------ CFG.intersection
# call-site forms of the static helpers (called through self)
for nm_, pars_ in [('_intersection_when_two_non_terminals', TNT), ('_intersection_when_terminal', WT), ('_intersection_starting_rules', SR)]:
    c0 = H.W.contracts['fn.' + nm_]
    W.contract(Contract('CFG.' + nm_, [('self', CFGT)] + pars_, ret=BagProd, requires=c0.requires, ensures=c0.ensures))
FAany = TRec('FAany', [('k', TBool)]); RegexI = TRec('RegexI', [('k', TBool)])
W.isinstance_preds['Regex'] = lambda s: BoolVal(s.t == RegexI)
W.isinstance_preds['FiniteAutomaton'] = lambda s: BoolVal(s.t in (FAany, DFA))
DETF = Function('to_deterministic_of', FAany.sort(), DFA.sort()); ENFAOF = Function('to_epsilon_nfa_of', RegexI.sort(), FAany.sort())
NF = Function('to_normal_form_of', CFGT.sort(), CFGT.sort())
genEps = Function('cfg_contains_empty_word', CFGT.sort(), BoolSort()); dfaEmpty = Function('dfa_language_is_empty', DFA.sort(), BoolSort())
NOSTART = Const('no_start_symbol', Ob.sort())
def wfd(A): return And(det(A), ForAll([p_], Implies(A.I[p_], A.Q[p_])), ForAll([p_], Implies(A.F[p_], A.Q[p_])))
def cnf(G): return ForAll([pr], Implies(G.P[pr], Or(And(Length(body(pr)) == 2, isVar(body(pr)[0]), isVar(body(pr)[1])), And(Length(body(pr)) == 1, Not(isVar(body(pr)[0]))))), patterns=[G.P[pr]])
# assumed contracts (language parts: C09, C01/C02; shape of to_normal_form: proved in contracts/cfg_nf.py)
W.contract(Contract('FAany.to_deterministic', [('self', FAany)], ret=DFA, ensures=lambda o, r, n: And(r == DETF(o.self.term), wfd(r))))
W.contract(Contract('RegexI.to_epsilon_nfa', [('self', RegexI)], ret=FAany, pure=lambda o: Sym(FAany, ENFAOF(o.self.term))))
W.contract(Contract('CFG.to_normal_form', [('self', CFGT)], ret=CFGT, ensures=lambda o, r, n: And(r == NF(o.self.term), cnf(r))))
W.contract(Contract('CFG.contains', [('self', CFGT), ('word', SeqOb)], ret=TBool, ensures=lambda o, r, n: Implies(Length(o.word.term) == 0, r == genEps(o.self.term))))
W.contract(Contract('DFAI.is_empty', [('self', DFA)], ret=TBool, pure=lambda o: Sym(TBool, dfaEmpty(o.self.term))))
# a deterministic automaton without epsilon transitions accepts the empty word iff its start state is final
W.contract(Contract('DFAI.accepts', [('self', DFA), ('word', TSeq(Sy))], ret=TBool,
                    ensures=lambda o, r, n: Implies(Length(o.word.term) == 0, r == Exists([p_], And(o.self.I[p_], o.self.F[p_])))))
W.ctors['CFGVariableConverter'] = lambda eng, e, st: CONV.fresh('converter')
def cfg_ctor(eng, e, st):
    if not e.args and not e.keywords:                                     # CFG(): no symbols, no productions, no start symbol
        return CFGT.make(V=SetOb.empty(), Tm=SetOb.empty(), S=Sym(Ob, NOSTART), P=SetProd.empty())
    return C.cfg_ctor(eng, e, st)
W.ctors['CFG'] = cfg_ctor
def bar_hillel(inR, N, A, eps, done=None, pat=None):
    """inR holds exactly of the Bar-Hillel productions for the productions of N covered by `done` (all of them when None);
    the start rules and the empty production are included iff done is None"""
    cov = (lambda p: N.P[p]) if done is None else (lambda p: done[p])
    two_ = lambda pp: Length(body(pp)) == 2
    alts = lambda q__: [Exists([pr], And(cov(pr), two_(pr), BH2(pr, A.Q.term, q__)), patterns=[BH2(pr, A.Q.term, q__)]),
                        Exists([pr], And(cov(pr), Not(two_(pr)), BH1(pr, A.term, q__)), patterns=[BH1(pr, A.term, q__)])] \
        + ([BHS(N.S.term, A.term, q__), And(eps, q__ == mkprod(START, Empty(SeqOb.sort())))] if done is None else [])
    cl = [ForAll([q], Implies(inR(q), Or(alts(q))), patterns=[(pat or inR)(q)]),
          ForAll([pr, q], Implies(And(cov(pr), two_(pr), BH2(pr, A.Q.term, q)), inR(q)), patterns=[BH2(pr, A.Q.term, q)]),
          ForAll([pr, q], Implies(And(cov(pr), Not(two_(pr)), BH1(pr, A.term, q)), inR(q)), patterns=[BH1(pr, A.term, q)])]
    if done is None: cl += [ForAll([q], Implies(BHS(N.S.term, A.term, q), inR(q)), patterns=[BHS(N.S.term, A.term, q)]), Implies(eps, inR(mkprod(START, Empty(SeqOb.sort()))))]
    return And(cl)
def inter_post(A_of):
    def post(o, r, n):
        A = H.dfa_ns(A_of(o))
        Nt = Sym(CFGT, NF(o.self.term)); N = NS({'P': CFGT.get(Nt, 'P'), 'S': CFGT.get(Nt, 'S')})
        eps = And(genEps(o.self.term), Exists([p_], And(A.I[p_], A.F[p_])))
        return If(dfaEmpty(A.term), And(ForAll([q], Not(r.P[q])), ForAll([x], Not(r.V[x])), ForAll([x], Not(r.Tm[x])), r.S == NOSTART),
                  And(r.S == START, bar_hillel(lambda q__: r.P[q__], N, A, eps)))
    return post
def inter_inv(e, done):
    return And(ForAll([q], e.new_productions[q] >= 0), bar_hillel(lambda q__: e.new_productions[q__] > 0, e.cfg, e.other, None, done, pat=lambda q__: e.new_productions[q__]))
for suffix, OT, A_of in [('fa', FAany, lambda o: DETF(o.other.term)), ('regex', RegexI, lambda o: DETF(ENFAOF(o.other.term)))]:
    W.contract(Contract('CFG.intersection#' + suffix, [('self', CFGT), ('other', OT)], ret=CFGT, fresh_result=True,
        ensures=inter_post(A_of), locals={'new_productions': BagProd}, loops={'0': inter_inv}))

# any operand that is neither a Regex nor a FiniteAutomaton: NotImplementedError, always
OtherOperand = TRec('OtherOperand', [('k', TBool)])
W.contract(Contract('CFG.intersection#other', [('self', CFGT), ('other', OtherOperand)], ret=CFGT, raises={'NotImplementedError': lambda o: BoolVal(True)}))

W.ground_sorts = (Ob.sort(), St.sort())
W.special = {}
TARGETS = {'CFG.intersection#fa': (_P, 'CFG.intersection'), 'CFG.intersection#regex': (_P, 'CFG.intersection'), 'CFG.intersection#other': (_P, 'CFG.intersection')}
VERIFIED_ELSEWHERE = {'CFG._intersection_when_two_non_terminals': 'contracts.cfg_inter', 'CFG._intersection_when_terminal': 'contracts.cfg_inter', 'CFG._intersection_starting_rules': 'contracts.cfg_inter'}
SMOKE = [
    ('CFG.intersection#other', _P, "        else:\n            raise NotImplementedError\n        if other.is_empty():", "        else:\n            raise TypeError\n        if other.is_empty():", 'break'),
    ('CFG.intersection#other', _P, "        else:\n            raise NotImplementedError\n        if other.is_empty():", "        else:\n            return CFG()\n        if other.is_empty():", 'break'),
    ('CFG.intersection#fa', _P, "            if len(production.body) == 2:\n                new_productions += self._intersection_when_two", "            if len(production.body) != 1:\n                new_productions += self._intersection_when_two", 'benign'),
    ('CFG.intersection#fa', _P, "            if len(production.body) == 2:\n                new_productions += self._intersection_when_two", "            if len(production.body) >= 1:\n                new_productions += self._intersection_when_two", 'break'),
    ('CFG.intersection#fa', _P, "        if generate_empty:\n            new_productions.append", "        if True:\n            new_productions.append", 'break'),
    ('CFG.intersection#regex', _P, "generate_empty = self.contains([]) and other.accepts([])", "generate_empty = self.contains([]) or other.accepts([])", 'break'),
    ('CFG.intersection#fa', _P, "        new_productions += self._intersection_starting_rules(cfg,\n                                                             other,\n                                                             cv_converter)\n", "", 'break'),
    ('CFG.intersection#fa', _P, "        cfg = self.to_normal_form()\n        states", "        cfg = self\n        states", 'break'),
    ('CFG.intersection#fa', _P, "        res_cfg = CFG(start_symbol=start, productions=new_productions)", "        res_cfg = CFG(start_symbol=cfg.start_symbol, productions=new_productions)", 'break'),
    ('CFG.intersection#fa', _P, "            new_productions.append(Production(start, []))", "            new_productions += [Production(start, [])]", 'benign'),
]
