"""CFG.intersection with a regular language (C11): the Bar-Hillel construction, exact structure of the four helper functions and of the result.

With the grammar in Chomsky normal form (shape proved for to_normal_form, contracts/cfg_nf.py), a deterministic automaton (Q, delta, q0, F)
and the triple naming tri(p, A, r) of the variable converter, the result consists of exactly
    [p, A, r] -> [p, B, q] [q, C, r]     for every production A -> B C and all states p, q, r        (_intersection_when_two_non_terminals)
    [p, A, q] -> a                       for every production A -> a and state p with delta(p, a) = q   (_intersection_when_terminal)
    Start -> [q0, S, f]                  for every final state f                                     (_intersection_starting_rules)
    Start -> (empty)                     when both operands accept the empty word
and nothing else.  That this grammar generates L(G) /\ L(A) is the Bar-Hillel theorem (Hopcroft-Motwani-Ullman 7.27), assumed.
Assumed contracts: the variable converter (a function of the triple; its injectivity - distinct triples get distinct variables - is what the
language statement needs and is NOT proved here: the converter caches indices on the State / Variable objects, bounded stand-in C11 / C19),
to_normal_form (language), contains([]), accepts([]), to_deterministic, the automaton's call (a list with at most one state).
"""
import ast
from z3 import *
from pyvc.vtypes import *
from pyvc.engine import World, Contract, NS, Unsupported
import contracts.cfg as C

W = World()
Ob, SetOb, SeqOb, Prod, SetProd, BagProd = C.Ob, C.SetOb, C.SeqOb, C.Prod, C.SetProd, C.BagProd
isVar, head, body, mkprod = C.isVar, C.head, C.body, C.mkprod
St, Sy = TVal('St'), TVal('Sy')
SetSt, SeqSt = TSet(St), TSeq(St)
BagSeq = TBag(SeqOb)
W.axioms += Prod.axioms()
W.consts['None'] = NONE_SYM
W.seq_literals = {Ob}
W.list_of_set_is_the_set = True
x = Const('x', Ob.sort()); pr, q = Consts('pr q', Prod.sort()); p_, q_, r_, f_ = Consts('p_ q_ r_ f_', St.sort()); sq = Const('sq', SeqOb.sort()); a_ = Const('a_', Sy.sort())

# ------------------------------------------------------------------ views
CFGT = C.CFGT
for key_, fld_ in C.W.fields.items(): W.fields[key_] = fld_
RelT = TRel(St, Sy, St)
DFA = TRec('DFAI', [('Q', SetSt), ('D', RelT), ('I', SetSt), ('F', SetSt)])
for py, f in [('states', 'Q'), ('start_states', 'I'), ('final_states', 'F')]: W.fields[('DFAI', py)] = f
symOf = Function('symbol_of', Ob.sort(), Sy.sort())                    # the automaton symbol with the value of a terminal
W.fields[('Ob', 'value')] = lambda o: Sym(Sy, symOf(o.term))
NEXT = Function('dfa_next', RelT.sort(), St.sort(), Sy.sort(), SeqSt.sort())     # DeterministicFiniteAutomaton.__call__: [] or [the successor]
D_ = Const('D_', RelT.sort())
W.axioms += [ForAll([D_, p_, a_], And(Length(NEXT(D_, p_, a_)) <= 1, (Length(NEXT(D_, p_, a_)) == 1) == Exists([q_], Select(D_, p_, a_, q_)))),
             ForAll([D_, p_, a_], Implies(Length(NEXT(D_, p_, a_)) == 1, Select(D_, p_, a_, NEXT(D_, p_, a_)[0])))]
W.contract(Contract('DFAI.__call__', [('self', DFA), ('state', St), ('symbol', Sy)], ret=SeqSt, pure=lambda o: Sym(SeqSt, NEXT(o.self.D.term, o.state.term, o.symbol.term))))
def det(A): return And(ForAll([p_, a_, q_, r_], Implies(And(A.D[p_, a_, q_], A.D[p_, a_, r_]), q_ == r_)),                      # deterministic, one start state
                       Exists([p_], And(A.I[p_], ForAll([q_], Implies(A.I[q_], q_ == p_)))))
CONV = TRec('CFGVariableConverterI', [('k', TBool)])
tri = Function('triple_variable', St.sort(), Ob.sort(), St.sort(), Ob.sort())
W.axioms.append(ForAll([p_, x, q_], isVar(tri(p_, x, q_))))
W.contract(Contract('CFGVariableConverterI.to_cfg_combined_variable', [('self', CONV), ('state0', St), ('stack_symbol', Ob), ('state1', St)], ret=Ob,
                    pure=lambda o: Sym(Ob, tri(o.state0.term, o.stack_symbol.term, o.state1.term))))
START = Const('Variable_Start', Ob.sort()); W.axioms.append(isVar(START))
def variable_ctor(eng, e, st):
    if len(e.args) == 1 and isinstance(e.args[0], ast.Constant) and e.args[0].value == 'Start': return Sym(Ob, START)
    raise Unsupported('Variable(...) with a non-modelled argument')
W.ctors['Variable'] = variable_ctor
def production_ctor(eng, e, st):
    h = eng.ev(e.args[0], st); b = SeqOb.empty() if eng.is_empty_literal(e.args[1]) else eng.ev(e.args[1], st)
    filtering = True
    for kw in e.keywords:
        if kw.arg == 'filtering' and isinstance(kw.value, ast.Constant): filtering = bool(kw.value.value)
    if b.t != SeqOb: raise Unsupported('Production body that is not a sequence')
    if filtering and not eng.is_empty_literal(e.args[1]): raise Unsupported('Production(...) with filtering of a non-empty body')
    return Prod.make(head=h, body=b)
W.ctors['Production'] = production_ctor
def two(a, b): return Concat(Unit(a), Unit(b))

# ------------------------------------------------------------------ the three kinds of Bar-Hillel productions, as named predicates
Qs = Const('Qs', SetSt.sort()); A_ = Const('A_', DFA.sort()); s_ = Const('s_', Ob.sort())
BH2 = Function('BH_two_variables', Prod.sort(), SetSt.sort(), Prod.sort(), BoolSort())      # q is [p,A,r] -> [p,B,s][s,C,r] for the production A -> B C and states p, s, r
BH1 = Function('BH_terminal', Prod.sort(), DFA.sort(), Prod.sort(), BoolSort())             # q is [p,A,delta(p,a)] -> a for the production A -> a and a state p
BHS = Function('BH_start', Ob.sort(), DFA.sort(), Prod.sort(), BoolSort())                  # q is Start -> [q0,S,f] for a final state f
def dfa_ns(t): A = Sym(DFA, t); return NS({'Q': DFA.get(A, 'Q'), 'D': DFA.get(A, 'D'), 'I': DFA.get(A, 'I'), 'F': DFA.get(A, 'F'), 'term': t})
def _bh2(pr_, Q, q__): b = body(pr_); return Exists([p_, q_, r_], And(Q[p_], Q[q_], Q[r_], q__ == mkprod(tri(p_, head(pr_), r_), two(tri(p_, b[0], q_), tri(q_, b[1], r_)))), patterns=[MultiPattern(tri(p_, head(pr_), r_), tri(p_, b[0], q_))])
def _bh1(pr_, A, q__): b = body(pr_); nx = NEXT(A.D.term, p_, symOf(b[0])); return Exists([p_], And(A.Q[p_], Length(nx) == 1, q__ == mkprod(tri(p_, head(pr_), nx[0]), Unit(b[0]))))
def _bhs(S, A, q__): return Exists([p_, f_], And(A.I[p_], A.F[f_], q__ == mkprod(START, Unit(tri(p_, S, f_)))))
BH_DEFS = [ForAll([pr, Qs, q], BH2(pr, Qs, q) == _bh2(pr, Sym(SetSt, Qs), q), patterns=[BH2(pr, Qs, q)]),
           ForAll([pr, A_, q], BH1(pr, A_, q) == _bh1(pr, dfa_ns(A_), q), patterns=[BH1(pr, A_, q)]),
           ForAll([s_, A_, q], BHS(s_, A_, q) == _bhs(s_, dfa_ns(A_), q), patterns=[BHS(s_, A_, q)])]
W.axioms += BH_DEFS

# ------------------------------------------------------------------ helpers
def bodies_spec(r, pr_, p, rr, Q):
    b = body(pr_)
    return And(ForAll([sq], r[sq] >= 0),
               ForAll([sq], Implies(r[sq] > 0, Exists([q_], And(Q[q_], sq == two(tri(p, b[0], q_), tri(q_, b[1], rr))))), patterns=[r[sq]]),
               ForAll([q_], Implies(Q[q_], r[two(tri(p, b[0], q_), tri(q_, b[1], rr))] > 0), patterns=[Q[q_]]))
GAB = [('production', Prod), ('state_p', St), ('state_r', St), ('states', SetSt), ('cv_converter', CONV)]
W.contract(Contract('fn._get_all_bodies', GAB, ret=BagSeq, requires=lambda o: Length(body(o.production.term)) == 2,
    ensures=lambda o, r, n: bodies_spec(r, o.production.term, o.state_p.term, o.state_r.term, o.states)))
W.ctors['_get_all_bodies'] = lambda eng, e, st: eng.apply_contract(W.contracts['fn._get_all_bodies'], None, None, [eng.ev(a, st) for a in e.args], st, e.lineno)
def two_nt(inR, pr_, Q, cov, pat=None):
    b = body(pr_); h = head(pr_)
    return And(ForAll([q], Implies(inR(q), Exists([p_, q_, r_], And(cov(p_, r_), Q[q_], q == mkprod(tri(p_, h, r_), two(tri(p_, b[0], q_), tri(q_, b[1], r_)))))), patterns=[pat(q)] if pat else []),
               ForAll([p_, q_, r_], Implies(And(cov(p_, r_), Q[q_]), inR(mkprod(tri(p_, h, r_), two(tri(p_, b[0], q_), tri(q_, b[1], r_))))), patterns=[MultiPattern(tri(p_, h, r_), tri(p_, b[0], q_))]))
TNT = [('production', Prod), ('states', SetSt), ('cv_converter', CONV)]
W.contract(Contract('fn._intersection_when_two_non_terminals', TNT, ret=BagProd, requires=lambda o: Length(body(o.production.term)) == 2,
    ensures=lambda o, r, n: And(ForAll([q], r[q] >= 0), ForAll([q], Implies(r[q] > 0, BH2(o.production.term, o.states.term, q)), patterns=[r[q]]), ForAll([q], Implies(BH2(o.production.term, o.states.term, q), r[q] > 0), patterns=[BH2(o.production.term, o.states.term, q)])),
    locals={'productions_temp': BagProd},
    loops={'0': lambda e, done: And(ForAll([q], e.productions_temp[q] >= 0), two_nt(lambda q__: e.productions_temp[q__] > 0, e.production.term, e.states, lambda pp, rr: And(done[pp], e.states[rr]), pat=lambda q__: e.productions_temp[q__])),
           '0.0': lambda e, done: And(ForAll([q], e.productions_temp[q] >= 0),
                                      two_nt(lambda q__: e.productions_temp[q__] > 0, e.production.term, e.states,
                                             lambda pp, rr: Or(And(e.get('$done0')[pp], e.states[rr]), And(pp == e.state_p.term, done[rr])), pat=lambda q__: e.productions_temp[q__]))}))
def term_spec(inR, A, pr_, cov):
    b = body(pr_); h = head(pr_); nx = lambda pp: NEXT(A.D.term, pp, symOf(b[0]))
    return And(ForAll([q], Implies(inR(q), Exists([p_], And(cov(p_), Length(nx(p_)) == 1, q == mkprod(tri(p_, h, nx(p_)[0]), Unit(b[0])))))),
               ForAll([p_], Implies(And(cov(p_), Length(nx(p_)) == 1), inR(mkprod(tri(p_, h, nx(p_)[0]), Unit(b[0]))))))
WT = [('other_fst', DFA), ('production', Prod), ('cv_converter', CONV), ('states', SetSt)]
W.contract(Contract('fn._intersection_when_terminal', WT, ret=BagProd, requires=lambda o: And(Length(body(o.production.term)) == 1, o.states == o.other_fst.Q),
    ensures=lambda o, r, n: And(ForAll([q], r[q] >= 0), ForAll([q], Implies(r[q] > 0, BH1(o.production.term, o.other_fst.term, q)), patterns=[r[q]]), ForAll([q], Implies(BH1(o.production.term, o.other_fst.term, q), r[q] > 0), patterns=[BH1(o.production.term, o.other_fst.term, q)])),
    locals={'productions_temp': BagProd},
    loops={'0': lambda e, done: And(ForAll([q], e.productions_temp[q] >= 0), term_spec(lambda q__: e.productions_temp[q__] > 0, e.other_fst, e.production.term, lambda pp: done[pp]))}))
def start_spec(inR, G, A, cov):
    q0 = lambda: None
    return And(ForAll([q], Implies(inR(q), Exists([p_, f_], And(A.I[p_], cov(f_), q == mkprod(START, Unit(tri(p_, G.S.term, f_))))))),
               ForAll([p_, f_], Implies(And(A.I[p_], cov(f_)), inR(mkprod(START, Unit(tri(p_, G.S.term, f_)))))))
SR = [('cfg', CFGT), ('other', DFA), ('cv_converter', CONV)]
W.contract(Contract('fn._intersection_starting_rules', SR, ret=BagProd, requires=lambda o: det(o.other),
    ensures=lambda o, r, n: And(ForAll([q], r[q] >= 0), ForAll([q], Implies(r[q] > 0, BHS(o.cfg.S.term, o.other.term, q)), patterns=[r[q]]), ForAll([q], Implies(BHS(o.cfg.S.term, o.other.term, q), r[q] > 0), patterns=[BHS(o.cfg.S.term, o.other.term, q)])),
    locals={'productions_temp': BagProd},
    loops={'0': lambda e, done: And(ForAll([q], e.productions_temp[q] >= 0), e.other.I[e.start_other],
                                    start_spec(lambda q__: e.productions_temp[q__] > 0, e.cfg, e.other, lambda ff: done[ff]))}))

W.ground_sorts = (Ob.sort(), St.sort())
W.special = {}
_P = 'pyformlang/cfg/cfg.py'
TARGETS = {'fn._get_all_bodies': (_P, 'CFG._get_all_bodies'), 'fn._intersection_when_two_non_terminals': (_P, 'CFG._intersection_when_two_non_terminals'),
           'fn._intersection_when_terminal': (_P, 'CFG._intersection_when_terminal'), 'fn._intersection_starting_rules': (_P, 'CFG._intersection_starting_rules')}
SMOKE = [
    ('fn._get_all_bodies', _P, "production.body[1],\n                                                   state_r)]", "production.body[1],\n                                                   state_q)]", 'break'),
    ('fn._intersection_when_two_non_terminals', _P, "                        state_p, production.head, state_r)\n                productions_temp +=", "                        state_r, production.head, state_p)\n                productions_temp +=", 'break'),
    ('fn._intersection_when_terminal', _P, "                        state_p, production.head, next_states[0])", "                        next_states[0], production.head, state_p)", 'break'),
    ('fn._intersection_when_terminal', _P, "            if next_states:\n                new_head", "            if not next_states:\n                continue\n            if True:\n                new_head", 'benign'),
    ('fn._intersection_starting_rules', _P, "                    cfg.start_symbol,\n                    final_state)]", "                    cfg.start_symbol,\n                    start_other)]", 'break'),
    ('fn._intersection_starting_rules', _P, "        for final_state in other.final_states:\n            new_body = [", "        for final_state in other.states:\n            new_body = [", 'break'),
]
