"""pyformlang.pda: abstract views and contracts for the acceptance-mode wrappers (C13) and their helpers.

View of a PDA: (Q, Sig, Gam, D, q0, z0, F) with D a set of transitions (p, a, X, q, push) - push a sequence whose first element becomes
the top of the stack.  The language statements (Hopcroft-Motwani-Ullman 6.9-6.11) are assumed on top of the exact structure proved here.
"""
import ast
from z3 import *
from pyvc.vtypes import *
from pyvc.engine import World, Contract, NS, Unsupported

W = World()
PSt, PSy, PStk, Str = TVal('PSt'), TVal('PSy'), TVal('PStk'), TVal('Str')
SetSt, SetSy, SetStk = TSet(PSt), TSet(PSy), TSet(PStk)
SeqStk = TSeq(PStk)
Trans = TURec('Trans', [('p', PSt), ('a', PSy), ('X', PStk), ('q', PSt), ('push', SeqStk)])
SetTr = TSet(Trans)
PDA = TRec('PDA', [('Q', SetSt), ('Sig', SetSy), ('Gam', SetStk), ('D', SetTr), ('q0', PSt), ('z0', PStk), ('F', SetSt)])
TF = TRec('PdaTF', [('D', SetTr)])                        # view of pda.TransitionFunction
W.axioms += Trans.axioms()
W.consts['None'] = NONE_SYM
W.seq_literals = {PStk}
EPS = Const('PEPS', PSy.sort())
W.ctors['Epsilon'] = lambda eng, e, st: Sym(PSy, EPS)
for py, f in [('_states', 'Q'), ('_input_symbols', 'Sig'), ('_stack_alphabet', 'Gam'), ('_start_state', 'q0'), ('_start_stack_symbol', 'z0'), ('_final_states', 'F')]:
    W.fields[('PDA', py)] = f
W.fields[('PDA', '_transition_function')] = (lambda o: TF.make(D=o.D))
W.fields[('PDA', '_transition_function', 'set')] = (lambda base, val: base.t.update(base, 'D', val.t.get(val, 'D')))
tr, tr2 = Consts('tr tr2', Trans.sort()); x, y = Consts('x y', PSt.sort()); g_, h_ = Consts('g_ h_', PStk.sort())
def mktr(p, a, X, q, push): return Trans.make(p=Sym(PSt, p), a=Sym(PSy, a), X=Sym(PStk, X), q=Sym(PSt, q), push=Sym(SeqStk, push)).term

# ------------------------------------------------------------------ names built from strings: get_next_free
mkSt = Function('mkState', Str.sort(), PSt.sort()); mkStk = Function('mkStackSymbol', Str.sort(), PStk.sort())
cat = Function('cat', Str.sort(), IntSort(), Str.sort())          # prefix + str(idx)
pfx = Function('pfx', Str.sort(), Str.sort())                     # the text without its trailing digits
pfxSt = Function('pfxSt', PSt.sort(), Str.sort()); pfxStk = Function('pfxStk', PStk.sort(), Str.sort())
n_, m_ = Consts('n_ m_', Str.sort()); i_ = Const('i_', IntSort())
PREFIXES = ['#STARTTOFINAL#', '#ENDTOFINAL#', '#BOTTOMTOFINAL#', '#STARTEMPTYS#', '#ENDEMPTYS#', '#BOTTOMEMPTYS#']
for c in PREFIXES: W.consts['str:' + c] = Sym(Str, Const('S_' + c.strip('#'), Str.sort()))
# facts about Python strings, assumed: the six literals are pairwise different and end in '#', so text-without-trailing-digits is the literal
W.axioms += [Distinct(*[W.consts['str:' + c].term for c in PREFIXES])] + [pfx(W.consts['str:' + c].term) == W.consts['str:' + c].term for c in PREFIXES]
W.axioms += [ForAll([n_, i_], pfx(cat(n_, i_)) == pfx(n_)), ForAll([n_], pfxSt(mkSt(n_)) == pfx(n_)), ForAll([n_], pfxStk(mkStk(n_)) == pfx(n_))]
ClsSt = TRec('ClsState', [('k', TBool)]); ClsStk = TRec('ClsStackSymbol', [('k', TBool)])
W.contract(Contract('ClsState.__call__', [('self', ClsSt), ('value', Str)], ret=PSt, pure=lambda o: Sym(PSt, mkSt(o.value.term))))
W.contract(Contract('ClsStackSymbol.__call__', [('self', ClsStk), ('value', Str)], ret=PStk, pure=lambda o: Sym(PStk, mkStk(o.value.term))))
def binop_hook(eng, e, st):
    """prefix + str(idx)"""
    if isinstance(e.op, ast.Add) and isinstance(e.right, ast.Call) and getattr(e.right.func, 'id', None) == 'str' and len(e.right.args) == 1:
        l = eng.ev(e.left, st); r = eng.ev(e.right.args[0], st)
        if l.t == Str and r.t is TInt: return Sym(Str, cat(l.term, r.term))
    return None
W.binop_hook = binop_hook
W.contract(Contract('fn.get_next_free[State]', [('prefix', Str), ('type_generating', ClsSt), ('to_check', SetSt)], ret=PSt,
    ensures=lambda o, r, n: And(Not(o.to_check[r]), pfxSt(r.term) == pfx(o.prefix.term)), loops={'0': lambda e, done: pfxSt(e.new_var.term) == pfx(e.prefix.term)}))
W.contract(Contract('fn.get_next_free[StackSymbol]', [('prefix', Str), ('type_generating', ClsStk), ('to_check', SetStk)], ret=PStk,
    ensures=lambda o, r, n: And(Not(o.to_check[r]), pfxStk(r.term) == pfx(o.prefix.term)), loops={'0': lambda e, done: pfxStk(e.new_var.term) == pfx(e.prefix.term)}))
def gnf_call(eng, e, st):
    cls = getattr(e.args[1], 'id', None)
    if cls not in ('State', 'StackSymbol'): raise Unsupported('get_next_free with an unknown class')
    c = W.contracts[f'fn.get_next_free[{cls}]']; T_ = ClsSt if cls == 'State' else ClsStk
    return eng.apply_contract(c, None, None, [eng.ev(e.args[0], st), T_.make(k=Sym(TBool, BoolVal(True))), eng.ev(e.args[2], st)], st, e.lineno)
W.ctors['get_next_free'] = gnf_call

# ------------------------------------------------------------------ pda.TransitionFunction (view level) and the PDA constructor
W.contract(Contract('PdaTF.copy', [('self', TF)], ret=TF, fresh_result=True, ensures=lambda o, r, n: r.D == o.self.D))
W.contract(Contract('PdaTF.add_transition', [('self', TF), ('s_from', PSt), ('input_symbol', PSy), ('stack_from', PStk), ('s_to', PSt), ('stack_to', SeqStk)],
    ret=TNone, modifies=('self',),
    ensures=lambda o, r, n: n.self.D == Store(o.self.D.term, mktr(o.s_from.term, o.input_symbol.term, o.stack_from.term, o.s_to.term, o.stack_to.term), True)))
def pda_ctor(eng, e, st):
    names = ['states', 'input_symbols', 'stack_alphabet', 'transition_function', 'start_state', 'start_stack_symbol', 'final_states']
    args = dict(zip(names, e.args)); args.update({kw.arg: kw.value for kw in e.keywords})
    def val(n, empty): return eng.ev(args[n], st) if n in args else empty
    Q0 = val('states', SetSt.empty()); S0 = val('input_symbols', SetSy.empty()); G0 = val('stack_alphabet', SetStk.empty()); F0 = val('final_states', SetSt.empty())
    if not all(k in args for k in ('transition_function', 'start_state', 'start_stack_symbol')): raise Unsupported('PDA(...) without transition function / start')
    tf = eng.ev(args['transition_function'], st); q0 = eng.ev(args['start_state'], st); z0 = eng.ev(args['start_stack_symbol'], st)
    return PDA.make(Q=Sym(SetSt, Lambda([x], Or(Q0[x], x == q0.term, F0[x]))), Sig=S0, Gam=Sym(SetStk, Store(G0.term, z0.term, True)), D=tf.D, q0=q0, z0=z0, F=F0)
W.ctors['PDA'] = pda_ctor

# ------------------------------------------------------------------ to_final_state / to_empty_stack: exact structure, fresh names, operand unchanged
def two(a_, b_): return Concat(Unit(a_), Unit(b_))
EMP = Empty(SeqStk.sort())
def tfs_post(o, r, n):
    A = o.self; ns, ne, nb = r.q0.term, Const('tfs_end', PSt.sort()), r.z0.term
    return Exists([ne], And(Not(A.Q[ns]), Not(A.Q[ne]), ns != ne, Not(A.Gam[nb]),
        ForAll([y], r.F[y] == (y == ne)), ForAll([y], r.Q[y] == Or(A.Q[y], y == ns, y == ne)), ForAll([g_], r.Gam[g_] == Or(A.Gam[g_], g_ == nb)), r.Sig == A.Sig,
        ForAll([tr], r.D[tr] == Or(A.D[tr], tr == mktr(ns, EPS, nb, A.q0.term, two(A.z0.term, nb)), Exists([y], And(A.Q[y], tr == mktr(y, EPS, nb, ne, EMP)))))))
W.contract(Contract('PDA.to_final_state', [('self', PDA)], ret=PDA, fresh_result=True, ensures=tfs_post,
    loops={'0': lambda e, done: ForAll([tr], e.new_tf.D[tr] == Or(e.self.D[tr], tr == mktr(e.new_start.term, EPS, e.new_stack_symbol.term, e.self.q0.term, two(e.self.z0.term, e.new_stack_symbol.term)),
                                                                    Exists([y], And(done[y], tr == mktr(y, EPS, e.new_stack_symbol.term, e.new_end.term, EMP)))))}))
def tes_struct(e_D, A, ns, ne, nb, cov1, cov2):
    G2 = lambda g: Or(A.Gam[g], g == nb)
    return ForAll([tr], e_D[tr] == Or(A.D[tr], tr == mktr(ns, EPS, nb, A.q0.term, two(A.z0.term, nb)),
                                      Exists([y, g_], And(A.F[y], G2(g_), cov1(y, g_), tr == mktr(y, EPS, g_, ne, EMP))),
                                      Exists([g_], And(G2(g_), cov2(g_), tr == mktr(ne, EPS, g_, ne, EMP)))))
def tes_post(o, r, n):
    A = o.self; ns, ne, nb = r.q0.term, Const('tes_end', PSt.sort()), r.z0.term; T_ = lambda *a_: BoolVal(True)
    return Exists([ne], And(Not(A.Q[ns]), Not(A.Q[ne]), ns != ne, Not(A.Gam[nb]),
        ForAll([y], Not(r.F[y])), ForAll([y], r.Q[y] == Or(A.Q[y], y == ns, y == ne)), ForAll([g_], r.Gam[g_] == Or(A.Gam[g_], g_ == nb)), r.Sig == A.Sig,
        tes_struct(r.D, A, ns, ne, nb, T_, T_)))
def tes_inv(level):
    def inv(e, done):
        A, ns, ne, nb = e.self, e.new_start.term, e.new_end.term, e.new_stack_symbol.term; F_ = lambda *a_: BoolVal(False); T_ = lambda *a_: BoolVal(True)
        base = [ForAll([g_], e.new_stack_alphabet[g_] == Or(A.Gam[g_], g_ == nb))]
        if level == '0': return And(base + [tes_struct(e.new_tf.D, A, ns, ne, nb, lambda yy, gg: done[yy], F_)])
        if level == '0.0': return And(base + [tes_struct(e.new_tf.D, A, ns, ne, nb, lambda yy, gg: Or(e.get('$done0')[yy], And(yy == e.state.term, done[gg])), F_)])
        return And(base + [tes_struct(e.new_tf.D, A, ns, ne, nb, T_, lambda gg: done[gg])])
    return inv
W.contract(Contract('PDA.to_empty_stack', [('self', PDA)], ret=PDA, fresh_result=True, ensures=tes_post,
    loops={'0': tes_inv('0'), '0.0': tes_inv('0.0'), '1': tes_inv('1')}))

W.ground_sorts = (PSt.sort(), PSy.sort(), PStk.sort())
W.special = {}
_P = 'pyformlang/pda/pda.py'
TARGETS = {'fn.get_next_free[State]': (_P, 'fn.get_next_free'), 'fn.get_next_free[StackSymbol]': (_P, 'fn.get_next_free'),
           'PDA.to_final_state': (_P, 'PDA.to_final_state'), 'PDA.to_empty_stack': (_P, 'PDA.to_empty_stack')}

_PP = 'pyformlang/pda/pda.py'
SMOKE = [
    ('PDA.to_final_state', _PP, "                              self._start_state, [self._start_stack_symbol,\n                                                  new_stack_symbol])\n        for state in self._states:", "                              self._start_state, [new_stack_symbol,\n                                                  self._start_stack_symbol])\n        for state in self._states:", 'break'),
    ('PDA.to_empty_stack', _PP, "        for stack_symbol in new_stack_alphabet:\n            new_tf.add_transition(new_end, Epsilon(), stack_symbol,", "        for stack_symbol in self._stack_alphabet:\n            new_tf.add_transition(new_end, Epsilon(), stack_symbol,", 'break'),
    ('PDA.to_empty_stack', _PP, '        new_end = get_next_free("#ENDEMPTYS#", State, self._states)', '        new_end = get_next_free("#STARTEMPTYS#", State, self._states)', 'break'),
    ('fn.get_next_free[State]', _PP, "    while new_var in to_check:", "    while new_var not in to_check and idx < 0:", 'break'),
]
