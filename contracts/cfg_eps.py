"""Epsilon removal (C09): utils_cfg.remove_nullable_production_sub / remove_nullable_production and CFG.remove_epsilon.

Spec: Sub(N, b, b') - b' is obtained from the body b by deleting some positions whose symbol is in N (and every epsilon object).  It is
defined by recursion on b (two unfolding equations, a well-founded definition - no induction principle is used):
    Sub(N, [], b')      <->  b' = []
    Sub(N, x.t, b')     <->  (x in N  and  Sub(N, t, b'))  or  (x is not epsilon  and  b' = x.t'  with  Sub(N, t, t'))
Proved: the recursive helper returns exactly the bodies related by Sub (each at least once); remove_nullable_production returns exactly the
productions head -> b' with Sub(N, body, b') and b' not empty; remove_epsilon returns the grammar whose productions are exactly those, for
N = the nullable symbols (contract of get_nullable_symbols: proved in contracts/cfg_gen.py), with the same variables, terminals and start
symbol, and without any epsilon production.  That this keeps the language up to the empty word is Hopcroft-Motwani-Ullman Thm 7.9, assumed.
Recursion: the helper calls itself on body[1:]; its own contract is used for the call (partial correctness; termination by the length of
the body is evident but not verified).
"""
import ast
from z3 import *
from pyvc.vtypes import *
from pyvc.engine import World, Contract, NS, Unsupported
import contracts.cfg as C

W = World()
Ob, SetOb, SeqOb, Prod, SetProd, BagProd, CFGT = C.Ob, C.SetOb, C.SeqOb, C.Prod, C.SetProd, C.BagProd, C.CFGT
head, body, mkprod, EPSOB, isEps, isVar, InBody, NoEps, Filt = C.head, C.body, C.mkprod, C.EPSOB, C.isEps, C.isVar, C.InBody, C.NoEps, C.Filt
BagSeq = TBag(SeqOb)
for key_, f_ in C.W.fields.items(): W.fields[key_] = f_
W.consts['None'] = NONE_SYM
W.axioms += Prod.axioms()
W.seq_literals = {Ob}
W.ctors['Epsilon'] = lambda eng, e, st: Sym(Ob, EPSOB)
x, y = Consts('x y', Ob.sort()); sq, sq2, t_ = Consts('sq sq2 t_', SeqOb.sort()); N_ = Const('N_', SetOb.sort()); pr, q = Consts('pr q', Prod.sort()); k_ = Const('k_', IntSort())
def tail(s_): return SubSeq(s_, 1, Length(s_) - 1)
def cons(a, s_): return Concat(Unit(a), s_)
Sub = Function('Sub', SetOb.sort(), SeqOb.sort(), SeqOb.sort(), BoolSort())
EMPTY = Empty(SeqOb.sort())
SUB_NIL = ForAll([N_, sq, sq2], Implies(Length(sq) == 0, Sub(N_, sq, sq2) == (Length(sq2) == 0)), patterns=[Sub(N_, sq, sq2)])
SUB_CONS = ForAll([N_, sq, sq2], Implies(Length(sq) > 0,
                  Sub(N_, sq, sq2) == Or(And(Select(N_, sq[0]), Sub(N_, tail(sq), sq2)),
                                         And(sq[0] != EPSOB, Length(sq2) > 0, sq2[0] == sq[0], Sub(N_, tail(sq), tail(sq2))))), patterns=[Sub(N_, sq, sq2)])
# The two equations are NOT given to the solver as axioms with triggers (unfolding Sub on a tail creates a new Sub term on a shorter tail, and so
# on: a matching loop).  The one instance that the helper needs - at its own argument - is an entry lemma, proved from the two equations.
def unfold_at(N, b):
    return And(Implies(Length(b) == 0, ForAll([sq2], Sub(N, b, sq2) == (Length(sq2) == 0))),
               Implies(Length(b) > 0, ForAll([sq2], Sub(N, b, sq2) == Or(And(Select(N, b[0]), Sub(N, tail(b), sq2)),
                                                                          And(b[0] != EPSOB, Length(sq2) > 0, sq2[0] == b[0], Sub(N, tail(b), tail(sq2)))))))

NEp = Function('NoEpsilonObject', SeqOb.sort(), BoolSort())          # no epsilon object in the sequence (forall a in l, a != epsilon), by structure
def NE(s_): return NEp(s_)
NEP_AXIOMS = [ForAll([sq], Implies(Length(sq) == 0, NEp(sq)), patterns=[NEp(sq)]),
              ForAll([x, sq], NEp(Concat(Unit(x), sq)) == And(x != EPSOB, NEp(sq)), patterns=[NEp(Concat(Unit(x), sq))])]
W.axioms += NEP_AXIOMS
def sub_post(o, r, n):
    return And(ForAll([sq2], r[sq2] >= 0), ForAll([sq2], (r[sq2] > 0) == Sub(o.nullables.term, o.body.term, sq2)),
               ForAll([sq2], Implies(r[sq2] > 0, NE(sq2))))
# the recursive helper: its two postconditions are proved in contracts/cfg_eps_sub.py and contracts/cfg_eps_ne.py; used here as one contract
W.contract(Contract('fn.remove_nullable_production_sub', [('body', SeqOb), ('nullables', SetOb)], ret=BagSeq, ensures=sub_post))

# ------------------------------------------------------------------ remove_nullable_production, remove_epsilon
W.ctors['Production'] = C.production_ctor
W.ctors['CFG'] = C.cfg_ctor
INBODY_DEF = ForAll([sq, x], InBody(sq, x) == Exists([k_], And(0 <= k_, k_ < Length(sq), sq[k_] == x)))
NOEPS_DEF = ForAll([sq], NoEps(sq) == ForAll([x], Implies(InBody(sq, x), Not(isEps(x)))))
EPS_VALUE = ForAll([x], isEps(x) == (x == EPSOB))                   # every cfg.Epsilon() object is the same value
FILT_ID = ForAll([sq], Implies(NoEps(sq), Filt(sq) == sq))
NE_FILT = ForAll([sq], Implies(NE(sq), Filt(sq) == sq))              # Production(...) keeps a body without epsilon object as it is: List.filter_eq_self (bridge/count.lean)
W.axioms += [NE_FILT]
def rnp_spec(inR, N, p_):
    return And(ForAll([q], Implies(inR(q), Exists([sq2], And(Sub(N, body(p_), sq2), Length(sq2) > 0, NE(sq2), q == mkprod(head(p_), sq2))))),
               ForAll([sq2], Implies(And(Sub(N, body(p_), sq2), Length(sq2) > 0), inR(mkprod(head(p_), sq2)))))
W.contract(Contract('fn.remove_nullable_production', [('production', Prod), ('nullables', SetOb)], ret=BagProd,
    ensures=lambda o, r, n: And(ForAll([q], r[q] >= 0), rnp_spec(lambda q_: r[q_] > 0, o.nullables.term, o.production.term))))
GNS = C.GNS
W.contract(Contract('CFG.get_nullable_symbols', [('self', CFGT)], ret=SetOb, requires=lambda o: C.WF(o.self),          # proved in contracts/cfg_gen.py (other view)
    ensures=lambda o, r, n: ForAll([x], r[x] == And(x != EPSOB, Select(GNS(o.self.P.term, K(Ob.sort(), False)), x)))))
def nul_of(G): return Lambda([x], And(x != EPSOB, Select(GNS(G.P.term, K(Ob.sort(), False)), x)))
def re_spec(inR, G, covered):
    N = nul_of(G)
    return And(ForAll([q], Implies(inR(q), Exists([pr, sq2], And(covered(pr), Sub(N, body(pr), sq2), Length(sq2) > 0, NE(sq2), q == mkprod(head(pr), sq2))))),
               ForAll([pr, sq2], Implies(And(covered(pr), Sub(N, body(pr), sq2), Length(sq2) > 0), inR(mkprod(head(pr), sq2)))))
W.contract(Contract('CFG.remove_epsilon', [('self', CFGT)], ret=CFGT, fresh_result=True, requires=lambda o: C.WF(o.self),
    ensures=lambda o, r, n: And(re_spec(lambda q_: r.P[q_], o.self, lambda p_: o.self.P[p_]), r.S == o.self.S,
                                ForAll([q], Implies(r.P[q], Length(body(q)) > 0)),                                  # no epsilon production
                                ForAll([x], Implies(o.self.V[x], r.V[x])), ForAll([x], Implies(o.self.Tm[x], r.Tm[x]))),
    locals={'new_productions': BagProd},
    loops={'0': lambda e, done: And(e.nullables.term == nul_of(e.self), ForAll([q], e.new_productions[q] >= 0),
                                    re_spec(lambda q_: e.new_productions[q_] > 0, e.self, lambda p_: done[p_]))}))
VERIFIED_ELSEWHERE = {'CFG.get_nullable_symbols': 'contracts.cfg_gen (CFGGen.get_nullable_symbols)',
                      'fn.remove_nullable_production_sub': 'contracts.cfg_eps_sub + contracts.cfg_eps_ne (its two postconditions, proved separately)'}

W.ground_sorts = (Ob.sort(),)
W.special = {}
_U = 'pyformlang/cfg/utils_cfg.py'; _P = 'pyformlang/cfg/cfg.py'
TARGETS = {'fn.remove_nullable_production': (_U, 'fn.remove_nullable_production'),
           'CFG.remove_epsilon': (_P, 'CFG.remove_epsilon')}
SMOKE = [
    ('fn.remove_nullable_production', _U, "           if prod_l]", "           if prod_l or True]", 'break'),
    ('CFG.remove_epsilon', _P, "        nullables = self.get_nullable_symbols()\n", "        nullables = self.get_generating_symbols()\n", 'break'),
    ('CFG.remove_epsilon', _P, "            new_productions += remove_nullable_production(production,\n                                                          nullables)", "            new_productions = remove_nullable_production(production,\n                                                         nullables)", 'break'),
]
