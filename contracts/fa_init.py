"""EpsilonNFA.__init__ and FiniteAutomaton.__init__ (C01, C03, C19): the constructor satisfies the model under which every other contract
of the finite-automaton world reads `EpsilonNFA()` (contracts/fa.py new_automaton: the automaton with no state, symbol, transition, start
or final state).  Inside the library the constructors are only ever called without arguments; that shape is proved (`#nothing`), and so is
the shape of a caller who gives the four sets and no transition function (`#sets`): states = the given ones, the final and the start
states; symbols, start states, final states as given; no transition.

Not covered: a transition function handed to the constructor (NondeterministicTransitionFunction defines __len__, so an empty one is
replaced by a new object - the view is the same, the object is not; the engine has no conditional object identity), and the constructor of
DeterministicFiniteAutomaton (`self._start_state = {}` is a dict where every other path uses a set).
"""
from z3 import *
from pyvc.vtypes import *
from pyvc.engine import World, Contract, NS, Unsupported
import contracts.fa as F

W = World()
St, Sy, SetSt, SetSy, RelT, ENFA, NTFV = F.St, F.Sy, F.SetSt, F.SetSy, F.RelT, F.ENFA, F.NTFV
W.consts['None'] = NONE_SYM
W.none_consts['St'] = F.NONE_ST; W.none_consts['Sy'] = F.NONE_SY
W.identity_fns |= {'to_state', 'to_symbol'}
FA = TRec('FA', F.FIELDS)
for cls in (ENFA, FA):
    for py, f in [('_states', 'Q'), ('_input_symbols', 'Sig'), ('_start_state', 'I'), ('_final_states', 'F')]:
        W.fields[(cls.name, py)] = f
    W.fields[(cls.name, '_transition_function')] = (lambda o: NTFV.make(T=o.T))
    # `self._transition_function = None` (FiniteAutomaton.__init__) leaves no transition in the view
    W.fields[(cls.name, '_transition_function', 'set')] = (lambda base, val: base.t.update(base, 'T', F.empty_rel() if val.t is TNone else val.t.get(val, 'T')))
W.ctors['NondeterministicTransitionFunction'] = lambda eng, e, st: NTFV.make(T=F.empty_rel())
W.super_of = {'ENFA': FA}

x = Const('x', St.sort()); a_ = Const('a_', Sy.sort())
def model(r, Q0, S0, I0, F0):
    return And(ForAll([x], r.Q[x] == Or(Q0(x), F0(x), I0(x))), ForAll([a_], r.Sig[a_] == S0(a_)), r.T == F.empty_rel().term,
               ForAll([x], r.I[x] == I0(x)), ForAll([x], r.F[x] == F0(x)))
F_ = lambda *_: BoolVal(False)

W.contract(Contract('FA.__init__', [('self', FA)], ret=TNone, modifies=('self',), ensures=lambda o, r, n: model(n.self, F_, F_, F_, F_)))

def inv_finals(args):
    def inv(e, done):
        Q0, S0, I0, F0 = args(e)
        return And(ForAll([x], e.self.Q[x] == Or(Q0(x), done[x])), ForAll([a_], e.self.Sig[a_] == S0(a_)), e.self.T == F.empty_rel().term,
                   ForAll([x], e.self.I[x] == I0(x)), ForAll([x], e.self.F[x] == F0(x)))
    return inv
def inv_starts(args):
    def inv(e, done):
        Q0, S0, I0, F0 = args(e)
        return And(ForAll([x], e.self.Q[x] == Or(Q0(x), F0(x), done[x])), ForAll([a_], e.self.Sig[a_] == S0(a_)), e.self.T == F.empty_rel().term,
                   ForAll([x], e.self.I[x] == I0(x)), ForAll([x], e.self.F[x] == F0(x)))
    return inv
NONE5 = [(p_, TNone) for p_ in ('states', 'input_symbols', 'transition_function', 'start_state', 'final_states')]
nothing = lambda e: (F_, F_, F_, F_)
W.contract(Contract('ENFA.__init__#nothing', [('self', ENFA)] + NONE5, ret=TNone, modifies=('self',),
    ensures=lambda o, r, n: model(n.self, F_, F_, F_, F_), loops={'0': inv_finals(nothing), '1': inv_starts(nothing)}))
SETS5 = [('states', SetSt), ('input_symbols', SetSy), ('transition_function', TNone), ('start_state', SetSt), ('final_states', SetSt)]
given = lambda o: (lambda v: And(o.states[v], v != F.NONE_ST) if False else o.states[v], lambda v: o.input_symbols[v], lambda v: o.start_state[v], lambda v: o.final_states[v])
W.contract(Contract('ENFA.__init__#sets', [('self', ENFA)] + SETS5, ret=TNone, modifies=('self',),
    requires=lambda o: And(Not(o.start_state[F.NONE_ST]), Not(o.final_states[F.NONE_ST])),      # to_state(None) is None and the loops skip it
    ensures=lambda o, r, n: model(n.self, *given(o)), loops={'0': inv_finals(given), '1': inv_starts(given)}))

W.ground_sorts = ()
W.special = {}
_P = 'pyformlang/finite_automaton/epsilon_nfa.py'
_PF = 'pyformlang/finite_automaton/finite_automaton.py'
TARGETS = {'ENFA.__init__#nothing': (_P, 'EpsilonNFA.__init__'), 'ENFA.__init__#sets': (_P, 'EpsilonNFA.__init__'), 'FA.__init__': (_PF, 'FiniteAutomaton.__init__')}
SMOKE = [
    ('ENFA.__init__#sets', _P, "        for state in self._start_state:\n            if state is not None and state not in self._states:\n                self._states.add(state)\n", "", 'break'),
    ('ENFA.__init__#sets', _P, "        self._final_states = final_states or set()", "        self._final_states = set()", 'break'),
    ('ENFA.__init__#nothing', _P, "        self._final_states = final_states or set()", "        self._final_states = {None}", 'break'),
    # sharing one set object between two fields is not visible in the view (the engine has no identity of field values): C19 histories cover it
    ('ENFA.__init__#nothing', _P, "        self._start_state = start_state or set()", "        self._start_state = self._states", 'benign'),
    ('FA.__init__', _PF, "        self._final_states = set()", "        self._final_states = self._states", 'benign'),
]
