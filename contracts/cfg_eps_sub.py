"""utils_cfg.remove_nullable_production_sub, part 1 of 2 (the two postconditions are proved separately on the same source: together they are the
contract used by contracts/cfg_eps.py; in one context the solver is unstable).  See contracts/cfg_eps.py for the specification.
Part 1: the result holds exactly the bodies related to the argument by Sub.
"""
import ast
from z3 import *
from pyvc.vtypes import *
from pyvc.engine import World, Contract, NS, Unsupported
import contracts.cfg as C
import contracts.cfg_eps as E

W = World()
Ob, SetOb, SeqOb, BagSeq, EPSOB, Sub, NEp = E.Ob, E.SetOb, E.SeqOb, E.BagSeq, E.EPSOB, E.Sub, E.NEp
W.consts['None'] = NONE_SYM
W.seq_literals = {Ob}
W.ctors['Epsilon'] = lambda eng, e, st: Sym(Ob, EPSOB)
sq2, t_ = E.sq2, E.t_

def sub_inv(e, done):
    b = e.body.term; N = e.nullables.term
    return And(Length(b) > 0, ForAll([sq2], e.res[sq2] >= 0),
               ForAll([sq2], Implies(e.res[sq2] > 0, Sub(N, b, sq2))),
               ForAll([t_], Implies(And(done[t_] > 0, Select(N, b[0])), e.res[t_] > 0)),
               ForAll([t_], Implies(And(done[t_] > 0, b[0] != EPSOB), e.res[E.cons(b[0], t_)] > 0)))
W.contract(Contract('fn.remove_nullable_production_sub', [('body', SeqOb), ('nullables', SetOb)], ret=BagSeq,
    ensures=lambda o, r, n: And(ForAll([sq2], r[sq2] >= 0), ForAll([sq2], Implies(r[sq2] > 0, Sub(o.nullables.term, o.body.term, sq2))),
                                ForAll([sq2], Implies(Sub(o.nullables.term, o.body.term, sq2), r[sq2] > 0))),
    # a non-empty sequence is its first element followed by its tail (valid in the theory of sequences), instantiated only for the bodies related to the argument
    hints=lambda o, e, r: [ForAll([sq2], Implies(Length(sq2) > 0, E.cons(sq2[0], E.tail(sq2)) == sq2), patterns=[Sub(o.nullables.term, o.body.term, sq2)])],
    entry_lemmas=lambda o: [('definition of Sub unfolded at the argument', [E.SUB_NIL, E.SUB_CONS], E.unfold_at(o.nullables.term, o.body.term))],
    locals={'res': BagSeq}, loops={'0': sub_inv}))
W.ground_sorts = (Ob.sort(),)
W.special = {}
TARGETS = {'fn.remove_nullable_production_sub': ('pyformlang/cfg/utils_cfg.py', 'fn.remove_nullable_production_sub')}
_U = 'pyformlang/cfg/utils_cfg.py'
SMOKE = [
    ('fn.remove_nullable_production_sub', _U, "        if body[0] in nullables:\n            res.append(body_temp)", "        if body[0] not in nullables:\n            res.append(body_temp)", 'break'),
    ('fn.remove_nullable_production_sub', _U, "    all_next = remove_nullable_production_sub(body[1:], nullables)", "    all_next = remove_nullable_production_sub(body, nullables)", 'break'),
]
