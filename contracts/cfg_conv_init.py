"""CFGVariableConverter.__init__ (C11, C13, C19): the constructor establishes the representation invariant INV of contracts/cfg_conv.py.

`states` and `stack_symbols` are taken as sequences (a list at the call site in CFG.intersection; for the sets passed by PDA.to_cfg: the
order in which the set is enumerated - proving for every sequence covers every order; the second use of the same set, len(), does not depend
on the order).  Proved: every given state / symbol gets an index inside the table (the last position at which an equal one is listed), the
two dictionaries are injective and below their counters, the table is rectangular len(states) x len(stack_symbols) x len(states), every
cell is (False, None) and the variable counter is 0 - that is INV and `registered` for everything that was given.
Dropped: the writes to the attribute index_cfg_converter of the State / symbol objects (this view has values, not objects): nothing reads
the attribute before writing it again (proved for _get_state_index / _get_symbol_index in contracts/cfg_conv.py).
"""
import ast
from z3 import *
from pyvc.vtypes import *
from pyvc.engine import World, Contract, NS, Unsupported
import contracts.cfg_conv as V
from contracts.cfg_conv import (Ob, StV, SyV, MapSt, MapSy, Cell, L1, L2, L3, CONV, NONEOB, INV, INV_S, INV_Y, RECT, N, M, dS, vS, dY, vY, cell, var, flag, valid, row, col, i_, j_, k_, s_, y_)

W = World()
W.consts['None'] = NONE_SYM
W.none_consts['Ob'] = NONEOB
W.none_in_tuple = Ob
W.axioms += list(V.W.axioms)
W.repeat_lists = {Cell.name: L3, L3.name: L2, L2.name: L1}
SeqSt, SeqSy = TSeq(StV), TSeq(SyV)
def _never_read(o): raise Unsupported('index_cfg_converter is read in the constructor')
for T_ in ('StateValue', 'SymbolValue'):
    W.fields[(T_, 'index_cfg_converter')] = _never_read
    W.fields[(T_, 'index_cfg_converter', 'set')] = lambda base, val: base          # the write to the object is dropped (see the module text)
def given_ok(c, states, symbols):
    return And(ForAll([k_], Implies(And(0 <= k_, k_ < Length(states.term)), And(dS(c, states.term[k_]), vS(c, states.term[k_]) < N(c)))),
               ForAll([k_], Implies(And(0 <= k_, k_ < Length(symbols.term)), And(dY(c, symbols.term[k_]), vY(c, symbols.term[k_]) < M(c)))))
def init_post(o, r, n):
    c = n.self
    return And(INV(c), given_ok(c, o.states, o.stack_symbols), c._counter.term == 0, N(c) == Length(o.states.term), Implies(N(c) > 0, M(c) == Length(o.stack_symbols.term)),
               ForAll([i_, j_, k_], Implies(valid(c, i_, j_, k_), And(Not(flag(cell(c, i_, j_, k_))), var(cell(c, i_, j_, k_)) == NONEOB)), patterns=[cell(c, i_, j_, k_)]))
def inv_states(e, i):
    c = e.self; sq = e.states.term
    return And(c._counter.term == 0, 0 <= i.term, i.term <= Length(sq), If(i.term == 0, c._counter_state.term == 0, c._counter_state.term == i.term - 1),
               ForAll([s_], dS(c, s_) == Exists([k_], And(0 <= k_, k_ < i.term, sq[k_] == s_))),
               ForAll([s_], Implies(dS(c, s_), And(0 <= vS(c, s_), vS(c, s_) < i.term, sq[vS(c, s_)] == s_)), patterns=[dS(c, s_)]))
def inv_symbols(e, i):
    c = e.self; sq = e.stack_symbols.term; st = e.states.term
    return And(c._counter.term == 0, 0 <= i.term, i.term <= Length(sq), If(i.term == 0, c._counter_symbol.term == 0, c._counter_symbol.term == i.term - 1),
               ForAll([y_], dY(c, y_) == Exists([k_], And(0 <= k_, k_ < i.term, sq[k_] == y_))),
               ForAll([y_], Implies(dY(c, y_), And(0 <= vY(c, y_), vY(c, y_) < i.term, sq[vY(c, y_)] == y_)), patterns=[dY(c, y_)]),
               # what the first loop left
               c._counter_state.term == If(Length(st) == 0, 1, Length(st)),
               ForAll([s_], dS(c, s_) == Exists([k_], And(0 <= k_, k_ < Length(st), st[k_] == s_))),
               ForAll([s_], Implies(dS(c, s_), And(0 <= vS(c, s_), vS(c, s_) < Length(st), st[vS(c, s_)] == s_)), patterns=[dS(c, s_)]))
W.contract(Contract('CFGVariableConverter.__init__', [('self', CONV), ('states', SeqSt), ('stack_symbols', SeqSy)], ret=TNone, modifies=('self',),
    ensures=init_post, loops={'0': inv_states, '1': inv_symbols}))

W.ground_sorts = ()
W.special = {}
_P = V._P
TARGETS = {'CFGVariableConverter.__init__': (_P, 'CFGVariableConverter.__init__')}
SMOKE = [
    ('CFGVariableConverter.__init__', _P, "            state.index_cfg_converter = self._counter_state\n        self._counter_state += 1\n", "            state.index_cfg_converter = self._counter_state\n", 'break'),
    ('CFGVariableConverter.__init__', _P, "        self._conversions = [[[(False, None) for _ in range(len(states))]\n                              for _ in range(len(stack_symbols))] for _ in\n                             range(len(states))]", "        self._conversions = [[[(False, None) for _ in range(len(states))]\n                              for _ in range(len(states))] for _ in\n                             range(len(stack_symbols))]", 'break'),
    ('CFGVariableConverter.__init__', _P, "[[[(False, None) for _ in", "[[[(True, None) for _ in", 'break'),
    ('CFGVariableConverter.__init__', _P, "        self._counter = 0\n", "        self._counter = 1\n", 'break'),
    ('CFGVariableConverter.__init__', _P, "            self._inverse_stack_symbol_d[symbol] = self._counter_symbol\n", "            self._inverse_stack_symbol_d[symbol] = 0\n", 'break'),
    ('CFGVariableConverter.__init__', _P, "        for self._counter_state, state in enumerate(states):\n            self._inverse_states_d[state] = self._counter_state\n", "        for i, state in enumerate(states):\n            self._counter_state = i\n            self._inverse_states_d[state] = self._counter_state\n", 'benign'),
]
