"""pyformlang.cfg.set_queue.SetQueue: a work list without duplicates, against its set view.

View: Q = the set of queued values.  Representation invariant (established by __init__, proved to be kept): the list holds every member of the
set exactly once.  append adds the value (no effect when present), pop removes and returns some member (list order abstracted), bool(queue)
is "not empty".  These are the contracts the FIRST / FOLLOW fixpoints use (contracts/llone_first.py).
"""
from z3 import *
from pyvc.vtypes import *
from pyvc.engine import World, Contract, NS, Unsupported
import contracts.cfg as C

W = World()
Ob, SetOb, BagOb = C.Ob, C.SetOb, TBag(C.Ob)
SQ = TRec('SetQueueRep', [('_to_process', BagOb), ('_processing', SetOb)])
x = Const('x', Ob.sort())
W.consts['None'] = NONE_SYM
def rep(q): return ForAll([x], q._to_process[x] == If(q._processing[x], 1, 0))
W.contract(Contract('SetQueueRep.append', [('self', SQ), ('value', Ob)], ret=TNone, modifies=('self',), requires=lambda o: rep(o.self),
    ensures=lambda o, r, n: And(rep(n.self), n.self._processing == Store(o.self._processing.term, o.value.term, True))))
W.contract(Contract('SetQueueRep.pop', [('self', SQ)], ret=Ob, modifies=('self',), requires=lambda o: And(rep(o.self), Exists([x], o.self._processing[x])),
    ensures=lambda o, r, n: And(rep(n.self), o.self._processing[r], n.self._processing == Store(o.self._processing.term, r.term, False))))
W.contract(Contract('SetQueueRep.__bool__', [('self', SQ)], ret=TBool, requires=lambda o: rep(o.self),
    ensures=lambda o, r, n: r.term == Exists([x], o.self._processing[x])))
W.ground_sorts = (Ob.sort(),)
W.special = {}
_P = 'pyformlang/cfg/set_queue.py'
TARGETS = {'SetQueueRep.append': (_P, 'SetQueue.append'), 'SetQueueRep.pop': (_P, 'SetQueue.pop'), 'SetQueueRep.__bool__': (_P, 'SetQueue.__bool__')}
SMOKE = [
    ('SetQueueRep.append', _P, "        if value not in self._processing:\n            self._to_process.append(value)", "        if True:\n            self._to_process.append(value)", 'break'),
    ('SetQueueRep.pop', _P, "        self._processing.remove(popped)\n", "", 'break'),
]
