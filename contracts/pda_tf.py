"""pda.TransitionFunction at the level of its representation (C13, C11, C19): a dict from (state, input symbol, stack symbol) to a set of
(target state, pushed tuple), against the abstract view D = set of transitions used by the contracts of the PDA world.

Proved: add_transition inserts exactly the given transition into the view; __call__ returns exactly the (target, push) pairs of the key
(nothing for an unknown key); copy returns a new object with the same view, built through add_transition, and leaves the operand alone.
Not covered: get_number_transitions (sum over a generator), to_dict (a copy since fix b74ca87; it handed out the dictionary itself before), the iterator protocol
(__iter__ / __next__ keep their position in the object: two iterations at the same time disturb each other - no caller in the library does that).
"""
from z3 import *
from pyvc.vtypes import *
from pyvc.engine import World, Contract, NS, Unsupported
import contracts.pda as P
from contracts.pda_inter import TN, SetTN, tn0, tn1

W = World()
PSt, PSy, PStk, SeqStk, Trans, mktr = P.PSt, P.PSy, P.PStk, P.SeqStk, P.Trans, P.mktr
W.axioms += Trans.axioms() + TN.axioms()
W.consts['None'] = NONE_SYM
W.identity_fns = {'tuple'}                                   # tuple(stack_to): the same sequence of stack symbols
KeyT = TTuple(PSt, PSy, PStk)
MapT = TMap(KeyT, SetTN)
CTF = TRec('PdaTFc', [('_transitions', MapT), ('_iter_key', TBool), ('_current_key', TBool), ('_iter_inside', TBool)])      # the three iterator fields: opaque
tr = Const('tr', Trans.sort()); kk = Const('kk', KeyT.sort()); tn = Const('tn', TN.sort())
def acc(t, f): return Trans.get(Sym(Trans, t), f).term
def key_of(t): return KeyT.make(_0=Sym(PSt, acc(t, 'p')), _1=Sym(PSy, acc(t, 'a')), _2=Sym(PStk, acc(t, 'X'))).term
def out_of(t): return TN.make(_0=Sym(PSt, acc(t, 'q')), _1=Sym(SeqStk, acc(t, 'push'))).term
def view(tf):
    """D(t) of a TransitionFunction object"""
    m = tf._transitions
    return lambda t: And(Select(MapT.get(m, 'dom').term, key_of(t)), Select(Select(MapT.get(m, 'val').term, key_of(t)), out_of(t)))
PAR = [('self', CTF), ('s_from', PSt), ('input_symbol', PSy), ('stack_from', PStk), ('s_to', PSt), ('stack_to', SeqStk)]
def given(o): return mktr(o.s_from.term, o.input_symbol.term, o.stack_from.term, o.s_to.term, o.stack_to.term)
W.contract(Contract('PdaTFc.add_transition', PAR, ret=TNone, modifies=('self',),
    ensures=lambda o, r, n: ForAll([tr], view(n.self)(tr) == Or(view(o.self)(tr), tr == given(o)))))
W.contract(Contract('PdaTFc.__call__', PAR[:4], ret=SetTN,
    ensures=lambda o, r, n: ForAll([tn], r[tn] == view(o.self)(mktr(o.s_from.term, o.input_symbol.term, o.stack_from.term, tn0(tn), tn1(tn))))))
def ctor(eng, e, st):
    return CTF.make(_transitions=MapT.make(dom=TSet(KeyT).empty(), val=MapT.ftype('val').fresh('tf0')), _iter_key=TBool.fresh('ik'), _current_key=TBool.fresh('ck'), _iter_inside=TBool.fresh('ii'))
W.ctors['TransitionFunction'] = ctor
def copy_inv(level):
    def inv(e, done):
        m = e.self._transitions; dom = lambda k: Select(MapT.get(m, 'dom').term, k); val = lambda k: Select(MapT.get(m, 'val').term, k)
        if level == '0':
            cov = lambda t: done[key_of(t)]
        else:
            cov = lambda t: Or(e.get('$done0')[key_of(t)], And(key_of(t) == e.get('$key0').term, done[out_of(t)]))
        return ForAll([tr], view(e.new_tf)(tr) == And(view(e.self)(tr), cov(tr)))
    return inv
W.contract(Contract('PdaTFc.copy', [('self', CTF)], ret=CTF, fresh_result=True,
    ensures=lambda o, r, n: ForAll([tr], view(r)(tr) == view(o.self)(tr)), loops={'0': copy_inv('0'), '0.0': copy_inv('0.0')}))

W.ground_sorts = ()
W.special = {}
_P = 'pyformlang/pda/transition_function.py'
TARGETS = {'PdaTFc.add_transition': (_P, 'TransitionFunction.add_transition'), 'PdaTFc.__call__': (_P, 'TransitionFunction.__call__'), 'PdaTFc.copy': (_P, 'TransitionFunction.copy')}
SMOKE = [
    ('PdaTFc.add_transition', _P, "            self._transitions[temp_in] = {temp_out}", "            self._transitions[temp_in] = set()", 'break'),
    ('PdaTFc.add_transition', _P, "        if temp_in in self._transitions:\n            self._transitions[temp_in].add(temp_out)\n        else:\n            self._transitions[temp_in] = {temp_out}", "        self._transitions[temp_in] = {temp_out}", 'break'),
    ('PdaTFc.add_transition', _P, "        if temp_in in self._transitions:\n            self._transitions[temp_in].add(temp_out)\n        else:\n            self._transitions[temp_in] = {temp_out}", "        self._transitions.setdefault(temp_in, set()).add(temp_out)", 'benign'),
    ('PdaTFc.copy', _P, "                new_tf.add_transition(temp_in[0], temp_in[1], temp_in[2],\n                                      temp_out[0], temp_out[1])", "                new_tf.add_transition(temp_in[0], temp_in[1], temp_in[2],\n                                      temp_in[0], temp_out[1])", 'break'),
    ('PdaTFc.__call__', _P, "return self._transitions.get((s_from, input_symbol, stack_from), {})", "return self._transitions.get((s_from, input_symbol, stack_from), {(s_from, ())})", 'break'),
]
