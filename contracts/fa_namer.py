"""StateNamer (epsilon_nfa.py): the cache never gives one name to two keys.

This discharges, on the real source, what the call sites of get_merged/get_pair rely on (contracts/fa.py models the namer as a
lazily sampled injective function): `_get` is cached (a key keeps its name), injective (a new key gets a name no other key has) and
total.  Keys (frozenset of states / pair of states) are abstracted to an uninterpreted sort with equality; that frozenset equality is
set equality and that a frozenset never equals a tuple is Python semantics, assumed.
"""
import ast
from z3 import *
from pyvc.vtypes import *
from pyvc.engine import World, Contract, NS, Unsupported

W = World()
St, Key = TVal('St'), TVal('Key')
SetSt = TSet(St)
Names = TMap(Key, St)
NAMER = TRec('NamerC', [('_names', Names), ('_used', SetSt)])
prime = Function('prime', St.sort(), St.sort())            # State(str(s.value) + "'")
k, k2 = Consts('k k2', Key.sort()); s = Const('s', St.sort())
W.consts['None'] = NONE_SYM


def state_ctor(eng, e, st):
    """State(str(<x>.value) + "'")  ->  prime(x)   (any other argument shape is outside the model)"""
    a = e.args[0] if len(e.args) == 1 else None
    if isinstance(a, ast.BinOp) and isinstance(a.op, ast.Add) and isinstance(a.right, ast.Constant) and isinstance(a.left, ast.Call) \
            and getattr(a.left.func, 'id', None) == 'str' and isinstance(a.left.args[0], ast.Attribute) and a.left.args[0].attr == 'value':
        x = eng.ev(a.left.args[0].value, st)
        if x.t == St: return Sym(St, prime(x.term))
    raise Unsupported('State(...) with a non-modelled argument')
W.ctors['State'] = state_ctor


def dom(n): return Names.get(n._names, 'dom')
def val(n): return Names.get(n._names, 'val')
def Inv(n):
    return And(ForAll([k, k2], Implies(And(dom(n)[k], dom(n)[k2], val(n)[k] == val(n)[k2]), k == k2)),          # injective
               ForAll([s], n._used[s] == Exists([k], And(dom(n)[k], val(n)[k] == s))))                           # used = range


W.contract(Contract('NamerC._get', [('self', NAMER), ('key', Key), ('state', St)], ret=St, modifies=('self',),
    requires=lambda o: Inv(o.self),
    ensures=lambda o, r, n: And(Inv(n.self),
                                dom(n.self) == Store(dom(o.self).term, o.key.term, True),
                                ForAll([k], Implies(dom(o.self)[k], val(n.self)[k] == val(o.self)[k])),          # cached: old names kept
                                r.term == val(n.self)[o.key],
                                Implies(Not(dom(o.self)[o.key]), Not(o.self._used[r]))),                        # a new key gets an unused name
    loops={'0': lambda e, done: BoolVal(True)}))

W.ground_sorts = (St.sort(), Key.sort())
W.special = {}
_P = 'pyformlang/finite_automaton/epsilon_nfa.py'
TARGETS = {'NamerC._get': (_P, 'StateNamer._get')}

SMOKE = [
    ('NamerC._get', _P, "        while state in self._used:\n            state = State(str(state.value) + \"'\")\n", "", 'break'),
    ('NamerC._get', _P, "        self._used.add(state)\n", "", 'break'),
]
