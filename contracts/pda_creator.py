"""pda.utils.PDAObjectCreator (C13, C11): to_state / to_symbol / to_stack_symbol return an object *equal* to what they are given.

The other contracts of the PDA world use these three methods as the identity on values ("given a State, a State with the same value comes
back; given a raw value, the State of that value").  Proved here on the source, under the representation invariant of the three caches
(every cached object has the value it is filed under): the result of _get_object_from_known has the value of the given object, the result
of _get_object_from_raw is the object of the given raw value, and both keep the invariant.  With "objects of one class are equal iff their
values are" (the value-class assumption, DESIGN 2.1) that is the identity at the level of the views.
Raw values are one uninterpreted sort (Raw); State(raw) / Symbol(raw) / StackSymbol(raw) are injective constructors with `.value` as inverse.
The special cases (the raw text "epsilon" as a symbol, an Epsilon object as a stack symbol) return what the source says and are part of the
postconditions.
"""
import ast
from z3 import *
from pyvc.vtypes import *
from pyvc.engine import World, Contract, NS, Unsupported

W = World()
W.consts['None'] = NONE_SYM
Raw = TVal('Raw')
Obj = TVal('PdaObj')                                   # any object handed to the creator or made by it
MapRO = TMap(Raw, Obj)
CRE = TRec('PDAObjectCreator', [('_state_creator', MapRO), ('_symbol_creator', MapRO), ('_stack_symbol_creator', MapRO)])
x_, y_ = Consts('x_ y_', Obj.sort()); r_, r2 = Consts('r_ r2', Raw.sort())
valOf = Function('value_of', Obj.sort(), Raw.sort())
KINDS = ['State', 'Symbol', 'StackSymbol']
isK = {k: Function('is_' + k, Obj.sort(), BoolSort()) for k in KINDS}
mkK = {k: Function('make_' + k, Raw.sort(), Obj.sort()) for k in KINDS}
isEpsObj = Function('is_Epsilon_object', Obj.sort(), BoolSort()); EPSOBJ = Const('Epsilon_object', Obj.sort()); EPSTEXT = Const('text_epsilon', Raw.sort())
W.fields[('PdaObj', 'value')] = lambda o: Sym(Raw, valOf(o.term))
for k in KINDS:
    W.axioms += [ForAll([r_], And(valOf(mkK[k](r_)) == r_, isK[k](mkK[k](r_))), patterns=[mkK[k](r_)]),
                 ForAll([x_], Implies(isK[k](x_), mkK[k](valOf(x_)) == x_), patterns=[isK[k](x_)])]       # value class: an object of the class is the object of its value
    W.isinstance_preds[k] = (lambda k_: lambda s: isK[k_](s.term) if s.t == Obj else BoolVal(False))(k)
W.isinstance_preds['Epsilon'] = lambda s: isEpsObj(s.term) if s.t == Obj else BoolVal(False)
W.axioms += [isEpsObj(EPSOBJ)]
W.ctors['Epsilon'] = lambda eng, e, st: Sym(Obj, EPSOBJ)
W.consts['str:epsilon'] = Sym(Raw, EPSTEXT)
Cls = {k: TRec('Cls' + k, [('k', TBool)]) for k in KINDS}
for k in KINDS:
    W.contract(Contract(f'Cls{k}.__call__', [('self', Cls[k]), ('value', Raw)], ret=Obj, pure=(lambda k_: lambda o: Sym(Obj, mkK[k_](o.value.term)))(k)))
    W.consts[k] = Cls[k].make(k=Sym(TBool, BoolVal(True)))          # the class object passed as `to_type`
def dom(m, k): return Select(MapRO.get(m, 'dom').term, k)
def val(m, k): return Select(MapRO.get(m, 'val').term, k)
def INVM(m, k): return ForAll([r_], Implies(dom(m, r_), And(valOf(val(m, r_)) == r_, isK[k](val(m, r_)))), patterns=[dom(m, r_)])
def INV(c): return And(INVM(c._state_creator, 'State'), INVM(c._symbol_creator, 'Symbol'), INVM(c._stack_symbol_creator, 'StackSymbol'))
def grows(a, b, key):
    return And(ForAll([r_], Implies(dom(a, r_), And(dom(b, r_), val(b, r_) == val(a, r_))), patterns=[dom(a, r_)]),
               ForAll([r_], Implies(dom(b, r_), Or(dom(a, r_), r_ == key)), patterns=[dom(b, r_)]))
# the two helpers, once per class (the dictionary they are given holds objects of that class)
for k in KINDS:
    W.contract(Contract(f'fn._get_object_from_known[{k}]', [('given', Obj), ('obj_converter', MapRO)], ret=Obj, modifies=('obj_converter',),
        requires=(lambda k_: lambda o: And(INVM(o.obj_converter, k_), isK[k_](o.given.term)))(k),
        ensures=(lambda k_: lambda o, r, n: And(r == o.given, INVM(n.obj_converter, k_), grows(o.obj_converter, n.obj_converter, valOf(o.given.term))))(k)))
    W.contract(Contract(f'fn._get_object_from_raw[{k}]', [('given', Raw), ('obj_converter', MapRO), ('to_type', Cls[k])], ret=Obj, modifies=('obj_converter',),
        requires=(lambda k_: lambda o: INVM(o.obj_converter, k_))(k),
        ensures=(lambda k_: lambda o, r, n: And(r.term == mkK[k_](o.given.term), INVM(n.obj_converter, k_), grows(o.obj_converter, n.obj_converter, o.given.term)))(k)))
def helper_call(which):
    def call(eng, e, st):
        # the dictionary argument tells the class: self._state_creator / _symbol_creator / _stack_symbol_creator
        attr = e.args[1].attr if isinstance(e.args[1], ast.Attribute) else None
        k = {'_state_creator': 'State', '_symbol_creator': 'Symbol', '_stack_symbol_creator': 'StackSymbol'}.get(attr)
        if k is None: raise Unsupported(f'{which} with an unknown dictionary')
        args = [eng.ev(a, st) for a in e.args]
        if which == '_get_object_from_raw' and len(args) == 3 and args[2].t != Cls[k]:
            # a dictionary of one class used with another class (not what the source does today): the contract says what the code then does -
            # the cached object of that key if there is one, else a new object of the *given* class, filed in this dictionary - and the caller's invariant decides
            c2 = next((kk for kk in KINDS if Cls[kk] == args[2].t), None)
            if c2 is None: raise Unsupported(f'{which} with an unknown class')
            c = Contract(f'fn.{which}[{k}<-{c2}]', [('given', Raw), ('obj_converter', MapRO), ('to_type', Cls[c2])], ret=Obj, modifies=('obj_converter',),
                         ensures=lambda o, r, n: And(r.term == If(dom(o.obj_converter, o.given.term), val(o.obj_converter, o.given.term), mkK[c2](o.given.term)),
                                                     dom(n.obj_converter, o.given.term), val(n.obj_converter, o.given.term) == r.term, grows(o.obj_converter, n.obj_converter, o.given.term)))
            return eng.apply_contract(c, None, None, args, st, e.lineno, arg_nodes=[None] + list(e.args))
        c = W.contracts[f'fn.{which}[{k}]']
        return eng.apply_contract(c, None, None, args, st, e.lineno, arg_nodes=[None] + list(e.args))
    return call
W.ctors['_get_object_from_known'] = helper_call('_get_object_from_known')
W.ctors['_get_object_from_raw'] = helper_call('_get_object_from_raw')
# the three methods, in two forms each: given an object of some class (Obj) / given a raw value (Raw)
def same_others(o, n, mine):
    return And([n.self.t.get(n.self, f) == o.self.t.get(o.self, f) for f in ('_state_creator', '_symbol_creator', '_stack_symbol_creator') if f != mine])
W.contract(Contract('PDAObjectCreator.to_state#object', [('self', CRE), ('given', Obj)], ret=Obj, modifies=('self',), requires=lambda o: And(INV(o.self), isK['State'](o.given.term)),
    ensures=lambda o, r, n: And(r == o.given, INV(n.self), same_others(o, n, '_state_creator'))))
W.contract(Contract('PDAObjectCreator.to_state#raw', [('self', CRE), ('given', Raw)], ret=Obj, modifies=('self',), requires=lambda o: INV(o.self),
    ensures=lambda o, r, n: And(r.term == mkK['State'](o.given.term), INV(n.self), same_others(o, n, '_state_creator'))))
W.contract(Contract('PDAObjectCreator.to_symbol#object', [('self', CRE), ('given', Obj)], ret=Obj, modifies=('self',), requires=lambda o: And(INV(o.self), isK['Symbol'](o.given.term)),
    ensures=lambda o, r, n: And(r == o.given, INV(n.self), same_others(o, n, '_symbol_creator'))))
W.contract(Contract('PDAObjectCreator.to_symbol#raw', [('self', CRE), ('given', Raw)], ret=Obj, modifies=('self',), requires=lambda o: INV(o.self),
    ensures=lambda o, r, n: And(r.term == If(o.given.term == EPSTEXT, EPSOBJ, mkK['Symbol'](o.given.term)), INV(n.self), same_others(o, n, '_symbol_creator'))))
W.contract(Contract('PDAObjectCreator.to_stack_symbol#object', [('self', CRE), ('given', Obj)], ret=Obj, modifies=('self',),
    requires=lambda o: And(INV(o.self), Or(isK['StackSymbol'](o.given.term), isEpsObj(o.given.term))),
    ensures=lambda o, r, n: And(r == o.given, INV(n.self), same_others(o, n, '_stack_symbol_creator'))))
W.contract(Contract('PDAObjectCreator.to_stack_symbol#raw', [('self', CRE), ('given', Raw)], ret=Obj, modifies=('self',), requires=lambda o: INV(o.self),
    ensures=lambda o, r, n: And(r.term == mkK['StackSymbol'](o.given.term), INV(n.self), same_others(o, n, '_stack_symbol_creator'))))
def equal_hook(l, r):
    """given == "epsilon" for an object that is not a Symbol: objects of the other classes do not equal a text (their __eq__ compares values of the same class)"""
    return None
W.equal_hook = equal_hook

W.ground_sorts = ()
W.special = {}
_P = 'pyformlang/pda/utils.py'
TARGETS = {}
for k in KINDS:
    TARGETS[f'fn._get_object_from_known[{k}]'] = (_P, 'fn._get_object_from_known'); TARGETS[f'fn._get_object_from_raw[{k}]'] = (_P, 'fn._get_object_from_raw')
for m in ('to_state', 'to_symbol', 'to_stack_symbol'):
    for v in ('object', 'raw'): TARGETS[f'PDAObjectCreator.{m}#{v}'] = (_P, f'PDAObjectCreator.{m}')
SMOKE = [
    ('PDAObjectCreator.to_symbol#raw', _P, '        if given == "epsilon":\n            return Epsilon()\n', '', 'break'),
    ('PDAObjectCreator.to_state#raw', _P, "        return _get_object_from_raw(given, self._state_creator, State)", "        return _get_object_from_raw(given, self._symbol_creator, State)", 'break'),
    ('PDAObjectCreator.to_state#object', _P, "            return _get_object_from_known(given, self._state_creator)", "            return _get_object_from_known(given, self._stack_symbol_creator)", 'break'),
    ('fn._get_object_from_known[State]', _P, "    obj_converter[given.value] = given\n    return given", "    return given", 'benign'),
    ('fn._get_object_from_raw[State]', _P, "    temp = to_type(given)\n    obj_converter[given] = temp\n    return temp", "    temp = to_type(given)\n    obj_converter[given] = temp\n    return obj_converter", 'break'),
    ('PDAObjectCreator.to_stack_symbol#raw', _P, "        return _get_object_from_raw(given,\n                                    self._stack_symbol_creator,\n                                    StackSymbol)", "        return _get_object_from_raw(given,\n                                    self._stack_symbol_creator,\n                                    Symbol)", 'break'),
]
