"""PDA.intersection with a regular language (C11): the product of the PDA with the determinised automaton, built over the reachable pairs.

Proved (for every PDA, every operand, every iteration and worklist order): with A = the deterministic automaton the operand is turned into,
the result is PDA() when A has no start state, and otherwise
  - its start state is the pair (q0, s0), its start stack symbol the one of the PDA;
  - every transition of the result is ((p,s), a, X) -> ((p',s'), push) for a transition (p, a, X) -> (p', push) of the PDA and s' = delta(s, a)
    (s' = s for an epsilon move), and its source pair is the start pair or the target of a transition of the result;
  - for every such (reachable) pair every product move is a transition of the result;
  - a state is final iff it is a reachable pair (p, s) with p final in the PDA and s final in A.
That this product accepts by final state L(P) /\ L(A) is the textbook product theorem (Hopcroft-Motwani-Ullman 7.27 first half), assumed.
Assumed contracts: to_deterministic / is_deterministic / to_epsilon_nfa of the operand (C01), the automaton's call ([] or [successor]),
_PDAStateConverter.to_pda_combined_state as the pairing State((p, s)) (injective: tuples compare by value; its numpy cache only saves
allocations), pda.TransitionFunction.__call__ (the set of (target, push) of the key), PDA.add_transition (proved in contracts/cfg2pda.py).
"""
import ast
from z3 import *
from pyvc.vtypes import *
from pyvc.engine import World, Contract, NS, Unsupported
import contracts.pda as P
import contracts.cfg2pda as T
import contracts.cfg_inter as H

W = World()
def MP(*terms):
    """MultiPattern that keeps its argument terms alive during the call (z3py drops the argument tuple before Z3_mk_pattern reads it)"""
    keep = list(terms); return MultiPattern(*keep)
PSt, PSy, PStk, SetSt, SetSy, SetStk, SeqStk, Trans, SetTr, PDA, TF, EPS, mktr = P.PSt, P.PSy, P.PStk, P.SetSt, P.SetSy, P.SetStk, P.SeqStk, P.Trans, P.SetTr, P.PDA, P.TF, P.EPS, P.mktr
DSt, DSy, DFA, NEXT, det = H.St, H.Sy, H.DFA, H.NEXT, H.det
SetD, SeqD = TSet(DSt), TSeq(DSt)
W.axioms += Trans.axioms()
W.consts['None'] = NONE_SYM
W.seq_literals = {PStk, DSt}
for key_, fld_ in list(P.W.fields.items()) + list(H.W.fields.items()): W.fields[key_] = fld_
p_, p2 = Consts('p_ p2', PSt.sort()); s_, s2 = Consts('s_ s2', DSt.sort()); a_ = Const('a_', PSy.sort()); g_ = Const('g_', PStk.sort()); tr = Const('tr', Trans.sort()); tr2 = Const('tr2', Trans.sort())
stk = Const('stk', SeqStk.sort()); D_ = Const('D_', H.RelT.sort()); b_ = Const('b_', DSy.sort()); TD = Const('TD', SetTr.sort()); k_ = Const('k_', IntSort())
W.axioms += [ForAll([D_, s_, b_], And(Length(NEXT(D_, s_, b_)) <= 1, (Length(NEXT(D_, s_, b_)) == 1) == Exists([s2], Select(D_, s_, b_, s2)))),
             ForAll([D_, s_, b_], Implies(Length(NEXT(D_, s_, b_)) == 1, Select(D_, s_, b_, NEXT(D_, s_, b_)[0])))]
W.contract(Contract('DFAI.__call__', [('self', DFA), ('state', DSt), ('symbol', DSy)], ret=SeqD, pure=lambda o: Sym(SeqD, NEXT(o.self.D.term, o.state.term, o.symbol.term))))
pairSt = Function('combined_state', PSt.sort(), DSt.sort(), PSt.sort()); fstOf = Function('combined_state_pda', PSt.sort(), PSt.sort()); sndOf = Function('combined_state_dfa', PSt.sort(), DSt.sort())
W.axioms.append(ForAll([p_, s_], And(fstOf(pairSt(p_, s_)) == p_, sndOf(pairSt(p_, s_)) == s_), patterns=[pairSt(p_, s_)]))
SCONV = TRec('PDAStateConverterI', [('k', TBool)])
W.ctors['_PDAStateConverter'] = lambda eng, e, st: SCONV.fresh('state_converter')
W.contract(Contract('PDAStateConverterI.to_pda_combined_state', [('self', SCONV), ('state_pda', PSt), ('state_other', DSt)], ret=PSt, pure=lambda o: Sym(PSt, pairSt(o.state_pda.term, o.state_other.term))))
DEPS = Const('dfa_epsilon', DSy.sort()); symD = Function('dfa_symbol_of', PSy.sort(), DSy.sort())
W.fields[('PSy', 'value')] = lambda o: Sym(DSy, symD(o.term))          # Symbol(symbol.value): the automaton symbol with the same value
def epsilon_ctor(eng, e, st): return Sym(DSy, DEPS) if isinstance(e.func, ast.Attribute) else Sym(PSy, EPS)     # finite_automaton.Epsilon() / pda Epsilon()
W.ctors['Epsilon'] = epsilon_ctor
W.ctors['Symbol'] = lambda eng, e, st: (lambda v: v if v.t == DSy else (_ for _ in ()).throw(Unsupported('Symbol(...) of something else than symbol.value')))(eng.ev(e.args[0], st))
TP = TTuple(PSt, DSt); SetTP, BagTP = TSet(TP), TBag(TP)
TN = TURec('tuple[PSt,seq[PStk]]', [('_0', PSt), ('_1', SeqStk)]); register_tuple(TN); SetTN = TSet(TN)
W.axioms += TN.axioms()
CALLP = Function('pda_tf_call', SetTr.sort(), PSt.sort(), PSy.sort(), PStk.sort(), SetTN.sort()); tn = Const('tn', TN.sort())
def tn0(t): return TN.get(Sym(TN, t), '_0').term
def tn1(t): return TN.get(Sym(TN, t), '_1').term
W.axioms.append(ForAll([TD, p_, a_, g_, tn], Select(CALLP(TD, p_, a_, g_), tn) == Select(TD, mktr(p_, a_, g_, tn0(tn), tn1(tn))), patterns=[Select(CALLP(TD, p_, a_, g_), tn)]))
W.contract(Contract('PdaTF.__call__', [('self', TF), ('s_from', PSt), ('input_symbol', PSy), ('stack_from', PStk)], ret=SetTN,
                    pure=lambda o: Sym(SetTN, CALLP(o.self.D.term, o.s_from.term, o.input_symbol.term, o.stack_from.term))))
W.contracts['PDA.add_transition'] = T.W.contracts['PDA.add_transition']
W.contract(Contract('PDA.add_final_state', [('self', PDA), ('state', PSt)], ret=TNone, modifies=('self',),
    ensures=lambda o, r, n: And(n.self.F == Store(o.self.F.term, o.state.term, True), n.self.D == o.self.D, n.self.q0 == o.self.q0, n.self.z0 == o.self.z0,
                                n.self.Q == o.self.Q, n.self.Sig == o.self.Sig, n.self.Gam == o.self.Gam)))
W.fields[('PDA', '_pda_obj_creator')] = T.W.fields[('PDA', '_pda_obj_creator')]
W.contracts['PdaObjCreator.to_state'] = T.W.contracts['PdaObjCreator.to_state']
NOST = Const('no_start_state', PSt.sort()); NOSTK = Const('no_start_stack_symbol', PStk.sort())
def pda_ctor(eng, e, st):
    kws = {kw.arg: kw.value for kw in e.keywords}
    if not e.args and not kws:                                         # PDA(): nothing at all
        return PDA.make(Q=SetSt.empty(), Sig=SetSy.empty(), Gam=SetStk.empty(), D=SetTr.empty(), q0=Sym(PSt, NOST), z0=Sym(PStk, NOSTK), F=SetSt.empty())
    if not e.args and set(kws) == {'start_state', 'start_stack_symbol'}:
        q0 = eng.ev(kws['start_state'], st); z0 = eng.ev(kws['start_stack_symbol'], st)
        return PDA.make(Q=Sym(SetSt, Store(SetSt.empty().term, q0.term, True)), Sig=SetSy.empty(), Gam=Sym(SetStk, Store(SetStk.empty().term, z0.term, True)), D=SetTr.empty(), q0=q0, z0=z0, F=SetSt.empty())
    return P.pda_ctor(eng, e, st)
W.ctors['PDA'] = pda_ctor

# ------------------------------------------------------------------ operand
FAany = DFA                                                            # any finite automaton, through the same view; `deterministic` is a predicate of it
RegexI = TRec('RegexI', [('k', TBool)])
W.isinstance_preds['Regex'] = lambda s: BoolVal(s.t == RegexI)
W.isinstance_preds['FiniteAutomaton'] = lambda s: BoolVal(s.t == DFA)
isDet = Function('fa_is_deterministic', DFA.sort(), BoolSort()); DETF = Function('fa_to_deterministic', DFA.sort(), DFA.sort()); ENFAOF = Function('regex_to_epsilon_nfa', RegexI.sort(), DFA.sort())
def det_view(A): return And(det_fun(A), ForAll([s_, s2], Implies(And(A.I[s_], A.I[s2]), s_ == s2)))
def det_fun(A): return ForAll([s_, b_, s2, D_s], Implies(And(A.D[s_, b_, s2], A.D[s_, b_, D_s]), s2 == D_s))
D_s = Const('D_s', DSt.sort())
W.contract(Contract('DFAI.is_deterministic', [('self', DFA)], ret=TBool, ensures=lambda o, r, n: And(r.term == isDet(o.self.term), Implies(r.term, det_view(o.self)))))
W.contract(Contract('DFAI.to_deterministic', [('self', DFA)], ret=DFA, ensures=lambda o, r, n: And(r == DETF(o.self.term), det_view(r))))
W.contract(Contract('RegexI.to_epsilon_nfa', [('self', RegexI)], ret=DFA, pure=lambda o: Sym(DFA, ENFAOF(o.self.term))))

# ------------------------------------------------------------------ specification
def dstep(A, s, a, s2_): return If(a == EPS, s2_ == s, And(Length(NEXT(A.D.term, s, symD(a))) == 1, NEXT(A.D.term, s, symD(a))[0] == s2_))
def product_move(Pd, A, t):
    """t is ((p,s), a, X) -> ((p',s'), push) for a move of the PDA and a step of the automaton"""
    return Exists([p_, s_, p2, s2], And(Trans.get(Sym(Trans, t), 'p').term == pairSt(p_, s_), Trans.get(Sym(Trans, t), 'q').term == pairSt(p2, s2),
                                        Pd.D[mktr(p_, Trans.get(Sym(Trans, t), 'a').term, Trans.get(Sym(Trans, t), 'X').term, p2, Trans.get(Sym(Trans, t), 'push').term)],
                                        dstep(A, s_, Trans.get(Sym(Trans, t), 'a').term, s2)))
def tsrc(t): return Trans.get(Sym(Trans, t), 'p').term
def ttgt(t): return Trans.get(Sym(Trans, t), 'q').term
def inter_post(A_of):
    def post(o, r, n):
        A = H.dfa_ns(A_of(o)); Pd = o.self
        s0 = Const('s0_', DSt.sort())
        reach = lambda st_: Or(st_ == r.q0.term, Exists([tr2], And(r.D[tr2], ttgt(tr2) == st_)))
        some = Exists([s_], A.I[s_])
        return And(Implies(Not(some), And(ForAll([tr], Not(r.D[tr])), ForAll([p_], Not(r.F[p_])), r.q0 == NOST)),
                   Implies(some, And(Exists([s0], And(A.I[s0], r.q0 == pairSt(Pd.q0.term, s0))), r.z0 == Pd.z0)),
                   Implies(some, ForAll([tr], Implies(r.D[tr], product_move(Pd, A, tr)), patterns=[r.D[tr]])),
                   Implies(some, ForAll([tr], Implies(r.D[tr], reach(tsrc(tr))), patterns=[r.D[tr]])),
                   Implies(some, ForAll([p_, s_, a_, g_, p2, s2, stk], Implies(And(reach(pairSt(p_, s_)), Pd.D[mktr(p_, a_, g_, p2, stk)], Or(a_ == EPS, Pd.Sig[a_]), Pd.Gam[g_], dstep(A, s_, a_, s2)),
                                                                               r.D[mktr(pairSt(p_, s_), a_, g_, pairSt(p2, s2), stk)]),
                                        patterns=[MP(pairSt(p_, s_), Pd.D[mktr(p_, a_, g_, p2, stk)], pairSt(p2, s2))])),
                   Implies(some, ForAll([p_, s_], r.F[pairSt(p_, s_)] == And(reach(pairSt(p_, s_)), Pd.F[p_], A.F[s_]), patterns=[pairSt(p_, s_)])),
                   Implies(some, ForAll([p2], Implies(r.F[p2], p2 == pairSt(fstOf(p2), sndOf(p2))), patterns=[r.F[p2]])))
    return post

def mk_tp(p, s): return TP.make(_0=Sym(PSt, p), _1=Sym(DSt, s)).term
tp_ = Const('tp_', TP.sort())
def tp0(t): return TP.get(Sym(TP, t), '_0').term
def tp1(t): return TP.get(Sym(TP, t), '_1').term
def inv_common(e):
    Pd, A, R, pr, todo = e.self, e.other, e.pda, e.processed, e.to_process
    s0 = e.start_state_other.term
    return [A.I[s0], det_view(A), R.q0 == pairSt(Pd.q0.term, s0), R.z0 == Pd.z0, pr[mk_tp(Pd.q0.term, s0)],
            ForAll([tp_], And(todo[tp_] >= 0, todo[tp_] <= 1), patterns=[todo[tp_]]), ForAll([tp_], Implies(todo[tp_] > 0, pr[tp_]), patterns=[todo[tp_]]),
            ForAll([a_], e.symbols[a_] == Or(Pd.Sig[a_], a_ == EPS)), e.final_state_other == A.F,
            # processed pairs are the start pair or targets of transitions of the result
            ForAll([tp_], Implies(pr[tp_], Or(tp_ == mk_tp(Pd.q0.term, s0), Exists([tr], And(R.D[tr], ttgt(tr) == pairSt(tp0(tp_), tp1(tp_)))))), patterns=[pr[tp_]])]
def inv_body(e, handled, cover, fin_cur):
    """handled(p, s): the pair has been taken from the worklist and completely treated; cover(p, s, a, g, p2, stk, s2): this product move of the pair in hand has been treated"""
    Pd, A, R, pr = e.self, e.other, e.pda, e.processed
    move = lambda p, s, a, g, p2, stk_, s2_: And(Pd.D[mktr(p, a, g, p2, stk_)], Or(a == EPS, Pd.Sig[a]), Pd.Gam[g], dstep(A, s, a, s2_))
    mp = MP(pairSt(p_, s_), Pd.D[mktr(p_, a_, g_, p2, stk)], pairSt(p2, s2))
    ta, tX, tpush = (lambda t: Trans.get(Sym(Trans, t), 'a').term), (lambda t: Trans.get(Sym(Trans, t), 'X').term), (lambda t: Trans.get(Sym(Trans, t), 'push').term)
    sp, ss_, tp__, ts = (lambda t: fstOf(tsrc(t))), (lambda t: sndOf(tsrc(t))), (lambda t: fstOf(ttgt(t))), (lambda t: sndOf(ttgt(t)))          # the components of source and target pair (witnesses instead of an existential)
    return [ForAll([tr], Implies(R.D[tr], And(tsrc(tr) == pairSt(sp(tr), ss_(tr)), ttgt(tr) == pairSt(tp__(tr), ts(tr)), pr[mk_tp(sp(tr), ss_(tr))], pr[mk_tp(tp__(tr), ts(tr))])), patterns=[R.D[tr]]),
            ForAll([tr], Implies(R.D[tr], Or(handled(sp(tr), ss_(tr)), cover(sp(tr), ss_(tr), ta(tr), tX(tr), tp__(tr), tpush(tr), ts(tr)))), patterns=[R.D[tr]]),
            ForAll([tr], Implies(R.D[tr], move(sp(tr), ss_(tr), ta(tr), tX(tr), tp__(tr), tpush(tr), ts(tr))), patterns=[R.D[tr]]),
            ForAll([p_, s_, a_, g_, p2, s2, stk], Implies(And(move(p_, s_, a_, g_, p2, stk, s2), Or(handled(p_, s_), cover(p_, s_, a_, g_, p2, stk, s2))),
                                                          R.D[mktr(pairSt(p_, s_), a_, g_, pairSt(p2, s2), stk)]),
                   patterns=[mp]),
            ForAll([p2], R.F[p2] == Exists([p_, s_], And(p2 == pairSt(p_, s_), Or(handled(p_, s_), fin_cur(p_, s_)), Pd.F[p_], A.F[s_])), patterns=[R.F[p2]])]
def handled_out(e): return lambda p, s: And(e.processed[mk_tp(p, s)], e.to_process[mk_tp(p, s)] == 0)
def handled_in(e): return lambda p, s: And(e.processed[mk_tp(p, s)], e.to_process[mk_tp(p, s)] == 0, Not(And(p == e.state_in.term, s == e.state_dfa.term)))
def cur(e): return [e.processed[mk_tp(e.state_in.term, e.state_dfa.term)], e.to_process[mk_tp(e.state_in.term, e.state_dfa.term)] == 0]
def is_cur(e, p, s): return And(p == e.state_in.term, s == e.state_dfa.term)
def inv_while(e, done=None):
    F_ = lambda *a: BoolVal(False)
    return And(inv_common(e) + inv_body(e, handled_out(e), F_, F_))
def inv_sym(e, done):
    return And(inv_common(e) + cur(e) + inv_body(e, handled_in(e), lambda p, s, a, g, p2, stk_, s2_: And(is_cur(e, p, s), done[a]), lambda p, s: is_cur(e, p, s)))
def nsd_facts(e):
    """what the branch on epsilon left in next_states_dfa: the steps of the automaton from state_dfa on the symbol in hand"""
    ns = e.next_states_dfa.term
    return [ForAll([s2], dstep(e.other, e.state_dfa.term, e.symbol.term, s2) == And(Length(ns) == 1, ns[0] == s2)), Length(ns) <= 1, e.symbols[e.symbol.term], Implies(Length(ns) == 1, dstep(e.other, e.state_dfa.term, e.symbol.term, ns[0]))]
def inv_stk(e, done):
    return And(inv_common(e) + cur(e) + nsd_facts(e) + inv_body(e, handled_in(e),
               lambda p, s, a, g, p2, stk_, s2_: And(is_cur(e, p, s), Or(e.get('$done0.0')[a], And(a == e.symbol.term, done[g]))), lambda p, s: is_cur(e, p, s)))
def inv_nxt(e, done):
    return And(inv_common(e) + cur(e) + nsd_facts(e) + [e.next_states_self == CALLP(e.self.D.term, e.state_in.term, e.symbol.term, e.stack_symbol.term), e.self.Gam[e.stack_symbol.term]]
               + inv_body(e, handled_in(e),
               lambda p, s, a, g, p2, stk_, s2_: And(is_cur(e, p, s), Or(e.get('$done0.0')[a], And(a == e.symbol.term, Or(e.get('$done0.0.0')[g], And(g == e.stack_symbol.term, done[TN.make(_0=Sym(PSt, p2), _1=Sym(SeqStk, stk_)).term]))))),
               lambda p, s: is_cur(e, p, s)))
def inv_dfa(e, i):
    ns = e.next_states_dfa.term
    return And(inv_common(e) + cur(e) + nsd_facts(e) + [e.next_states_self == CALLP(e.self.D.term, e.state_in.term, e.symbol.term, e.stack_symbol.term), e.self.Gam[e.stack_symbol.term],
                                                        e.next_states_self[TN.make(_0=e.next_state, _1=e.next_stack).term], 0 <= i.term, i.term <= Length(ns)]
               + inv_body(e, handled_in(e),
               lambda p, s, a, g, p2, stk_, s2_: And(is_cur(e, p, s), Or(e.get('$done0.0')[a], And(a == e.symbol.term, Or(e.get('$done0.0.0')[g], And(g == e.stack_symbol.term,
                        Or(e.get('$done0.0.0.0')[TN.make(_0=Sym(PSt, p2), _1=Sym(SeqStk, stk_)).term], And(p2 == e.next_state.term, stk_ == e.next_stack.term, i.term >= 1))))))),
               lambda p, s: is_cur(e, p, s)))
LOCALS = {'to_process': BagTP, 'processed': SetTP, 'next_states_dfa': SeqD}
for suffix, OT, A_of in [('fa', DFA, lambda o: If(isDet(o.other.term), o.other.term, DETF(o.other.term))), ('regex', RegexI, lambda o: DETF(ENFAOF(o.other.term)))]:
    W.contract(Contract('PDA.intersection#' + suffix, [('self', PDA), ('other', OT)], ret=PDA, fresh_result=True,
        requires=lambda o: P_WF(o.self), ensures=inter_post(A_of), locals=LOCALS,
        loops={'0': inv_while, '0.0': inv_sym, '0.0.0': inv_stk, '0.0.0.0': inv_nxt, '0.0.0.0.0': inv_dfa},
        loop_post={'0': lambda e: [ForAll([tp_], e.to_process[tp_] == 0),
                                   ForAll([tr], Implies(e.pda.D[tr], e.processed[mk_tp(fstOf(ttgt(tr)), sndOf(ttgt(tr)))]), patterns=[e.pda.D[tr]]),
                                   ForAll([tr], Implies(e.pda.D[tr], e.processed[mk_tp(fstOf(tsrc(tr)), sndOf(tsrc(tr)))]), patterns=[e.pda.D[tr]]),
                                   ForAll([tr], Implies(e.pda.D[tr], tsrc(tr) == pairSt(fstOf(tsrc(tr)), sndOf(tsrc(tr)))), patterns=[e.pda.D[tr]]),
                                   ForAll([tr], Implies(e.pda.D[tr], Or(tsrc(tr) == e.pda.q0.term, Exists([tr2], And(e.pda.D[tr2], ttgt(tr2) == tsrc(tr))))), patterns=[e.pda.D[tr]])]}))
def P_WF(Pd):
    """the symbols and stack symbols of the transitions are registered (what add_transition guarantees)"""
    return ForAll([tr], Implies(Pd.D[tr], And(Or(Trans.get(Sym(Trans, tr), 'a').term == EPS, Pd.Sig[Trans.get(Sym(Trans, tr), 'a').term]), Pd.Gam[Trans.get(Sym(Trans, tr), 'X').term])), patterns=[Pd.D[tr]])
OtherOperand = TRec('OtherOperand', [('k', TBool)])
W.contract(Contract('PDA.intersection#other', [('self', PDA), ('other', OtherOperand)], ret=PDA, raises={'NotImplementedError': lambda o: BoolVal(True)}))

W.ground_sorts = (PSt.sort(), DSt.sort())
W.special = {}
_P = 'pyformlang/pda/pda.py'
TARGETS = {'PDA.intersection#fa': (_P, 'PDA.intersection'), 'PDA.intersection#regex': (_P, 'PDA.intersection'), 'PDA.intersection#other': (_P, 'PDA.intersection'),
           'PDA.add_final_state': (_P, 'PDA.add_final_state')}
VERIFIED_ELSEWHERE = {'PDA.add_transition': 'contracts.cfg2pda'}
SMOKE = [
    ('PDA.intersection#regex', _P, "            if (state_in in self._final_states and state_dfa in\n                    final_state_other):", "            if (state_in in self._final_states or state_dfa in\n                    final_state_other):", 'break'),
    ('PDA.intersection#regex', _P, "                if symbol == Epsilon():\n                    next_states_dfa = [state_dfa]", "                if symbol == Epsilon():\n                    next_states_dfa = [start_state_other]", 'break'),
    ('PDA.intersection#regex', _P, "                            if (next_state, next_state_dfa) not in processed:\n                                to_process.append((next_state, next_state_dfa))\n                                processed.add((next_state, next_state_dfa))", "                            if (next_state, next_state_dfa) not in processed:\n                                processed.add((next_state, next_state_dfa))", 'break'),
    ('PDA.intersection#regex', _P, "                                    next_state,\n                                    next_state_dfa),\n                                next_stack)", "                                    next_state,\n                                    state_dfa),\n                                next_stack)", 'break'),
    ('PDA.intersection#fa', _P, "            is_deterministic = other.is_deterministic()\n            if not is_deterministic:\n                other = other.to_deterministic()", "            is_deterministic = other.is_deterministic()", 'break'),
    ('PDA.intersection#regex', _P, "        for symbol in symbols:\n                if symbol == Epsilon():\n                    symbol_dfa", "        for symbol in self._input_symbols:\n                if symbol == Epsilon():\n                    symbol_dfa", 'break'),
    ('PDA.intersection#regex', _P, "                if len(next_states_dfa) == 0:\n                    continue\n", "", 'benign'),
    ('PDA.intersection#other', _P, "        else:\n            raise NotImplementedError\n        start_state_other", "        else:\n            return PDA()\n        start_state_other", 'break'),
]
