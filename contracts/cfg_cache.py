"""CFG._get_generating_or_nullable: the memoised counters are restored (C19: "restore of decremented counters", cfg.py:124-138).

The worklist decrements `self._remaining_lists[symbol][index]` in place and increments the same cells again at the end.  Proved here, for
every grammar and every iteration order: when the function returns, `_remaining_lists` and `_impacts` hold exactly the values they had
right after `_set_impacts_and_remaining_lists()` - so a second call (get_generating_symbols after get_nullable_symbols, or on a grammar
whose analyses were already used) starts from the same counters as a call on a fresh object.  No KeyError / IndexError on the way.
What the function *computes* (the generating / nullable set) is not specified here - it stays with the bounded stand-in.
View: `_remaining_lists` as symbol -> (index -> count), `_impacts` as symbol -> list of (symbol, index); `_set_impacts_and_remaining_lists`
is taken by its contract (assumed): it leaves already-built tables alone and builds tables whose indices are consistent.
"""
import ast
from z3 import *
from pyvc.vtypes import *
from pyvc.engine import World, Contract, NS, Unsupported

W = World()
Ob = TVal('Ob'); SetOb = TSet(Ob); BagOb = TBag(Ob)
PairOI = TTuple(Ob, TInt); BagPair = TBag(PairOI)
MapII = TMap(TInt, TInt); MapRem = TMap(Ob, MapII); MapImp = TMap(Ob, BagPair)
CFGC = TRec('CFGCounters', [('Tm', SetOb), ('impacts', MapImp), ('remaining', MapRem), ('added', SetOb), ('built', TBool)])
for py, f in [('_terminals', 'Tm'), ('_impacts', 'impacts'), ('_remaining_lists', 'remaining'), ('_added_impacts', 'added')]: W.fields[('CFGCounters', py)] = f
W.consts['None'] = NONE_SYM
EPSOB = Const('EPSILON_OBJECT', Ob.sort())
W.ctors['Epsilon'] = lambda eng, e, st: Sym(Ob, EPSOB)
s_, c_ = Consts('s_ c_', Ob.sort()); i_ = Const('i_', IntSort())
def pair(a, b): return PairOI.make(_0=Sym(Ob, a), _1=Sym(TInt, b)).term
def rdom(R, s): return Select(MapRem.get(R, 'dom').term, s)
def rmap(R, s): return Sym(MapII, Select(MapRem.get(R, 'val').term, s))
def cdom(R, s, i): return Select(MapII.get(rmap(R, s), 'dom').term, i)
def cval(R, s, i): return Select(MapII.get(rmap(R, s), 'val').term, i)
def idom(I, c): return Select(MapImp.get(I, 'dom').term, c)
def ilist(I, c): return Select(MapImp.get(I, 'val').term, c)
def tables_wf(G):
    """every (symbol, index) listed in _impacts addresses an existing counter"""
    return ForAll([c_, s_, i_], Implies(And(idom(G.impacts, c_), Select(ilist(G.impacts, c_), pair(s_, i_)) > 0), And(rdom(G.remaining, s_), cdom(G.remaining, s_, i_))))
def same_shape(R, R0):
    return And(ForAll([s_], rdom(R, s_) == rdom(R0, s_)), ForAll([s_, i_], Implies(rdom(R0, s_), cdom(R, s_, i_) == cdom(R0, s_, i_))))
W.contract(Contract('CFGCounters._set_impacts_and_remaining_lists', [('self', CFGC)], ret=TNone, modifies=('self',),
    ensures=lambda o, r, n: And(n.self.built.term, n.self.Tm == o.self.Tm, tables_wf(n.self),
                                Implies(o.self.built.term, And(n.self.impacts == o.self.impacts, n.self.remaining == o.self.remaining, n.self.added == o.self.added)))))

BUILT = '$post._set_impacts_and_remaining_lists.self'
def counters(e, R0, minus, plus=None):
    """counter(s, i) = built value - #(s, i) in `minus` (+ #(s, i) in `plus`), same keys as built"""
    R = e.self.remaining
    val = lambda s, i: cval(R0, s, i) - Select(minus.term, pair(s, i)) + (Select(plus.term, pair(s, i)) if plus is not None else 0)
    return And(same_shape(R, R0), ForAll([s_, i_], Implies(And(rdom(R0, s_), cdom(R0, s_, i_)), cval(R, s_, i_) == val(s_, i_))),
               ForAll([s_, i_], Select(minus.term, pair(s_, i_)) >= 0),
               ForAll([s_, i_], Implies(Select(minus.term, pair(s_, i_)) > 0, And(rdom(R0, s_), cdom(R0, s_, i_)))),
               e.self.built.term, e.self.impacts == e.get(BUILT).impacts, e.self.added == e.get(BUILT).added, e.self.Tm == e.get(BUILT).Tm, tables_wf(e.get(BUILT)))
BUILT = '$post._set_impacts_and_remaining_lists.self'
def built(e): return e.get(BUILT).remaining
EMPTYBP = BagPair.empty()
W.contract(Contract('CFGCounters._get_generating_or_nullable', [('self', CFGC), ('nullable', TBool)], ret=SetOb, modifies=('self',),
    ensures=lambda o, r, n, g: And(n.self.built.term, n.self.Tm == o.self.Tm,
                                   n.self.impacts == g.B.impacts, n.self.added == g.B.added,                           # tables as built ...
                                   same_shape(n.self.remaining, g.B.remaining),
                                   ForAll([s_, i_], Implies(And(rdom(g.B.remaining, s_), cdom(g.B.remaining, s_, i_)), cval(n.self.remaining, s_, i_) == cval(g.B.remaining, s_, i_))),
                                   Implies(o.self.built.term, And(g.B.impacts == o.self.impacts, g.B.remaining == o.self.remaining, g.B.added == o.self.added))),   # ... = as at entry when already built
    locals={'processed_with_modification': BagPair},
    ghosts={'B': CFGC}, ghost_witness=lambda o, e: {'B': e.get(BUILT)},          # B: the object right after _set_impacts_and_remaining_lists()
    # ordinals: 0 = loop over _added_impacts and (inside the `if`, numbered from 0 again) the loop over _terminals; 1 = worklist; 1.0 = impacts of the
    # popped symbol; 2 = restoring loop
    loops={'0': lambda e, done: And(e.g_symbols[EPSOB], counters(e, built(e), EMPTYBP), ForAll([s_], e.to_process[s_] >= 0)),
           '1': lambda e, done: And(e.g_symbols[EPSOB], counters(e, built(e), e.processed_with_modification), ForAll([s_], e.to_process[s_] >= 0)),
           '1.0': lambda e, done: And(e.g_symbols[EPSOB], counters(e, built(e), e.processed_with_modification), ForAll([s_], e.to_process[s_] >= 0)),
           '2': lambda e, done: And(e.g_symbols[EPSOB], counters(e, built(e), e.processed_with_modification, done))}))

W.ground_sorts = (Ob.sort(),)
W.special = {}
_P = 'pyformlang/cfg/cfg.py'
TARGETS = {'CFGCounters._get_generating_or_nullable': (_P, 'CFG._get_generating_or_nullable')}
SMOKE = [
    ('CFGCounters._get_generating_or_nullable', _P, "            self._remaining_lists[symbol_impact][index_impact] += 1", "            self._remaining_lists[symbol_impact][index_impact] += 0", 'break'),
    ('CFGCounters._get_generating_or_nullable', _P, "                processed_with_modification.append(\n                    (symbol_impact, index_impact))\n                self._remaining_lists", "                self._remaining_lists", 'break'),
]
