"""PDAObjectCreator of pyformlang/cfg (pda_object_creator.py): get_stack_symbol_from never gives one stack symbol to two grammar symbols.

This discharges, on the real source, the premise `stack_symbol_injective` of contracts/cfg2pda.py (there the creator is modelled as a
lazily sampled injective function ss): the method is cached (a key keeps its stack symbol), injective (a key that is named for the first
time gets a stack symbol no other key has) and answers for every key given to the constructor.  On the pinned tree the obligation
`postcondition (injective)` fails - Variable('#TERM#a') and Terminal('a') - which is defect X-C13-to-pda-stack-symbol-collision (fix cc31095).
Strings are abstracted: str(x.value), "#TERM#" + s and s + "'" are uninterpreted functions, StackSymbol(s) is a constructor term.
"""
import ast
from z3 import *
from pyvc.vtypes import *
from pyvc.engine import World, Contract, NS, Unsupported
import contracts.cfg as C
import contracts.pda as P

W = World()
Ob, PStk, SetStk, Str = C.Ob, P.PStk, P.SetStk, P.Str
isVar, isEps = C.isVar, C.isEps
Names = TMap(Ob, PStk)
CRE = TRec('CfgCreatorC', [('_inverse_stack_symbol', Names), ('_used_stack_symbols', SetStk)])
NONE_STK = Const('NONE_STK', PStk.sort()); W.none_consts['PStk'] = NONE_STK
STKEPS = Const('STK_EPSILON', PStk.sort())                     # pda.Epsilon() returned where a stack symbol is expected
strval = Function('str_value', Ob.sort(), Str.sort()); termpfx = Function('term_prefix', Str.sort(), Str.sort()); quote = Function('quote', Str.sort(), Str.sort())
mkStk = P.mkStk
k, k2 = Consts('k k2', Ob.sort()); s = Const('s', PStk.sort()); n_ = Const('n_', Str.sort())
W.consts['None'] = NONE_SYM
W.axioms.append(ForAll([n_], mkStk(n_) != NONE_STK))          # an object is never None
W.isinstance_preds['Epsilon'] = lambda v: isEps(v.term)
W.isinstance_preds['Terminal'] = lambda v: Not(isVar(v.term))
W.ctors['Epsilon'] = lambda eng, e, st: Sym(PStk, STKEPS)
def str_ctor(eng, e, st):
    a = e.args[0] if len(e.args) == 1 else None
    if isinstance(a, ast.Attribute) and a.attr == 'value':
        v = eng.ev(a.value, st)
        if v.t == Ob: return Sym(Str, strval(v.term))
    raise Unsupported('str(...) of something else than <grammar symbol>.value')
W.ctors['str'] = str_ctor
def stk_ctor(eng, e, st):
    v = eng.ev(e.args[0], st)
    if v.t != Str: raise Unsupported('StackSymbol(...) of a non-string')
    return Sym(PStk, mkStk(v.term))
W.ctors['StackSymbol'] = stk_ctor
def binop_hook(eng, e, st):
    if isinstance(e.op, ast.Add):
        if isinstance(e.left, ast.Constant) and e.left.value == '#TERM#':
            r = eng.ev(e.right, st)
            if r.t == Str: return Sym(Str, termpfx(r.term))
        if isinstance(e.right, ast.Constant) and e.right.value == "'":
            l = eng.ev(e.left, st)
            if l.t == Str: return Sym(Str, quote(l.term))
    return None
W.binop_hook = binop_hook

def dom(n): return Names.get(n._inverse_stack_symbol, 'dom')
def val(n): return Names.get(n._inverse_stack_symbol, 'val')
def named(n, key): return And(dom(n)[key], val(n)[key] != NONE_STK)
def Inv(n):
    return And(ForAll([k, k2], Implies(And(named(n, k), named(n, k2), val(n)[k] == val(n)[k2]), k == k2)),          # injective
               ForAll([s], n._used_stack_symbols[s] == Exists([k], And(named(n, k), val(n)[k] == s))))               # used = range

W.contract(Contract('CfgCreatorC.get_stack_symbol_from', [('self', CRE), ('stack_symbol', Ob)], ret=PStk, modifies=('self',),
    requires=lambda o: And(Inv(o.self), Or(isEps(o.stack_symbol.term), dom(o.self)[o.stack_symbol])),
    ensures=lambda o, r, n: And(Inv(n.self),
                                dom(n.self) == dom(o.self),
                                ForAll([k], Implies(named(o.self, k), val(n.self)[k] == val(o.self)[k])),                       # cached: a key keeps its symbol
                                ForAll([k], Implies(And(dom(o.self)[k], Not(named(o.self, k)), k != o.stack_symbol.term), Not(named(n.self, k)))),
                                Implies(Not(isEps(o.stack_symbol.term)), And(named(n.self, o.stack_symbol.term), r.term == val(n.self)[o.stack_symbol])),
                                Implies(And(Not(isEps(o.stack_symbol.term)), Not(named(o.self, o.stack_symbol.term))), Not(o.self._used_stack_symbols[r]))),
    loops={'0': lambda e, done: e.temp.term == mkStk(e.value.term)}))

W.ground_sorts = (Ob.sort(), PStk.sort())
W.special = {}
_P = 'pyformlang/cfg/pda_object_creator.py'
TARGETS = {'CfgCreatorC.get_stack_symbol_from': (_P, 'PDAObjectCreator.get_stack_symbol_from')}
SMOKE = [
    ('CfgCreatorC.get_stack_symbol_from', _P, "            while temp in self._used_stack_symbols:\n                # Two different objects never share a stack symbol\n                value += \"'\"\n                temp = pda.StackSymbol(value)\n", "", 'break'),
    ('CfgCreatorC.get_stack_symbol_from', _P, "            self._used_stack_symbols.add(temp)\n", "", 'break'),
]
