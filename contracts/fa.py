"""pyformlang.finite_automaton: sorts, abstract views, spec functions, contracts."""
from z3 import *
from pyvc.vtypes import *
from pyvc.engine import World, Contract, NS

W = World()
St, Sy = TVal('St'), TVal('Sy')
SetSt, SetSy = TSet(St), TSet(Sy)
RelT = TRel(St, Sy, St)
EPS = Const('EPS', Sy.sort())
NONE_ST = Const('NONE_ST', St.sort())
W.none_consts['St'] = NONE_ST
W.consts['None'] = NONE_SYM

FIELDS = [('Q', SetSt), ('Sig', SetSy), ('T', RelT), ('I', SetSt), ('F', SetSt)]
ENFA = TRec('ENFA', FIELDS); NFA = TRec('NFA', FIELDS); DFA = TRec('DFA', FIELDS)
NTFV = TRec('NTFView', [('T', RelT)])                       # abstract view of a transition-function object
for cls in (ENFA, NFA, DFA):
    for py, f in [('_states', 'Q'), ('states', 'Q'), ('_input_symbols', 'Sig'), ('symbols', 'Sig'),
                  ('_start_state', 'I'), ('start_states', 'I'), ('_final_states', 'F'), ('final_states', 'F')]:
        W.fields[(cls.name, py)] = f
    W.fields[(cls.name, '_transition_function')] = (lambda o: NTFV.make(T=o.T))
for cls in (ENFA, NFA, DFA):
    W.fields[(cls.name, '_transition_function', 'set')] = (lambda base, val: base.t.update(base, 'T', val.t.get(val, 'T')))
NONE_SY = Const('NONE_SY', Sy.sort()); W.none_consts['Sy'] = NONE_SY
W.identity_fns |= {'to_state', 'to_symbol'}
W.subtypes = {('DFA', 'NFA'), ('DFA', 'ENFA'), ('NFA', 'ENFA')}

def empty_rel():
    p, q = Consts('er_p er_q', St.sort()); a = Const('er_a', Sy.sort())
    return Sym(RelT, Lambda([p, a, q], BoolVal(False)))
def new_automaton(cls):
    def ctor(eng, e, st):
        if e.args or e.keywords: raise Exception('constructor with arguments not modelled')
        return cls.make(Q=SetSt.empty(), Sig=SetSy.empty(), T=empty_rel(), I=SetSt.empty(), F=SetSt.empty())
    return ctor
W.ctors['EpsilonNFA'] = new_automaton(ENFA)
W.ctors['NondeterministicFiniteAutomaton'] = new_automaton(NFA)
W.ctors['DeterministicFiniteAutomaton'] = new_automaton(DFA)
W.ctors['Epsilon'] = lambda eng, e, st: Sym(Sy, EPS)

# ------------------------------------------------------------------ spec vocabulary
x, y, z, p, q, r_, d, d2, f_ = Consts('x y z p q r_ d d2 f_', St.sort())
a, b = Consts('a b', Sy.sort())
T_ = Const('T_', RelT.sort()); S_ = Const('S_', SetSt.sort()); I_ = Const('I_', SetSt.sort())
ReachE = Function('ReachE', RelT.sort(), St.sort(), St.sort(), BoolSort())      # reflexive-transitive closure of eps steps
ReachA = Function('ReachA', RelT.sort(), St.sort(), St.sort(), BoolSort())      # ... of steps with any label
StepF = Function('StepF', RelT.sort(), SetSt.sort(), Sy.sort(), SetSt.sort())
EclF = Function('EclF', RelT.sort(), SetSt.sort(), SetSt.sort())
CallF = Function('CallF', RelT.sort(), St.sort(), Sy.sort(), SetSt.sort())
SeqSy = TSeq(Sy)
Run = Function('Run', RelT.sort(), SetSt.sort(), SeqSy.sort(), IntSort(), SetSt.sort())
W_ = Const('W_', SeqSy.sort()); i_ = Const('i_', IntSort())
W.axioms += [
    EPS != NONE_SY,
    ForAll([T_, x], ReachE(T_, x, x)),
    ForAll([T_, x, y, z], Implies(And(ReachE(T_, x, y), Select(T_, y, EPS, z)), ReachE(T_, x, z))),
    ForAll([T_, x], ReachA(T_, x, x)),
    ForAll([T_, x, y, z, a], Implies(And(ReachA(T_, x, y), Select(T_, y, a, z)), ReachA(T_, x, z))),
    # left extension: true of the reflexive-transitive closure (Relation.ReflTransGen.head in Lean, bridge/empty.lean `reach_head`); needs induction, so it is given
    ForAll([T_, x, y, z, a], Implies(And(Select(T_, x, a, y), ReachA(T_, y, z)), ReachA(T_, x, z)), patterns=[MultiPattern(Select(T_, x, a, y), ReachA(T_, y, z))]),
    ForAll([T_, S_, a, x], Select(StepF(T_, S_, a), x) == Exists([p], And(Select(S_, p), Select(T_, p, a, x)))),
    ForAll([T_, S_, x], Select(EclF(T_, S_), x) == Exists([p], And(Select(S_, p), ReachE(T_, p, x)))),
    ForAll([T_, x, a, y], Select(CallF(T_, x, a), y) == Select(T_, x, a, y)),
    ForAll([T_, I_, W_], Run(T_, I_, W_, 0) == EclF(T_, I_)),
    ForAll([T_, I_, W_, i_], Implies(And(i_ >= 0, i_ < Length(W_)),
           Run(T_, I_, W_, i_ + 1) == If(W_[i_] == EPS, Run(T_, I_, W_, i_), EclF(T_, StepF(T_, Run(T_, I_, W_, i_), W_[i_]))))),
]
def closure_induction(Reach, T, x0, P, step):
    """sound for the least fixpoint: P contains x0 and is closed under `step`  =>  Reach(T,x0,.) ⊆ P"""
    yy, zz = Consts('ci_y ci_z', St.sort())
    return Implies(And(Select(P, x0), ForAll([yy, zz], Implies(And(Select(P, yy), step(yy, zz)), Select(P, zz)))),
                   ForAll([yy], Implies(Reach(T, x0, yy), Select(P, yy))))
def single(s): return Store(K(St.sort(), False), unwrap(s), True)

def WF(A):
    return And(ForAll([p, a, q], Implies(A.T[p, a, q], And(A.Q[p], A.Q[q], Or(a == EPS, A.Sig[a])))),
               ForAll([p], Implies(A.I[p], A.Q[p])), ForAll([p], Implies(A.F[p], A.Q[p])),
               Not(A.Sig[EPS]), Not(A.Q[NONE_ST]))

# ------------------------------------------------------------------ contracts: view-level transition function
W.contract(Contract('NTFView.__call__', [('self', NTFV), ('s_from', St), ('symb_by', Sy)], ret=SetSt,
    pure=lambda o: Sym(SetSt, CallF(o.self.T.term, o.s_from.term, o.symb_by.term))))

def edge(o, pp, aa, qq): return And(pp == o.s_from.term, aa == o.symb_by.term, qq == o.s_to.term)
TFP = lambda V: [('self', V), ('s_from', St), ('symb_by', Sy), ('s_to', St)]
# view-level contracts of the transition-function objects: the same formulas as the contracts proved on the concrete classes in
# contracts/fa_concrete.py, with the representation function view(.) replaced by the field T
W.contract(Contract('NTFView.add_transition', TFP(NTFV), ret=TInt, modifies=('self',),
    ensures=lambda o, r, n: And(r.term == 1, ForAll([p, a, q], n.self.T[p, a, q] == Or(o.self.T[p, a, q], edge(o, p, a, q))))))
W.contract(Contract('NTFView.remove_transition', TFP(NTFV), ret=TInt, modifies=('self',),
    ensures=lambda o, r, n: And(r.term == If(o.self.T[o.s_from, o.symb_by, o.s_to], 1, 0),
                                ForAll([p, a, q], n.self.T[p, a, q] == And(o.self.T[p, a, q], Not(edge(o, p, a, q)))))))
# ------------------------------------------------------------------ contracts: mutators (every automaton class)
def post_add_start(o, r, n):
    A, B = o.self, n.self
    return And(B.I == Store(A.I.term, o.state.term, True), B.Q == Store(A.Q.term, o.state.term, True), B.F == A.F, B.T == A.T, B.Sig == A.Sig)
def post_add_final(o, r, n):
    A, B = o.self, n.self
    return And(B.F == Store(A.F.term, o.state.term, True), B.Q == Store(A.Q.term, o.state.term, True), B.I == A.I, B.T == A.T, B.Sig == A.Sig)
def post_add_trans(o, r, n):
    A, B = o.self, n.self; pf, sy, pt = o.s_from.term, o.symb_by.term, o.s_to.term
    return And(B.T == Store(A.T.term, pf, sy, pt, True), B.Q == Store(Store(A.Q.term, pf, True), pt, True),
               B.Sig == If(sy == EPS, A.Sig.term, Store(A.Sig.term, sy, True)), B.I == A.I, B.F == A.F)
def post_rm_trans(o, r, n):
    A, B = o.self, n.self
    return And(ForAll([p, a, q], B.T[p, a, q] == And(A.T[p, a, q], Not(edge(o, p, a, q)))), B.Q == A.Q, B.Sig == A.Sig, B.I == A.I, B.F == A.F,
               r.term == If(A.T[o.s_from, o.symb_by, o.s_to], 1, 0))
def post_rm_start(o, r, n):
    A, B = o.self, n.self
    return And(B.I == Store(A.I.term, o.state.term, False), B.Q == A.Q, B.F == A.F, B.T == A.T, B.Sig == A.Sig, r.term == If(A.I[o.state], 1, 0))
def post_dfa_rm_start(o, r, n):
    A, B = o.self, n.self; only = ForAll([y], A.I[y] == (y == o.state.term))
    return And(B.I == If(only, K(St.sort(), False), A.I.term), B.Q == A.Q, B.F == A.F, B.T == A.T, B.Sig == A.Sig, r.term == If(only, 1, 0))
def post_dfa_add_start(o, r, n):
    A, B = o.self, n.self
    return And(B.I == single(o.state), B.Q == Store(A.Q.term, o.state.term, True), B.F == A.F, B.T == A.T, B.Sig == A.Sig)
for cls in (ENFA, NFA, DFA):
    W.contract(Contract(f'{cls.name}.add_start_state', [('self', cls), ('state', St)], ret=TInt,
                        ensures=post_dfa_add_start if cls is DFA else post_add_start, modifies=('self',)))
    W.contract(Contract(f'{cls.name}.add_final_state', [('self', cls), ('state', St)], ret=TInt, ensures=post_add_final, modifies=('self',)))
    W.contract(Contract(f'{cls.name}.is_final_state', [('self', cls), ('state', St)], ret=TBool,
                        pure=lambda o: Sym(TBool, o.self.F[o.state])))
for cls in (ENFA, NFA, DFA):
    W.contract(Contract(f'{cls.name}.remove_transition', [('self', cls), ('s_from', St), ('symb_by', Sy), ('s_to', St)], ret=TInt, ensures=post_rm_trans, modifies=('self',)))
    W.contract(Contract(f'{cls.name}.remove_start_state', [('self', cls), ('state', St)], ret=TInt,
                        ensures=post_dfa_rm_start if cls is DFA else post_rm_start, modifies=('self',)))
TP = lambda cls: [('self', cls), ('s_from', St), ('symb_by', Sy), ('s_to', St)]
W.contract(Contract('ENFA.add_transition', TP(ENFA), ret=TInt, ensures=post_add_trans, modifies=('self',)))
W.contract(Contract('NFA.add_transition', TP(NFA), ret=TInt, ensures=post_add_trans, modifies=('self',),
                    raises={'InvalidEpsilonTransition': lambda o: o.symb_by == EPS}))
W.contract(Contract('DFA.add_transition', TP(DFA), ret=TInt, ensures=post_add_trans, modifies=('self',),
                    raises={'InvalidEpsilonTransition': lambda o: o.symb_by == EPS,
                            'DuplicateTransitionError': lambda o: Exists([r_], And(o.self.T[o.s_from, o.symb_by, r_], r_ != o.s_to.term))}))

# ------------------------------------------------------------------ EpsilonNFA: closures, acceptance, emptiness, reverse
W.contract(Contract('ENFA._get_next_states_iterable', [('self', ENFA), ('current_states', SetSt), ('symbol', Sy)], ret=SetSt,
    ensures=lambda o, r, n: r == StepF(o.self.T.term, o.current_states.term, o.symbol.term),
    loops={'0': lambda e, done: e.next_states == StepF(e.self.T.term, done.term, e.symbol.term)},
    locals={'next_states': SetSt}))

def ecl_inv(inner):
    def inv(e, done):
        st, pr, tp, Tm = e.state.term, e.processed, e.to_process, e.self.T
        skip = (lambda yy: yy != e.current.term) if inner else (lambda yy: BoolVal(True))
        cl = [pr[st], ForAll([y], Implies(pr[y], ReachE(Tm.term, st, y))), ForAll([y], tp[y] >= 0),
              ForAll([y], Implies(tp[y] > 0, pr[y])),
              ForAll([y, z], Implies(And(pr[y], tp[y] == 0, skip(y), Tm[y, EPS, z]), pr[z]))]
        if inner: cl += [pr[e.current], ForAll([z], Implies(done[z], pr[z]))]
        return And(cl)
    return inv
W.contract(Contract('ENFA.eclose', [('self', ENFA), ('state', St)], ret=SetSt,
    pure=lambda o: Sym(SetSt, EclF(o.self.T.term, single(o.state))),
    ensures=lambda o, r, n: r == EclF(o.self.T.term, single(o.state)),
    loops={'0': ecl_inv(False), '0.0': ecl_inv(True)},
    hints=lambda o, e, r: [closure_induction(ReachE, o.self.T.term, o.state.term, r.term, lambda yy, zz: o.self.T[yy, EPS, zz])]))
W.contract(Contract('ENFA.eclose_iterable', [('self', ENFA), ('states', SetSt)], ret=SetSt,
    ensures=lambda o, r, n: r == EclF(o.self.T.term, o.states.term),
    loops={'0': lambda e, done: e.res == EclF(e.self.T.term, done.term)}, locals={'res': SetSt}))
W.contract(Contract('ENFA.accepts', [('self', ENFA), ('word', SeqSy)], ret=TBool,
    ensures=lambda o, r, n: r.term == Exists([f_], And(o.self.F[f_], Select(Run(o.self.T.term, o.self.I.term, o.word.term, Length(o.word.term)), f_))),
    loops={'0': lambda e, i: e.current_states == Run(e.self.T.term, e.self.I.term, e.word.term, i.term)}))

# ------------------------------------------------------------------ NFA / DFA acceptance (no epsilon closure in the code)
RunN = Function('RunN', RelT.sort(), SetSt.sort(), SeqSy.sort(), IntSort(), SetSt.sort())
j_ = Const('j_', IntSort())
W.axioms += [
    ForAll([T_, I_, W_], RunN(T_, I_, W_, 0) == I_),
    ForAll([T_, I_, W_, i_], Implies(And(i_ >= 0, i_ < Length(W_)), RunN(T_, I_, W_, i_ + 1) == StepF(T_, RunN(T_, I_, W_, i_), W_[i_]))),
]
# induction lemma (not provable by the SMT solver; proved in Lean: bridge/runn.lean `runN_empty_absorbing`): once no state is left, none comes back
RUNN_EMPTY = ForAll([T_, I_, W_, i_, j_], Implies(And(0 <= i_, i_ <= j_, j_ <= Length(W_), ForAll([x], Not(Select(RunN(T_, I_, W_, i_), x)))),
                                                  ForAll([x], Not(Select(RunN(T_, I_, W_, j_), x)))))
def runn_empty_instance(Tm, Im, Wm, i):
    """instance of the lemma at the position where the code gives up (listed in evidence as a Lean-proved hint)"""
    return Implies(And(0 <= i, i <= Length(Wm), ForAll([x], Not(Select(RunN(Tm, Im, Wm, i), x)))),
                   ForAll([x], Not(Select(RunN(Tm, Im, Wm, Length(Wm)), x))))
W.lemmas = {'runN_empty_absorbing': 'bridge/runn.lean'}
def inherit(cls, base_key, **over):
    """a method inherited unchanged: the same contract with the receiver type of the subclass"""
    import copy as _c
    c0 = W.contracts[base_key]; c = _c.copy(c0); c.key = f"{cls.name}.{base_key.split('.', 1)[1]}"
    c.params = [(n, cls if n == 'self' else t) for n, t in c0.params]
    for k, v in over.items(): setattr(c, k, v)
    W.contract(c); return c
for cls in (NFA, DFA):
    inherit(cls, 'ENFA._get_next_states_iterable')
def accN_post(o, r, n):
    return r.term == Exists([f_], And(o.self.F[f_], Select(RunN(o.self.T.term, o.self.I.term, o.word.term, Length(o.word.term)), f_)))
W.contract(Contract('NFA.accepts', [('self', NFA), ('word', SeqSy)], ret=TBool, ensures=accN_post,
    loops={'0': lambda e, i: e.current_states == RunN(e.self.T.term, e.self.I.term, e.word.term, i.term)}))
def WFDv(A):
    return And(WF(A), ForAll([p, a, q, q2], Implies(And(A.T[p, a, q], A.T[p, a, q2]), q == q2)),
               ForAll([p, q], Implies(And(A.I[p], A.I[q]), p == q)))
W.contract(Contract('DFA.accepts', [('self', DFA), ('word', SeqSy)], ret=TBool, requires=lambda o: WFDv(o.self), ensures=accN_post,
    locals={'current_state': St},
    hints=lambda o, e, r: ([runn_empty_instance(o.self.T.term, o.self.I.term, o.word.term, e.get('$done0').term)] if e.get('$done0') is not None else []),
    loops={'0': lambda e, i: ForAll([x], Select(RunN(e.self.T.term, e.self.I.term, e.word.term, i.term), x) ==
                                            And(e.current_state.term != NONE_ST, x == e.current_state.term))}))
W.contract(Contract('NFA.is_deterministic', [('self', NFA)], ret=TBool,
    ensures=lambda o, r, n: r.term == And(ForAll([p, q], Implies(And(o.self.I[p], o.self.I[q]), p == q)),
                                         ForAll([p, a, q, q2], Implies(And(o.self.T[p, a, q], o.self.T[p, a, q2]), q == q2)))))
W.contract(Contract('DFA.is_deterministic', [('self', DFA)], ret=TBool, requires=lambda o: WFDv(o.self),
    ensures=lambda o, r, n: r.term == And(ForAll([p, q], Implies(And(o.self.I[p], o.self.I[q]), p == q)),
                                         ForAll([p, a, q, q2], Implies(And(o.self.T[p, a, q], o.self.T[p, a, q2]), q == q2)))))

# ------------------------------------------------------------------ reachability helpers of FiniteAutomaton (C04: word enumeration pruning)
PairSySt = TTuple(Sy, St); TripleT = TTuple(St, Sy, St)
def pairAS(a_, q_): return PairSySt.make(_0=Sym(Sy, a_), _1=Sym(St, q_)).term
def triple(p_, a_, q_): return TripleT.make(_0=Sym(St, p_), _1=Sym(Sy, a_), _2=Sym(St, q_)).term
for V_ in (NTFV,):
    W.contract(Contract(f'{V_.name}.get_transitions_from', [('self', V_), ('state_from', St)], ret=TBag(PairSySt),
        ensures=lambda o, r, n: ForAll([a, q], r[pairAS(a, q)] == If(o.self.T[o.state_from, a, q], 1, 0))))
    W.contract(Contract(f'{V_.name}.get_edges', [('self', V_)], ret=TBag(TripleT),
        ensures=lambda o, r, n: ForAll([p, a, q], r[triple(p, a, q)] == If(o.self.T[p, a, q], 1, 0))))
def succ_any(Tm, p_, q_): return Exists([a], Select(Tm, p_, a, q_))
W.contract(Contract('ENFA._get_next_states_from', [('self', ENFA), ('state_from', St)], ret=SetSt,
    ensures=lambda o, r, n: ForAll([q], r[q] == succ_any(o.self.T.term, o.state_from.term, q)),
    locals={'next_states': SetSt},
    loops={'0': lambda e, done: ForAll([q], e.next_states[q] == Exists([a], done[pairAS(a, q)] > 0))}))
def from_I(A, yv): return Exists([p], And(A.I[p], ReachA(A.T.term, p, yv)))
def grs_inv(inner):
    def inv(e, done):
        A, vis, tp = e.self, e.visited, e.states_to_process; Tm = A.T.term
        skip = (lambda yy: yy != e.current_state.term) if inner else (lambda yy: BoolVal(True))
        cl = [ForAll([y], Implies(A.I[y], Or(vis[y], tp[y] > 0))), ForAll([y], Implies(vis[y], from_I(A, y))), ForAll([y], tp[y] >= 0),
              ForAll([y], Implies(tp[y] > 0, from_I(A, y))),
              ForAll([y, a, z], Implies(And(vis[y], skip(y), A.T[y, a, z]), Or(vis[z], tp[z] > 0)), patterns=[A.T[y, a, z]])]
        if inner: cl += [vis[e.current_state], ForAll([z], Implies(done[z], Or(vis[z], tp[z] > 0)))]
        return And(cl)
    return inv
W.contract(Contract('ENFA._get_reachable_states', [('self', ENFA)], ret=SetSt,
    ensures=lambda o, r, n: And(ForAll([y], Implies(r[y], from_I(o.self, y)), patterns=[r[y]]), ForAll([p, y], Implies(And(o.self.I[p], ReachA(o.self.T.term, p, y)), r[y]), patterns=[ReachA(o.self.T.term, p, y)])),
    locals={'visited': SetSt},
    loops={'0': grs_inv(False), '0.0': grs_inv(True)},
    loop_post={'0': lambda e: And(ForAll([y], Implies(e.self.I[y], e.visited[y])), ForAll([y, a, z], Implies(And(e.visited[y], e.self.T[y, a, z]), e.visited[z]), patterns=[e.self.T[y, a, z]]))},
    hints=lambda o, e, r: [ForAll([x], closure_induction(ReachA, o.self.T.term, x, r.term, lambda yy, zz: Exists([a], o.self.T[yy, a, zz])))]))
# states from which a final state can be reached (backward search; code after fix 2dc9a83)
MapPrev = TMap(St, SetSt)
def prev_val(m, z_, y_): return Select(Select(MapPrev.get(m, 'val').term, z_), y_)
def prev_dom(m, z_): return Select(MapPrev.get(m, 'dom').term, z_)
def prev_spec(m, A, cov):
    return And(ForAll([z, y], Implies(And(prev_dom(m, z), prev_val(m, z, y)), Exists([a], And(A.T[y, a, z], cov(y, a, z))))),
               ForAll([y, a, z], Implies(And(A.T[y, a, z], cov(y, a, z)), And(prev_dom(m, z), prev_val(m, z, y))), patterns=[A.T[y, a, z]]))
def to_F(A, yv): return Exists([f_], And(A.F[f_], ReachA(A.T.term, yv, f_)))
def ltf_inv(inner):
    def inv(e, done):
        A, L, tp = e.self, e.leading_to_final, e.states_to_process
        skip = (lambda zz: zz != e.current_state.term) if inner else (lambda zz: BoolVal(True))
        cl = [prev_spec(e.previous_states, A, lambda *a_: BoolVal(True)),
              ForAll([y], Implies(A.F[y], L[y])), ForAll([y], Implies(L[y], to_F(A, y))), ForAll([y], tp[y] >= 0), ForAll([y], Implies(tp[y] > 0, L[y])),
              ForAll([y, a, z], Implies(And(L[z], tp[z] == 0, skip(z), A.T[y, a, z]), L[y]), patterns=[A.T[y, a, z]])]
        if inner: cl += [L[e.current_state], ForAll([y], Implies(done[y], L[y]))]
        return And(cl)
    return inv
W.contract(Contract('ENFA._get_states_leading_to_final', [('self', ENFA)], ret=SetSt,
    ensures=lambda o, r, n: And(ForAll([y], Implies(r[y], to_F(o.self, y)), patterns=[r[y]]),
                                ForAll([y, f_], Implies(And(o.self.F[f_], ReachA(o.self.T.term, y, f_)), r[y]), patterns=[ReachA(o.self.T.term, y, f_)])),
    locals={'previous_states': MapPrev},
    loops={'0': lambda e, done: And(prev_spec(e.previous_states, e.self, lambda yy, aa, zz: done[triple(yy, aa, zz)] > 0), e.leading_to_final == e.self.F),
           '1': ltf_inv(False), '1.0': ltf_inv(True)},
    loop_post={'1': lambda e: And(ForAll([y], Implies(e.self.F[y], e.leading_to_final[y])),
                                  ForAll([y, a, z], Implies(And(e.leading_to_final[z], e.self.T[y, a, z]), e.leading_to_final[y]), patterns=[e.self.T[y, a, z]]))},
    hints=lambda o, e, r: [ForAll([x], closure_induction(ReachA, o.self.T.term, x, Lambda([y], Implies(Select(r.term, y), Select(r.term, x))), lambda yy, zz: Exists([a], o.self.T[yy, a, zz])))]))

# ------------------------------------------------------------------ to_fst: the identity transducer over the same edges
FSv, FSyv = TVal('FSv'), TVal('FSyv')                       # raw values of states / symbols, as the FST module uses them
SeqFSy = TSeq(FSyv)
FTr = TURec('FTr', [('p', FSv), ('a', FSyv), ('q', FSv), ('o', SeqFSy)])
W.axioms += FTr.axioms()
FSTV = TRec('FSTView', [('I', TSet(FSv)), ('F', TSet(FSv)), ('D', TSet(FTr))])
stval = Function('state_value', St.sort(), FSv.sort()); syval = Function('symbol_value', Sy.sort(), FSyv.sort())
W.fields[('St', 'value')] = (lambda o: Sym(FSv, stval(o.term))); W.fields[('Sy', 'value')] = (lambda o: Sym(FSyv, syval(o.term)))
W.seq_literals = {FSyv}
W.ctors['FST'] = lambda eng, e, st: FSTV.make(I=TSet(FSv).empty(), F=TSet(FSv).empty(), D=TSet(FTr).empty())
def ftr(p_, a_, q_, o_): return FTr.make(p=Sym(FSv, p_), a=Sym(FSyv, a_), q=Sym(FSv, q_), o=Sym(SeqFSy, o_)).term
W.contract(Contract('FSTView.add_start_state', [('self', FSTV), ('start_state', FSv)], ret=TNone, modifies=('self',),
    ensures=lambda o, r, n: And(n.self.I == Store(o.self.I.term, o.start_state.term, True), n.self.F == o.self.F, n.self.D == o.self.D)))
W.contract(Contract('FSTView.add_final_state', [('self', FSTV), ('final_state', FSv)], ret=TNone, modifies=('self',),
    ensures=lambda o, r, n: And(n.self.F == Store(o.self.F.term, o.final_state.term, True), n.self.I == o.self.I, n.self.D == o.self.D)))
W.contract(Contract('FSTView.add_transition', [('self', FSTV), ('s_from', FSv), ('input_symbol', FSyv), ('s_to', FSv), ('output_symbols', SeqFSy)], ret=TNone, modifies=('self',),
    ensures=lambda o, r, n: And(n.self.D == Store(o.self.D.term, ftr(o.s_from.term, o.input_symbol.term, o.s_to.term, o.output_symbols.term), True), n.self.I == o.self.I, n.self.F == o.self.F)))
ft_ = Const('ft_', FTr.sort()); v_ = Const('v_', FSv.sort())
def out_of(sy): return If(sy == EPS, Empty(SeqFSy.sort()), Unit(syval(sy)))
def tofst_D(D_, T_rel, cov):
    return And(ForAll([ft_], Implies(D_[ft_], Exists([p, a, q], And(T_rel[p, a, q], cov(p, a, q), ft_ == ftr(stval(p), syval(a), stval(q), out_of(a))))), patterns=[D_[ft_]]),
               ForAll([p, a, q], Implies(And(T_rel[p, a, q], cov(p, a, q)), D_[ftr(stval(p), syval(a), stval(q), out_of(a))]), patterns=[T_rel[p, a, q]]))
W.contract(Contract('ENFA.to_fst', [('self', ENFA)], ret=FSTV, fresh_result=True,
    ensures=lambda o, r, n: And(ForAll([v_], r.I[v_] == Exists([p], And(o.self.I[p], v_ == stval(p)))), ForAll([v_], r.F[v_] == Exists([p], And(o.self.F[p], v_ == stval(p)))),
                                tofst_D(r.D, o.self.T, lambda *x_: BoolVal(True))),
    locals={'output': SeqFSy},
    loops={'0': lambda e, done: And(ForAll([v_], e.fst.I[v_] == Exists([p], And(done[p], v_ == stval(p)))), ForAll([v_], Not(e.fst.F[v_])), ForAll([ft_], Not(e.fst.D[ft_]))),
           '1': lambda e, done: And(ForAll([v_], e.fst.I[v_] == Exists([p], And(e.self.I[p], v_ == stval(p)))), ForAll([v_], e.fst.F[v_] == Exists([p], And(done[p], v_ == stval(p)))), ForAll([ft_], Not(e.fst.D[ft_]))),
           '2': lambda e, done: And(ForAll([v_], e.fst.I[v_] == Exists([p], And(e.self.I[p], v_ == stval(p)))), ForAll([v_], e.fst.F[v_] == Exists([p], And(e.self.F[p], v_ == stval(p)))),
                                    tofst_D(e.fst.D, e.self.T, lambda pp, aa, qq: done[triple(pp, aa, qq)] > 0))}))

# ------------------------------------------------------------------ is_empty
def reach_from_I(A, yv):
    return Exists([p], And(A.I[p], ReachA(A.T.term, p, yv)))
def ie_common(e, cur=None):
    pr, tp, A = e.processed, e.to_process, e.self
    skip = (lambda yy: BoolVal(True)) if cur is None else (lambda yy: yy != cur)
    return [ForAll([y], Implies(A.I[y], pr[y])), ForAll([y], Implies(pr[y], reach_from_I(A, y))),
            ForAll([y], tp[y] >= 0), ForAll([y], Implies(tp[y] > 0, pr[y])),
            ForAll([y], Implies(And(pr[y], tp[y] == 0, skip(y)), Not(A.F[y]))),
            ForAll([y, a, z], Implies(And(pr[y], tp[y] == 0, skip(y), A.T[y, a, z]), pr[z]))]
def ie_cur(e):
    return [e.processed[e.current], Not(e.self.F[e.current])]
W.contract(Contract('ENFA.is_empty', [('self', ENFA)], ret=TBool,
    requires=lambda o: WF(o.self),
    ensures=lambda o, r, n: r.term == Not(Exists([p, f_], And(o.self.I[p], o.self.F[f_], ReachA(o.self.T.term, p, f_)))),
    locals={'to_process': TBag(St), 'processed': SetSt},
    loops={'0': lambda e, done: And(ForAll([y], e.processed[y] == done[y]), ForAll([y], e.to_process[y] == If(done[y], 1, 0))),
           '1': lambda e, done: And(ie_common(e)),
           '1.0': lambda e, done: And(ie_common(e, e.current.term) + ie_cur(e) +
                    [ForAll([a, z], Implies(And(done[a], e.self.T[e.current, a, z]), e.processed[z]))]),
           '1.0.0': lambda e, done: And(ie_common(e, e.current.term) + ie_cur(e) +
                    [ForAll([a, z], Implies(And(e.get('$done1.0')[a], e.self.T[e.current, a, z]), e.processed[z])),
                     ForAll([z], Implies(done[z], e.processed[z]))]),
           '1.1': lambda e, done: And(ie_common(e, e.current.term) + ie_cur(e) +
                    [ForAll([a, z], Implies(And(e.self.Sig[a], e.self.T[e.current, a, z]), e.processed[z])),
                     ForAll([z], Implies(done[z], e.processed[z]))])},
    hints=lambda o, e, r: ([] if 'processed' not in e else
        [ForAll([x], closure_induction(ReachA, o.self.T.term, x, e.processed.term,
                                       lambda yy, zz: Exists([a], o.self.T[yy, a, zz])))])))

# ------------------------------------------------------------------ reverse  (builder invariants)
def rev_inv(level):
    def inv(e, done):
        A, B = e.self, e.enfa
        d0 = done if level == '0' else e.get('$done0')
        cases = [d0[p]]
        if level in ('0.0', '0.0.0'):
            ds = done if level == '0.0' else e.get('$done0.0')
            cases.append(And(p == e.state0.term, ds[a]))
        if level == '0.0.0': cases.append(And(p == e.state0.term, a == e.symbol.term, done[q]))
        if level == '0.1': cases += [And(p == e.state0.term, A.Sig[a]), And(p == e.state0.term, a == EPS, done[q])]
        return And(ForAll([p, a, q], B.T[q, a, p] == And(A.T[p, a, q], Or(cases))),
                   ForAll([y], Not(B.I[y])), ForAll([y], Not(B.F[y])))
    return inv
def rev_T(e): return ForAll([p, a, q], e.enfa.T[q, a, p] == e.self.T[p, a, q])
W.contract(Contract('ENFA.reverse', [('self', ENFA)], ret=ENFA, requires=lambda o: WF(o.self), fresh_result=True,
    ensures=lambda o, r, n: And(ForAll([p, a, q], r.T[q, a, p] == o.self.T[p, a, q]), r.F == o.self.I, r.I == o.self.F),
    loops={'0': rev_inv('0'), '0.0': rev_inv('0.0'), '0.0.0': rev_inv('0.0.0'), '0.1': rev_inv('0.1'),
           '1': lambda e, done: And(rev_T(e), e.enfa.F == done, ForAll([y], Not(e.enfa.I[y]))),
           '2': lambda e, done: And(rev_T(e), e.enfa.F == e.self.I, e.enfa.I == done)}))

# ------------------------------------------------------------------ subset construction
nm = Function('nm', SetSt.sort(), St.sort())         # to_single_state: a function of the *set* (sorted ';'-join)
un = Function('un', St.sort(), SetSt.sort())         # its inverse; exists iff nm is injective  => premise #name_injective
NAME_INJECTIVE = ForAll([S_], un(nm(S_)) == S_)
W.axioms.append(NAME_INJECTIVE)
W.premises = {'name_injective': NAME_INJECTIVE}
W.axioms.append(ForAll([S_], nm(S_) != NONE_ST))
nm_raw = Function('to_single_state', SetSt.sort(), St.sort())     # the bare ';'-join: NOT injective, no axiom about it
W.contract(Contract('fn.to_single_state', [('l_states', SetSt)], ret=St, pure=lambda o: Sym(St, nm_raw(o.l_states.term))))
# StateNamer (fix 60ce915): get_merged / get_pair are cached and never give one name to two keys.  At the call sites the namer is
# therefore modelled as a lazily sampled *injective* function (nm / pr2 with inverses un / up1, up2): for every execution the final
# cache is an injective partial map, which extends to a total injective function.  That the class really behaves like this is the
# contract of StateNamer._get, verified on its own source (contracts/fa_namer.py).
NAMER = TRec('Namer', [('tag', TBool)])
W.ctors['StateNamer'] = lambda eng, e, st: NAMER.make(tag=Sym(TBool, BoolVal(True)))
W.contract(Contract('Namer.get_merged', [('self', NAMER), ('l_states', SetSt)], ret=St, pure=lambda o: Sym(St, nm(o.l_states.term))))
SS = Const('SS', SetSt.sort())
def nonempty(X): return Exists([r_], Select(X, r_))
def G(ecl, Tm, S, sym): return If(ecl, EclF(Tm, StepF(Tm, S, sym)), StepF(Tm, S, sym))
def hasfinal(A, S): return Exists([f_], And(Select(S, f_), A.F[f_]))
def wf_res(B):
    return And(ForAll([p, a, q], Implies(B.T[p, a, q], And(B.Q[p], B.Q[q], Or(a == EPS, B.Sig[a])))),
               ForAll([p], Implies(B.I[p], B.Q[p])), ForAll([p], Implies(B.F[p], B.Q[p])), Not(B.Sig[EPS]), Not(B.Q[NONE_ST]))
def det_inv(kind):
    def inv(e, done):
        A, Dm, pr, tp, Tm, ecl = e.self, e.dfa, e.processed, e.to_process, e.self.T.term, e.eclose.term
        d0 = nm(e.start_eclose.term)
        cl = [Dm.I == single(d0), pr[d0], e.start_state == d0, wf_res(Dm),
              ForAll([SS], And(tp[SS] >= 0, tp[SS] <= 1)), ForAll([SS], Implies(tp[SS] > 0, pr[nm(SS)])),
              ForAll([d], Implies(pr[d], nm(un(d)) == d))]
        handled = lambda dd: And(pr[dd], tp[un(dd)] == 0)
        if kind == 'out':
            edge_extra = lambda dd, aa: BoolVal(True); have = lambda dd, aa: BoolVal(True)
            fin = lambda dd: And(handled(dd), hasfinal(A, un(dd)))
        else:
            sf, c = e.s_from.term, e.current.term
            cl += [sf == nm(c), pr[sf], tp[c] == 0]
            if kind == 'sym':
                edge_extra = lambda dd, aa: Implies(dd == sf, done[aa]); have = lambda dd, aa: Or(dd != sf, done[aa])
                fin = lambda dd: And(handled(dd), dd != sf, hasfinal(A, un(dd)))
            else:   # 'fin'
                edge_extra = lambda dd, aa: BoolVal(True); have = lambda dd, aa: BoolVal(True)
                fin = lambda dd: Or(And(handled(dd), dd != sf, hasfinal(A, un(dd))),
                                    And(dd == sf, Exists([f_], And(done[f_], A.F[f_]))))
        cl += [ForAll([d, a, d2], Implies(Dm.T[d, a, d2],
                   And(handled(d), pr[d2], a != EPS, A.Sig[a], d2 == nm(G(ecl, Tm, un(d), a)),
                       nonempty(StepF(Tm, un(d), a)), edge_extra(d, a)))),
               ForAll([d, a], Implies(And(handled(d), A.Sig[a], nonempty(StepF(Tm, un(d), a)), have(d, a)),
                                      Dm.T[d, a, nm(G(ecl, Tm, un(d), a))])),
               ForAll([d], Dm.F[d] == fin(d))]
        return And(cl)
    return inv
def det_post(o, r, n):
    A, B, ecl, Tm = o.self, r, o.eclose.term, o.self.T.term
    S0 = If(ecl, EclF(Tm, A.I.term), A.I.term); d0 = nm(S0)
    inD = lambda dd: Or(dd == d0, Exists([p, b], B.T[p, b, dd]))
    return And(B.I == single(d0), un(d0) == S0,
               ForAll([d, a, d2], Implies(B.T[d, a, d2], And(a != EPS, un(d2) == G(ecl, Tm, un(d), a)))),
               ForAll([d, a], Implies(And(inD(d), a != EPS, ForAll([d2], Not(B.T[d, a, d2]))),
                                      ForAll([y], Not(Select(G(ecl, Tm, un(d), a), y))))),
               ForAll([d], Implies(inD(d), B.F[d] == hasfinal(A, un(d)))),
               ForAll([d, a, d2, y], Implies(And(B.T[d, a, d2], B.T[d, a, y]), d2 == y)),     # deterministic
               wf_res(B))
W.contract(Contract('ENFA._to_deterministic_internal', [('self', ENFA), ('eclose', TBool)], ret=DFA, fresh_result=True,
    requires=lambda o: WF(o.self), ensures=det_post,
    locals={'state': SetSt},
    loops={'0': det_inv('out'), '0.0': det_inv('sym'), '0.1': det_inv('fin'),
           '0.0.0': lambda e, done: ForAll([r_], e.state[r_] == Exists([SS], And(done[SS] > 0, Select(SS, r_))))},
    loop_post={'0.0.0': lambda e: e.state == StepF(e.self.T.term, e.current.term, e.symb.term)}))

# ------------------------------------------------------------------ builder-invariant helper
def covered(e, levels, bvars, done):
    """`levels` = [(ordinal, loop-variable name)] from the outermost loop to the loop whose invariant is being stated;
    a tuple bvars is covered when some prefix equals the current elements of the enclosing loops and the next
    component is in that loop's done set (lexicographic 'already iterated')."""
    disj, prefix = [], []
    for k, (ordn, name) in enumerate(levels):
        dk = done if k == len(levels) - 1 else e.get('$done' + ordn)
        disj.append(And(prefix + [dk[bvars[k]]]))
        if k < len(levels) - 1: prefix.append(bvars[k] == e.get(name).term)
    return Or(disj)

# ------------------------------------------------------------------ remove_epsilon_transitions
e_ = Const('e_', St.sort())
def er_inv(level):
    LV = [('3', 'state'), ('3.0', 'e_state'), ('3.0.0', 'symb'), ('3.0.0.0', 'next_state')]
    depth = {'3': 1, '3.0': 2, '3.0.0': 3, '3.0.0.0': 4}[level]
    def inv(e, done):
        A, B, Tm = e.self, e.nfa, e.self.T.term
        bv = [p, e_, a, q]
        covT = covered(e, LV[:depth], bv, done)
        covF_levels = LV[:min(depth, 2)]
        covF = covered(e, covF_levels, [p, e_], done if depth <= 2 else e.get('$done3.0'))
        if depth >= 3: covF = Or(covF, And(p == e.state.term, e_ == e.e_state.term))     # final test precedes the symbol loop
        cl = [B.I == EclF(Tm, A.I.term),
              ForAll([p, a, q], B.T[p, a, q] == Exists([e_], And(A.Q[p], ReachE(Tm, p, e_), A.Sig[a], A.T[e_, a, q], covT))),
              ForAll([p], B.F[p] == Or(A.F[p], Exists([e_], And(A.Q[p], ReachE(Tm, p, e_), A.F[e_], covF))))]
        if depth >= 2: cl.append(e.eclose == EclF(Tm, single(e.state)))
        return And(cl)
    return inv
def er_post(o, r, n):
    A, Tm = o.self, o.self.T.term
    return And(r.I == EclF(Tm, A.I.term),
               ForAll([p, a, q], r.T[p, a, q] == Exists([e_], And(A.Q[p], ReachE(Tm, p, e_), A.Sig[a], A.T[e_, a, q]))),
               ForAll([p], r.F[p] == Or(A.F[p], Exists([e_], And(A.Q[p], ReachE(Tm, p, e_), A.F[e_])))),
               ForAll([p, q], Not(r.T[p, EPS, q])))
W.contract(Contract('ENFA.remove_epsilon_transitions', [('self', ENFA)], ret=NFA, fresh_result=True,
    requires=lambda o: WF(o.self), ensures=er_post,
    loops={'0': lambda e, done: And(e.nfa.I == done, ForAll([p, a, q], Not(e.nfa.T[p, a, q])), ForAll([p], Not(e.nfa.F[p]))),
           '1': lambda e, done: And(e.nfa.I == e.self.I, ForAll([p, a, q], Not(e.nfa.T[p, a, q])), e.nfa.F == done),
           '2': lambda e, done: And(ForAll([p], e.nfa.I[p] == Or(e.self.I[p], done[p])), ForAll([p, a, q], Not(e.nfa.T[p, a, q])),
                                    e.nfa.F == e.self.F, e.start_eclose == EclF(e.self.T.term, e.self.I.term)),
           '3': er_inv('3'), '3.0': er_inv('3.0'), '3.0.0': er_inv('3.0.0'), '3.0.0.0': er_inv('3.0.0.0')}))

# ------------------------------------------------------------------ get_intersection
PairT = TTuple(St, St)
def tup(p_, q_): return PairT.make(_0=Sym(St, p_), _1=Sym(St, q_)).term
pr2 = Function('pr2', St.sort(), St.sort(), St.sort())       # combine_state_pair: str(a)+"; "+str(b)
up1 = Function('up1', St.sort(), St.sort()); up2 = Function('up2', St.sort(), St.sort())
PAIR_INJECTIVE = ForAll([p, q], And(up1(pr2(p, q)) == p, up2(pr2(p, q)) == q))
W.axioms.append(PAIR_INJECTIVE); W.premises['pair_injective'] = PAIR_INJECTIVE
pr2_raw = Function('combine_state_pair', St.sort(), St.sort(), St.sort())     # the bare '; '-join: NOT injective
W.contract(Contract('fn.combine_state_pair', [('state0', St), ('state1', St)], ret=St,
    pure=lambda o: Sym(St, pr2_raw(o.state0.term, o.state1.term))))
W.contract(Contract('Namer.get_pair', [('self', NAMER), ('state0', St), ('state1', St)], ret=St,
    pure=lambda o: Sym(St, pr2(o.state0.term, o.state1.term))))
for cls in (ENFA, NFA, DFA):
    W.contract(Contract(f'{cls.name}.__call__', [('self', cls), ('state', St), ('symbol', Sy)], ret=SetSt,
        pure=lambda o: Sym(SetSt, CallF(o.self.T.term, o.state.term, o.symbol.term))))
p2, q2, s_, s2 = Consts('p2 q2 s_ s2', St.sort())
def memd(dset, v):            # membership in a done-set that may be a set or a bag
    t = Select(dset.term, v)
    return t if t.sort() == BoolSort() else t > 0
def covered2(e, levels, bvars, done):
    disj, prefix = [], []
    for k, (ordn, name) in enumerate(levels):
        dk = done if k == len(levels) - 1 else e.get('$done' + ordn)
        disj.append(And(prefix + [memd(dk, bvars[k])]))
        if k < len(levels) - 1: prefix.append(bvars[k] == e.get(name).term)
    return Or(disj)
def GI(Tm, pp, aa): return EclF(Tm, CallF(Tm, pp, aa))
def gi_static(e):
    A1, A2, B = e.self, e.other, e.enfa
    return [ForAll([a], (e.symbols[a] > 0) == And(A1.Sig[a], A2.Sig[a])), ForAll([a], And(e.symbols[a] >= 0, e.symbols[a] <= 1))]
def gi_startpairs(e, cov):
    A1, A2 = e.self, e.other
    return lambda pp, qq: And(Select(EclF(A1.T.term, A1.I.term), pp), Select(EclF(A2.T.term, A2.I.term), qq), cov(pp, qq))
def gi_init_inv(level):       # loops 0 and 0.0
    def inv(e, done):
        A1, A2, B = e.self, e.other, e.enfa
        if level == '0': cov = lambda pp, qq: done[pp]
        else: cov = lambda pp, qq: Or(e.get('$done0')[pp], And(pp == e.st0.term, done[qq]))
        sp = gi_startpairs(e, cov)
        return And(gi_static(e) + [
            ForAll([s_], B.I[s_] == Exists([p, q], And(sp(p, q), s_ == pr2(p, q)))),
            ForAll([p, q], e.processed[tup(p, q)] == sp(p, q)),
            ForAll([p, q], e.to_process[tup(p, q)] == If(sp(p, q), 1, 0)),
            ForAll([s_, a, s2], Not(B.T[s_, a, s2])), ForAll([s_], Not(B.F[s_]))])
    return inv
def gi_fin_inv(level):        # loops 1 and 1.0
    def inv(e, done):
        A1, A2, B = e.self, e.other, e.enfa
        if level == '1': cov = lambda pp, qq: done[pp]
        else: cov = lambda pp, qq: Or(e.get('$done1')[pp], And(pp == e.st0.term, done[qq]))
        sp = gi_startpairs(e, lambda pp, qq: BoolVal(True))
        return And(gi_static(e) + [
            ForAll([s_], B.I[s_] == Exists([p, q], And(sp(p, q), s_ == pr2(p, q)))),
            ForAll([p, q], e.processed[tup(p, q)] == sp(p, q)),
            ForAll([p, q], e.to_process[tup(p, q)] == If(sp(p, q), 1, 0)),
            ForAll([s_, a, s2], Not(B.T[s_, a, s2])),
            ForAll([s_], B.F[s_] == Exists([p, q], And(A1.F[p], A2.F[q], cov(p, q), s_ == pr2(p, q))))])
    return inv
def gi_main_inv(level):       # loops 2, 2.0, 2.0.0, 2.0.0.0
    LV = [('2.0', 'symb'), ('2.0.0', 'new_s0'), ('2.0.0.0', 'new_s1')]
    depth = {'2': 0, '2.0': 1, '2.0.0': 2, '2.0.0.0': 3}[level]
    def inv(e, done):
        A1, A2, B, pr, tp = e.self, e.other, e.enfa, e.processed, e.to_process
        T1, T2 = A1.T.term, A2.T.term
        sp = gi_startpairs(e, lambda pp, qq: BoolVal(True))
        symok = lambda aa: And(A1.Sig[aa], A2.Sig[aa])
        succ = lambda pp, qq, aa, pn, qn: And(symok(aa), Select(GI(T1, pp, aa), pn), Select(GI(T2, qq, aa), qn))
        handled = lambda pp, qq: And(pr[tup(pp, qq)], tp[tup(pp, qq)] == 0)
        if depth == 0:
            isc = lambda pp, qq: BoolVal(False); cov = lambda aa, pn, qn: BoolVal(False)
        else:
            isc = lambda pp, qq: And(pp == e.st0.term, qq == e.st1.term)
            cov = lambda aa, pn, qn: covered2(e, LV[:depth], [aa, pn, qn], done)
        cl = gi_static(e) + [
            ForAll([s_], B.I[s_] == Exists([p, q], And(sp(p, q), s_ == pr2(p, q)))),
            ForAll([s_], B.F[s_] == Exists([p, q], And(A1.F[p], A2.F[q], s_ == pr2(p, q)))),
            ForAll([p, q], Implies(sp(p, q), pr[tup(p, q)])),
            ForAll([p, q], And(tp[tup(p, q)] >= 0, tp[tup(p, q)] <= 1)),
            ForAll([p, q], Implies(tp[tup(p, q)] > 0, pr[tup(p, q)])),
            ForAll([s_, a, s2], B.T[s_, a, s2] == Exists([p, q, p2, q2], And(s_ == pr2(p, q), s2 == pr2(p2, q2), handled(p, q),
                   succ(p, q, a, p2, q2), Or(Not(isc(p, q)), cov(a, p2, q2))))),
            ForAll([p, q, a, p2, q2], Implies(And(handled(p, q), succ(p, q, a, p2, q2), Or(Not(isc(p, q)), cov(a, p2, q2))),
                                              pr[tup(p2, q2)]))]
        if depth >= 1: cl += [pr[tup(e.st0.term, e.st1.term)], tp[tup(e.st0.term, e.st1.term)] == 0,
                              e.current_state == pr2(e.st0.term, e.st1.term)]
        return And(cl)
    return inv
def gi_post(o, r, n):
    A1, A2 = o.self, o.other; T1, T2 = A1.T.term, A2.T.term
    E1, E2 = EclF(T1, A1.I.term), EclF(T2, A2.I.term)
    symok = lambda aa: And(A1.Sig[aa], A2.Sig[aa])
    succ = lambda pp, qq, aa, pn, qn: And(symok(aa), Select(GI(T1, pp, aa), pn), Select(GI(T2, qq, aa), qn))
    sp = lambda pp, qq: And(Select(E1, pp), Select(E2, qq))
    inD = lambda pp, qq: Or(sp(pp, qq), Exists([s_, b], r.T[s_, b, pr2(pp, qq)]))        # explored pairs
    return And(
        ForAll([s_], r.I[s_] == Exists([p, q], And(sp(p, q), s_ == pr2(p, q)))),
        ForAll([s_], r.F[s_] == Exists([p, q], And(A1.F[p], A2.F[q], s_ == pr2(p, q)))),
        ForAll([s_, a, s2], Implies(r.T[s_, a, s2], a != EPS)),
        ForAll([p, q, a, s2], Implies(inD(p, q), r.T[pr2(p, q), a, s2] ==
                                      Exists([p2, q2], And(s2 == pr2(p2, q2), succ(p, q, a, p2, q2))))))
W.contract(Contract('ENFA.get_intersection', [('self', ENFA), ('other', ENFA)], ret=ENFA, fresh_result=True,
    requires=lambda o: And(WF(o.self), WF(o.other)), ensures=gi_post,
    locals={'to_process': TBag(PairT), 'processed': TSet(PairT)},
    loops={'0': gi_init_inv('0'), '0.0': gi_init_inv('0.0'), '1': gi_fin_inv('1'), '1.0': gi_fin_inv('1.0'),
           '2': gi_main_inv('2'), '2.0': gi_main_inv('2.0'), '2.0.0': gi_main_inv('2.0.0'), '2.0.0.0': gi_main_inv('2.0.0.0')}))

# ------------------------------------------------------------------ copy (EpsilonNFA)
def copy_inv(level):
    LV = {'2': [('2', 'state')], '2.0': [('2', 'state'), ('2.0', 'symbol')],
          '2.0.0': [('2', 'state'), ('2.0', 'symbol'), ('2.0.0', 'state_to')]}
    def inv(e, done):
        A, B = e.self, e.enfa
        if level == '2.1':
            cov = Or(e.get('$done2')[p], And(p == e.state.term, A.Sig[a]), And(p == e.state.term, a == EPS, done[q]))
        else:
            cov = covered(e, LV[level], [p, a, q], done)
            cov = And(cov, Or(a != EPS, e.get('$done2')[p] if level != '2' else done[p]))   # eps edges are copied by loop 2.1
            if level != '2': cov = Or(cov, BoolVal(False))
        return And(ForAll([p, a, q], B.T[p, a, q] == And(A.T[p, a, q], cov)), B.I == A.I, B.F == A.F, wf_edges(B))
    return inv
def wf_edges(B):
    return And(ForAll([p, a, q], Implies(B.T[p, a, q], And(B.Q[p], B.Q[q], Or(a == EPS, B.Sig[a])))),
               ForAll([p], Implies(B.I[p], B.Q[p])), ForAll([p], Implies(B.F[p], B.Q[p])))
W.contract(Contract('ENFA.copy', [('self', ENFA)], ret=ENFA, fresh_result=True, requires=lambda o: WF(o.self),
    ensures=lambda o, r, n: And(r.T == o.self.T, r.I == o.self.I, r.F == o.self.F, WF(r),
                                ForAll([p], Implies(r.Q[p], o.self.Q[p])), ForAll([a], Implies(r.Sig[a], o.self.Sig[a]))),
    loops={'0': lambda e, done: And(e.enfa.I == done, ForAll([p, a, q], Not(e.enfa.T[p, a, q])), ForAll([p], Not(e.enfa.F[p])),
                                    ForAll([p], Implies(e.enfa.Q[p], e.self.Q[p])), ForAll([a], Not(e.enfa.Sig[a])), wf_edges(e.enfa)),
           '1': lambda e, done: And(e.enfa.I == e.self.I, ForAll([p, a, q], Not(e.enfa.T[p, a, q])), e.enfa.F == done,
                                    ForAll([p], Implies(e.enfa.Q[p], e.self.Q[p])), ForAll([a], Not(e.enfa.Sig[a])), wf_edges(e.enfa)),
           '2': lambda e, done: And(copy_inv('2')(e, done), ForAll([p], Implies(e.enfa.Q[p], e.self.Q[p])), ForAll([a], Implies(e.enfa.Sig[a], e.self.Sig[a]))),
           '2.0': lambda e, done: And(copy_inv('2.0')(e, done), ForAll([p], Implies(e.enfa.Q[p], e.self.Q[p])), ForAll([a], Implies(e.enfa.Sig[a], e.self.Sig[a]))),
           '2.0.0': lambda e, done: And(copy_inv('2.0.0')(e, done), ForAll([p], Implies(e.enfa.Q[p], e.self.Q[p])), ForAll([a], Implies(e.enfa.Sig[a], e.self.Sig[a])),
                                        e.states == CallF(e.self.T.term, e.state.term, e.symbol.term)),
           '2.1': lambda e, done: And(copy_inv('2.1')(e, done), ForAll([p], Implies(e.enfa.Q[p], e.self.Q[p])), ForAll([a], Implies(e.enfa.Sig[a], e.self.Sig[a])),
                                      e.states == CallF(e.self.T.term, e.state.term, EPS))}))

# ------------------------------------------------------------------ deterministic automata: copy, to_deterministic wrappers
import ast
TRASH = Const('TRASH', St.sort())                    # State("TrashNode")
prime = Function('prime', St.sort(), St.sort())      # State(str(s.value) + "'")
W.axioms.append(TRASH != NONE_ST)
W.axioms.append(ForAll([x], prime(x) != NONE_ST))
def state_ctor(eng, e, st):
    a = e.args[0] if len(e.args) == 1 else None
    if isinstance(a, ast.Constant) and a.value == 'TrashNode': return Sym(St, TRASH)
    if isinstance(a, ast.BinOp) and isinstance(a.op, ast.Add) and isinstance(a.right, ast.Constant) and isinstance(a.left, ast.Call) \
            and getattr(a.left.func, 'id', None) == 'str' and isinstance(a.left.args[0], ast.Attribute) and a.left.args[0].attr == 'value':
        v = eng.ev(a.left.args[0].value, st)
        if v.t == St: return Sym(St, prime(v.term))
    raise Exception('State(...) with a non-modelled argument')
W.ctors['State'] = state_ctor
def functional(Tm): return ForAll([p, a, q, q2], Implies(And(Select(Tm, p, a, q), Select(Tm, p, a, q2)), q == q2))
def wf_edges(B):
    return And(ForAll([p, a, q], Implies(B.T[p, a, q], And(B.Q[p], B.Q[q], Or(a == EPS, B.Sig[a])))),
               ForAll([p], Implies(B.I[p], B.Q[p])), ForAll([p], Implies(B.F[p], B.Q[p])))
def WFD(A):          # class invariant of DeterministicFiniteAutomaton objects
    return And(WF(A), functional(A.T.term), ForAll([p, a, q], Implies(A.T[p, a, q], a != EPS)),
               ForAll([p, q], Implies(And(A.I[p], A.I[q]), p == q)))
def post_remove_final(o, r, n):
    A, B = o.self, n.self
    return And(B.F == Store(A.F.term, o.state.term, False), B.Q == A.Q, B.I == A.I, B.T == A.T, B.Sig == A.Sig)
for cls in (ENFA, NFA, DFA):
    W.contract(Contract(f'{cls.name}.remove_final_state', [('self', cls), ('state', St)], ret=TInt, ensures=post_remove_final, modifies=('self',)))
# the transition function object of a DFA returns a list with at most one state
DTFV = TRec('DTFView', [('T', RelT)])
W.fields[(DFA.name, '_transition_function')] = (lambda o: DTFV.make(T=o.T))
SeqSt = TSeq(St)
W.contract(Contract('DTFView.__call__', [('self', DTFV), ('s_from', St), ('symb_by', Sy)], ret=SeqSt,
    requires=lambda o: functional(o.self.T.term),
    ensures=lambda o, r, n: Or(And(Length(r.term) == 0, ForAll([q], Not(o.self.T[o.s_from, o.symb_by, q]))),
                               And(Length(r.term) == 1, o.self.T[o.s_from, o.symb_by, r.term[0]]))))
def dcopy_inv(level):
    def inv(e, done):
        A, B = e.self, e.dfa
        if level == '1': cov = done[p]
        else: cov = Or(e.get('$done1')[p], And(p == e.state.term, done[a]))
        return And(ForAll([p, a, q], B.T[p, a, q] == And(A.T[p, a, q], A.Q[p], A.Sig[a], cov)), B.I == A.I, B.F == A.F, wf_edges(B),
                   ForAll([p], Implies(B.Q[p], A.Q[p])), ForAll([a], Implies(B.Sig[a], A.Sig[a])))
    return inv
W.contract(Contract('DFA.copy', [('self', DFA)], ret=DFA, fresh_result=True, requires=lambda o: WFD(o.self),
    ensures=lambda o, r, n: And(r.T == o.self.T, r.I == o.self.I, r.F == o.self.F, WFD(r),
                                ForAll([p], Implies(r.Q[p], o.self.Q[p])), ForAll([a], Implies(r.Sig[a], o.self.Sig[a]))),
    loops={'0': lambda e, done: And(e.dfa.I == e.self.I, ForAll([p, a, q], Not(e.dfa.T[p, a, q])), e.dfa.F == done,
                                    ForAll([p], Implies(e.dfa.Q[p], e.self.Q[p])), ForAll([a], Not(e.dfa.Sig[a])), wf_edges(e.dfa)),
           '1': dcopy_inv('1'), '1.0': dcopy_inv('1.0')}))
W.contract(Contract('ENFA.to_deterministic', [('self', ENFA)], ret=DFA, fresh_result=True, requires=lambda o: WF(o.self),
    ensures=lambda o, r, n: det_post(NS({'self': o.self, 'eclose': Sym(TBool, BoolVal(True))}), r, None)))
W.contract(Contract('NFA.to_deterministic', [('self', NFA)], ret=DFA, fresh_result=True, requires=lambda o: WF(o.self),
    ensures=lambda o, r, n: det_post(NS({'self': o.self, 'eclose': Sym(TBool, BoolVal(False))}), r, None)))
W.contract(Contract('NFA._to_deterministic_internal', [('self', NFA), ('eclose', TBool)], ret=DFA, fresh_result=True,
    requires=lambda o: WF(o.self), ensures=det_post))           # inherited from EpsilonNFA: same body, verified there
W.contract(Contract('DFA.to_deterministic', [('self', DFA)], ret=DFA, ensures=lambda o, r, n: r == o.self))

# ------------------------------------------------------------------ get_complement (after fix d7a29e1: determinise, then flip)
def nonemptyS(X): return Exists([r_], Select(X, r_))
def gc_struct(e, C, Sigma, trash, B, flipped, cov, trash_done):
    """B is C with: finals flipped on `flipped` states, trash final, trash edges where C has no successor (as far as `cov`), trash loops"""
    return And(
        ForAll([p, a, q], B.T[p, a, q] == Or(C.T[p, a, q], And(C.Q[p], Sigma[a], q == trash, Not(Exists([x], C.T[p, a, x])), cov(p, a)),
                                             And(p == trash, q == trash, trash_done(a)))),
        ForAll([p], B.F[p] == Or(And(C.F[p], Not(flipped(p))), And(C.Q[p], Not(C.F[p]), flipped(p)), p == trash)),
        B.I == If(nonemptyS(C.I.term), C.I.term, single(trash)),
        ForAll([p], B.Q[p] == Or(C.Q[p], p == trash)),
        ForAll([a], B.Sig[a] == Or(C.Sig[a], Sigma[a])))
def gc_inv(level):
    def inv(e, done):
        A, B = e.self, e.enfa; D = e.get('$ret.to_deterministic'); C0 = e.get('$ret.copy'); Sigma = A.Sig
        no = lambda *a_: BoolVal(False); yes = lambda *a_: BoolVal(True)
        base = [det_post(NS({'self': A, 'eclose': Sym(TBool, BoolVal(True))}), D, None), C0.T == D.T, C0.I == D.I, C0.F == D.F, WFD(C0),
                ForAll([p], Implies(C0.Q[p], D.Q[p])), ForAll([a], Implies(C0.Sig[a], D.Sig[a])), WF(A)]
        if level == '0':
            return And(base + [B.T == C0.T, B.I == C0.I, B.F == C0.F, B.Q == C0.Q, ForAll([a], B.Sig[a] == Or(C0.Sig[a], done[a]))])
        C = NS({'T': C0.T, 'I': C0.I, 'F': C0.F, 'Q': e.states, 'Sig': Sym(SetSy, Lambda([a], Or(C0.Sig[a], Sigma[a])))})
        common = base + [e.states == C0.Q, e.finals == C0.F]
        if level == '1':
            return And(common + [B.T == C0.T, B.I == C0.I, B.F == C0.F, B.Q == C0.Q, ForAll([a], B.Sig[a] == Or(C0.Sig[a], Sigma[a])), e.trash.term != NONE_ST])
        tr = e.trash.term; fresh = [Not(e.states[tr]), tr != NONE_ST]
        if level == '2': return And(common + fresh + [gc_struct(e, C, Sigma, tr, B, lambda pp: done[pp], no, no)])
        if level == '3': return And(common + fresh + [gc_struct(e, C, Sigma, tr, B, yes, lambda pp, aa: done[pp], no)])
        if level == '3.0': return And(common + fresh + [gc_struct(e, C, Sigma, tr, B, yes, lambda pp, aa: Or(e.get('$done3')[pp], And(pp == e.state.term, done[aa])), no)])
        if level == '4': return And(common + fresh + [gc_struct(e, C, Sigma, tr, B, yes, yes, lambda aa: done[aa])])
    return inv
def gc_post(o, r, n, g):
    A, D, C0, tr = o.self, g.D, g.C, g.trash.term
    C = NS({'T': C0.T, 'I': C0.I, 'F': C0.F, 'Q': C0.Q, 'Sig': Sym(SetSy, Lambda([a], Or(C0.Sig[a], A.Sig[a])))})
    yes = lambda *a_: BoolVal(True)
    return And(det_post(NS({'self': A, 'eclose': Sym(TBool, BoolVal(True))}), D, None),
               C0.T == D.T, C0.I == D.I, C0.F == D.F, ForAll([p], Implies(C0.Q[p], D.Q[p])), WFD(C0),
               Not(C0.Q[tr]), tr != NONE_ST,
               gc_struct(None, C, A.Sig, tr, r, yes, yes, lambda aa: A.Sig[aa]),
               WFD(r))
W.contract(Contract('ENFA.get_complement', [('self', ENFA)], ret=DFA, fresh_result=True,
    requires=lambda o: WF(o.self), ensures=gc_post,
    ghosts={'D': DFA, 'C': DFA, 'trash': St},
    ghost_witness=lambda o, e: {'D': e.get('$ret.to_deterministic'), 'C': e.get('$ret.copy'), 'trash': e.trash},
    loops={k: gc_inv(k) for k in ('0', '1', '2', '3', '3.0', '4')}))

# ------------------------------------------------------------------ is_deterministic
W.contract(Contract('NTFView.is_deterministic', [('self', NTFV)], ret=TBool, pure=lambda o: Sym(TBool, functional(o.self.T.term))))
W.contract(Contract('ENFA.is_deterministic', [('self', ENFA)], ret=TBool, requires=lambda o: WF(o.self),
    hints=lambda o, e, r: [ForAll([x], closure_induction(ReachE, o.self.T.term, x, single(x), lambda yy, zz: o.self.T[yy, EPS, zz]))],
    ensures=lambda o, r, n: r.term == And(ForAll([p, q], Implies(And(o.self.I[p], o.self.I[q]), p == q)),       # at most one start state
                                         functional(o.self.T.term),                                            # one successor per state and label
                                         ForAll([p, q], Implies(And(o.self.Q[p], o.self.T[p, EPS, q]), q == p)))))   # no eps move to another state

# ------------------------------------------------------------------ add_symbol, get_difference (pure composition of contracts)
for cls in (ENFA, NFA, DFA):
    W.contract(Contract(f'{cls.name}.add_symbol', [('self', cls), ('symbol', Sy)], ret=TNone, modifies=('self',),
        ensures=lambda o, r, n: And(n.self.Sig == Store(o.self.Sig.term, o.symbol.term, True), n.self.Q == o.self.Q,
                                    n.self.T == o.self.T, n.self.I == o.self.I, n.self.F == o.self.F)))
def gd_post(o, r, n, g):
    A, Bo, C, K = o.self, o.other, g.C, g.K          # C: the copy of `other` enlarged by self's symbols; K: its complement (a DFA)
    Kv = ENFA.make(**{f: DFA.get(K, f) for f, _ in DFA.fields})
    return And(C.T == Bo.T, C.I == Bo.I, C.F == Bo.F, WF(C),
               ForAll([a], Implies(A.Sig[a], C.Sig[a])), ForAll([a], Implies(C.Sig[a], Or(A.Sig[a], Bo.Sig[a]))),
               gc_post(NS({'self': C}), K, None, NS({'D': g.D, 'C': g.C2, 'trash': g.trash})), gi_post(NS({'self': A, 'other': Kv}), r, None))
W.contract(Contract('ENFA.get_difference', [('self', ENFA), ('other', ENFA)], ret=ENFA, fresh_result=True,
    requires=lambda o: And(WF(o.self), WF(o.other)), ensures=gd_post,
    ghosts={'C': ENFA, 'K': DFA, 'D': DFA, 'C2': DFA, 'trash': St},
    ghost_witness=lambda o, e: {'C': e.other, 'K': e.get('$ret.get_complement'), 'D': e.get('$ghost.get_complement.D'),
                                'C2': e.get('$ghost.get_complement.C'), 'trash': e.get('$ghost.get_complement.trash')},
    loops={'0': lambda e, done: And(e.other.T == e.get('$old.other').T, e.other.I == e.get('$old.other').I,
                                    e.other.F == e.get('$old.other').F, WF(e.other),
                                    ForAll([p], Implies(e.other.Q[p], e.get('$old.other').Q[p])),
                                    ForAll([a], e.other.Sig[a] == Or(And(e.get('$old.other').Sig[a], e.other.Sig[a]), done[a])))}))

# ------------------------------------------------------------------ add_transitions: the transitions of the list, one add_transition each
Trip = TTuple(St, Sy, St); BagTrip = TBag(Trip)
def trip(pp, aa, qq): return Trip.make(_0=Sym(St, pp), _1=Sym(Sy, aa), _2=Sym(St, qq)).term
def at_all(A, B, cov):
    """B is A plus the covered triples (states and non-epsilon symbols of the triples registered)"""
    return And(ForAll([p, a, q], B.T[p, a, q] == Or(A.T[p, a, q], cov(p, a, q))),
               ForAll([x], B.Q[x] == Or(A.Q[x], Exists([p, a, q], And(cov(p, a, q), Or(x == p, x == q))))),
               ForAll([a], B.Sig[a] == Or(A.Sig[a], And(a != EPS, Exists([p, q], cov(p, a, q))))), B.I == A.I, B.F == A.F)
W.contract(Contract('ENFA.add_transitions', [('self', ENFA), ('transitions_list', BagTrip)], ret=TInt, modifies=('self',),
    ensures=lambda o, r, n: at_all(o.self, n.self, lambda pp, aa, qq: o.transitions_list[trip(pp, aa, qq)] > 0),
    loops={'0': lambda e, done: at_all(e.get('$old.self'), e.self, lambda pp, aa, qq: done[trip(pp, aa, qq)] > 0)}))

# ------------------------------------------------------------------ is_acyclic: the answer False is sound
# The search keeps pairs (state, set of the states on the path that led to it).  Proved: every pair in the work list has a state reachable from a start
# state and every state of its path set is itself reachable and reaches the state of the pair in at least one step; hence when the state is found in
# its own path set (answer False) there is a cycle reachable from a start state.  The converse (answer True => no reachable cycle, i.e. the search is
# exhaustive) is NOT under contract: bounded stand-in only.
W.empty_in_tuple = SetSt
PairSV = TTuple(St, SetSt); BagSV = TBag(PairSV)
def reachable(A, s): return Exists([p], And(A.I[p], ReachA(A.T.term, p, s)))
def reach_plus(A, x_, s): return Exists([y, a], And(A.T[x_, a, y], ReachA(A.T.term, y, s)))          # at least one step
vis_ = Const('vis_', SetSt.sort())
def item_ok(A, s, vis): return And(reachable(A, s), ForAll([x], Implies(Select(vis, x), And(reachable(A, x), reach_plus(A, x, s)))))
def items_ok(A, tp): return ForAll([q, vis_], Implies(tp[PairSV.make(_0=Sym(St, q), _1=Sym(SetSt, vis_)).term] > 0, item_ok(A, q, vis_)))
def acy_inner(e, done):
    A, cur = e.self, e.current.term
    return And(items_ok(A, e.to_process), reachable(A, cur), e.visited[cur], ForAll([x], Implies(And(e.visited[x], x != cur), And(reachable(A, x), reach_plus(A, x, cur)))))
W.contract(Contract('ENFA.is_acyclic', [('self', ENFA)], ret=TBool, requires=lambda o: WF(o.self),
    ensures=lambda o, r, n: Implies(Not(r.term), Exists([x], And(reachable(o.self, x), reach_plus(o.self, x, x)))),
    locals={'to_process': BagSV},
    loops={'0': lambda e, done: items_ok(e.self, e.to_process),
           '1': lambda e, done: items_ok(e.self, e.to_process),
           '1.0': acy_inner, '1.0.0': acy_inner, '1.1': acy_inner}))

# ------------------------------------------------------------------ is_acyclic: the answer True is sound (the search is exhaustive)
# Stated with a ghost argument: `ws` is any walk from a start state that closes a cycle for the first time at its last state (all states before
# the last one distinct, the last one equal to an earlier one).  Proved: if such a walk exists the function does not return True.  With the
# graph fact "a cycle is reachable from a start state  =>  such a walk exists" (shortest lasso; assumed) this is the converse of the contract above.
SeqSt_ = TSeq(St)
j1, j2, m_ = Consts('j1 j2 m_', IntSort())
def lasso(A, ws):
    n = Length(ws)
    return And(n >= 2, A.I[ws[0]],
               ForAll([m_], Implies(And(0 <= m_, m_ < n - 1), Exists([a], A.T[ws[m_], a, ws[m_ + 1]]))),
               ForAll([j1, j2], Implies(And(0 <= j1, j1 < j2, j2 < n - 1), ws[j1] != ws[j2])),
               Exists([j1], And(0 <= j1, j1 < n - 1, ws[j1] == ws[n - 1])))
wsv = Const('wsv', SeqSt_.sort()); mv, mv2 = Consts('mv mv2', IntSort())
PSet = Function('PrefixSet', SeqSt_.sort(), IntSort(), SetSt.sort())          # the set of the first m states of a walk
PSET_DEF = ForAll([wsv, mv, x], Select(PSet(wsv, mv), x) == Exists([j1], And(0 <= j1, j1 < mv, wsv[j1] == x)))
PSET_ZERO = ForAll([wsv], PSet(wsv, 0) == K(St.sort(), False))
PSET_STEP = ForAll([wsv, mv, mv2], Implies(And(0 <= mv, mv2 == mv + 1), PSet(wsv, mv2) == Store(PSet(wsv, mv), wsv[mv], True)), patterns=[MultiPattern(PSet(wsv, mv2), PSet(wsv, mv))])
PSET_LEMMAS = [('no state before the first one', [PSET_DEF], PSET_ZERO), ('one more state in the prefix', [PSET_DEF], PSET_STEP)]
def item(s_, vis): return PairSV.make(_0=Sym(St, s_), _1=Sym(SetSt, vis)).term
def pending(ws, tp): return Exists([m_], And(0 <= m_, m_ <= Length(ws) - 1, tp[item(ws[m_], PSet(ws, m_))] > 0))
def hold(e, notyet):
    ws, cur = e.ws.term, e.current.term
    # bound variable = the position of the *next* state of the walk (PrefixSet(ws, k) and ws[k] are clean triggers; an argument written k + 1 is not)
    return Exists([m_], And(1 <= m_, m_ <= Length(ws) - 1, cur == ws[m_ - 1], e.visited.term == PSet(ws, m_), notyet(ws[m_])), patterns=[PSet(ws, m_)])
def acy2(level):
    def inv(e, done):
        A, ws, cur = e.self, e.ws.term, e.current.term
        if level == '1.0': ny = lambda nxt: Exists([a], And(A.T[cur, a, nxt], Or(a == EPS, Not(done[a]))))
        elif level == '1.0.0': ny = lambda nxt: Exists([a], And(A.T[cur, a, nxt], Or(a == EPS, And(Not(e.get('$done1.0')[a]), Or(a != e.symbol.term, Not(done[nxt]))))))
        else: ny = lambda nxt: And(A.T[cur, EPS, nxt], Not(done[nxt]))
        return And(ForAll([q, vis_], e.to_process[item(q, vis_)] >= 0), Or(pending(ws, e.to_process), hold(e, ny)))
    return inv
W.contract(Contract('ENFA.is_acyclic#exhaustive', [('self', ENFA), ('ws', SeqSt_)], ret=TBool, requires=lambda o: And(WF(o.self), lasso(o.self, o.ws.term)),
    ensures=lambda o, r, n: Not(r.term), dead_returns=(True,),
    locals={'to_process': BagSV},
    loop_post={'1.0.0': lambda e: [ForAll([q], Implies(e.self.T[e.current.term, e.symbol.term, q], Select(CallF(e.self.T.term, e.current.term, e.symbol.term), q))),
                                   Or(pending(e.ws.term, e.to_process),
                                      hold(e, lambda nxt: Exists([a], And(e.self.T[e.current.term, a, nxt], Or(a == EPS, And(Not(e.get('$done1.0')[a]), a != e.symbol.term))))))]},
    entry_lemmas=lambda o: PSET_LEMMAS + [('the closing state of the walk is in the prefix before it', [PSET_DEF], Select(PSet(o.ws.term, Length(o.ws.term) - 1), o.ws.term[Length(o.ws.term) - 1])),
                                          ('the states of the walk before the last one are pairwise different', [PSET_DEF], ForAll([m_], Implies(And(0 <= m_, m_ < Length(o.ws.term) - 1), Not(Select(PSet(o.ws.term, m_), o.ws.term[m_])))))],
    at={'if current in visited': {'lemmas': lambda e: [Or(pending(e.ws.term, e.to_process),
                                                          Exists([m_], And(0 <= m_, m_ <= Length(e.ws.term) - 1, e.current.term == e.ws.term[m_], e.visited.term == PSet(e.ws.term, m_))))]},
        'visited.add(current)': {'lemmas': lambda e: [Or(pending(e.ws.term, e.to_process),
                                                         Exists([m_], And(0 <= m_, m_ < Length(e.ws.term) - 1, e.current.term == e.ws.term[m_], e.visited.term == PSet(e.ws.term, m_))))]},
        'for symbol in self._input_symbols': {'lemmas': lambda e: [Or(pending(e.ws.term, e.to_process),
                                                                      hold(e, lambda nxt: Exists([a], e.self.T[e.current.term, a, nxt])))]}},
    loops={'0': lambda e, done: And(ForAll([q, vis_], e.to_process[item(q, vis_)] >= 0), Implies(done[e.ws.term[0]], pending(e.ws.term, e.to_process))),
           '1': lambda e, done: And(ForAll([q, vis_], e.to_process[item(q, vis_)] >= 0), pending(e.ws.term, e.to_process)),
           '1.0': acy2('1.0'), '1.0.0': acy2('1.0.0'), '1.1': acy2('1.1')}))

# ------------------------------------------------------------------ operator forms: one-line delegations with the postcondition (and ghosts) of the method they call
def delegate(alias, to, **kw):
    c = W.contracts[to]
    m = to.split('.')[-1]
    W.contract(Contract(alias, c.params, ret=c.ret, fresh_result=c.fresh_result, requires=c.requires, ensures=c.ensures, ghosts=dict(c.ghosts),
                        ghost_witness=(lambda o, e, m=m, c=c: {k: e.get(f'$ghost.{m}.{k}') for k in c.ghosts}) if c.ghosts else None, **kw))
delegate('ENFA.__neg__', 'ENFA.get_complement'); delegate('ENFA.__and__', 'ENFA.get_intersection'); delegate('ENFA.__sub__', 'ENFA.get_difference')
delegate('ENFA.__invert__', 'ENFA.reverse'); delegate('ENFA.__copy__', 'ENFA.copy')
W.contract(Contract('ENFA.__bool__', [('self', ENFA)], ret=TBool, requires=lambda o: WF(o.self),          # bool(automaton): some word is accepted
    ensures=lambda o, r, n: r.term == Exists([p, f_], And(o.self.I[p], o.self.F[f_], ReachA(o.self.T.term, p, f_)))))

# ------------------------------------------------------------------ binding of contracts to the repository source
W.ground_sorts = (St.sort(), Sy.sort())
W.special = {'EPS': EPS, 'NONE_ST': NONE_ST, 'TRASH': TRASH}
_P = 'pyformlang/finite_automaton/epsilon_nfa.py'
TARGETS = {k: (_P, 'EpsilonNFA.' + k.split('.', 1)[1]) for k in
           ['ENFA._get_next_states_iterable', 'ENFA.eclose', 'ENFA.eclose_iterable', 'ENFA.accepts', 'ENFA.is_empty',
            'ENFA.reverse', 'ENFA._to_deterministic_internal', 'ENFA.remove_epsilon_transitions', 'ENFA.get_intersection',
            'ENFA.copy', 'ENFA.get_complement', 'ENFA.is_deterministic', 'ENFA.get_difference', 'ENFA.to_deterministic']}
_PD = 'pyformlang/finite_automaton/deterministic_finite_automaton.py'
_PN = 'pyformlang/finite_automaton/nondeterministic_finite_automaton.py'
_PF = 'pyformlang/finite_automaton/finite_automaton.py'
TARGETS.update({f'ENFA.{m}': (_PF, f'FiniteAutomaton.{m}') for m in
                ['add_transition', 'remove_transition', 'add_start_state', 'remove_start_state', 'add_final_state', 'remove_final_state',
                 '__call__', 'is_final_state', 'add_symbol']})
TARGETS.update({'DFA.add_start_state': (_PD, 'DeterministicFiniteAutomaton.add_start_state'),
                'DFA.remove_start_state': (_PD, 'DeterministicFiniteAutomaton.remove_start_state'),
                'NFA.add_transition': (_PN, 'NondeterministicFiniteAutomaton.add_transition')})
W.super_of = {'NFA': ENFA, 'DFA': NFA}
TARGETS.update({'NFA.accepts': (_PN, 'NondeterministicFiniteAutomaton.accepts'), 'NFA.is_deterministic': (_PN, 'NondeterministicFiniteAutomaton.is_deterministic'),
                'DFA.accepts': (_PD, 'DeterministicFiniteAutomaton.accepts'), 'DFA.is_deterministic': (_PD, 'DeterministicFiniteAutomaton.is_deterministic')})
TARGETS.update({f'ENFA.{m}': (_PF, f'FiniteAutomaton.{m}') for m in ['_get_next_states_from', '_get_reachable_states', '_get_states_leading_to_final']})
TARGETS.update({'ENFA.to_fst': (_PF, 'FiniteAutomaton.to_fst')})
TARGETS.update({'ENFA.is_acyclic#exhaustive': (_PF, 'FiniteAutomaton.is_acyclic'), 'ENFA.is_acyclic': (_PF, 'FiniteAutomaton.is_acyclic'), 'ENFA.add_transitions': (_PF, 'FiniteAutomaton.add_transitions')})
TARGETS.update({f'ENFA.{m}': (_P, f'EpsilonNFA.{m}') for m in ['__neg__', '__and__', '__sub__', '__invert__', '__copy__', '__bool__']})
TARGETS.update({'DFA.copy': (_PD, 'DeterministicFiniteAutomaton.copy'), 'DFA.to_deterministic': (_PD, 'DeterministicFiniteAutomaton.to_deterministic'),
                'NFA.to_deterministic': (_PN, 'NondeterministicFiniteAutomaton.to_deterministic')})

# contracts of this world that are verified from their own source in another module
VERIFIED_ELSEWHERE = {'Namer.get_merged': 'contracts.fa_namer (StateNamer._get)', 'Namer.get_pair': 'contracts.fa_namer (StateNamer._get)'}

# ------------------------------------------------------------------ engine self-test (thorough tier): edits that must / must not break a proof
_E = 'pyformlang/finite_automaton/epsilon_nfa.py'; _FA = 'pyformlang/finite_automaton/finite_automaton.py'
SMOKE = [
    ('ENFA.is_acyclic#exhaustive', _FA, "            for state in self(current, Epsilon()):\n                to_process.append((state, visited.copy()))\n        return True", "        return True", 'break'),
    ('ENFA.is_acyclic#exhaustive', _FA, "                    to_process.append((state, visited.copy()))\n            # Epsilon", "                    to_process.append((state, set()))\n            # Epsilon", 'break'),
    ('ENFA.is_acyclic#exhaustive', _FA, "            visited.add(current)\n", "", 'break'),
    ('ENFA.is_acyclic', _FA, "            if current in visited:\n                return False", "            if current not in visited:\n                return False", 'break'),
    ('ENFA.is_acyclic', _FA, "                    to_process.append((state, visited.copy()))\n            # Epsilon", "                    to_process.append((state, visited))\n            # Epsilon", 'break'),
    ('ENFA.eclose', _E, "                    to_process.append(conn_state)", "                    pass", 'break'),
    ('ENFA.is_empty', _E, "            for state in self._transition_function(current, Epsilon()):\n                if state not in processed:\n                    to_process.append(state)\n                    processed.add(state)\n        return True", "        return True", 'break'),
    ('ENFA.get_complement', _E, "            if state in finals:\n                enfa.remove_final_state(state)", "            if state not in finals:\n                enfa.remove_final_state(state)", 'break'),
    ('ENFA.get_complement', _E, "        enfa.add_final_state(trash)\n        for state in states:", "        for state in states:", 'break'),
    ('ENFA.reverse', _E, "            enfa.add_final_state(start)", "            enfa.add_start_state(start)", 'break'),
    ('ENFA.remove_epsilon_transitions', _E, "                for symb in self._input_symbols:\n                    for next_state in self._transition_function(e_state, symb):", "                for symb in self._input_symbols:\n                    for next_state in self._transition_function(state, symb):", 'break'),
    ('ENFA._to_deterministic_internal', _E, "                if state in self._final_states:\n                    dfa.add_final_state(s_from)", "                if state not in self._final_states:\n                    dfa.add_final_state(s_from)", 'break'),
    ('ENFA.get_intersection', _E, "        for st0 in self.final_states:\n            for st1 in other.final_states:", "        for st0 in self.final_states:\n            for st1 in other.states:", 'break'),
    ('ENFA.add_transition', _FA, "        self._states.add(s_to)\n", "", 'break'),
    ('ENFA._get_states_leading_to_final', _FA, "                    states_to_process.append(previous_state)", "                    pass", 'break'),
    ('ENFA.eclose', _E, "                    processed.add(conn_state)\n                    to_process.append(conn_state)", "                    to_process.append(conn_state)\n                    processed.add(conn_state)", 'benign'),
    ('ENFA.eclose', _E, "            connected = self._transition_function(current, Epsilon())\n            for conn_state in connected:", "            neighbours = self._transition_function(current, Epsilon())\n            for conn_state in neighbours:", 'benign'),
]
