"""pyformlang.fst: the transducer object against its abstract view, the state renaming, and the structure of union / concatenate /
kleene_star / to_fst (C16).  The relation algebra on top of the proved structure (union, product and star of rational relations:
Berstel, Transductions and Context-Free Languages, III) is assumed, backed by the bounded relation comparison.

View of an FST object: Q = _states, I = _start_states, F = _final_states, and
    D(p, a, q, out)  <=>  (p, a) in _delta  and  (q, out) occurs in the list _delta[(p, a)]
(a set: how often a transition is listed does not change the relation).
"""
import ast
from z3 import *
from pyvc.vtypes import *
from pyvc.vtypes import register_tuple, TURec
from pyvc.engine import World, Contract, NS, Unsupported

W = World()
FS, FSy = TVal('FS'), TVal('FSy')                  # states and symbols are raw Python values in this module
SetFS, SetSy, SeqSy = TSet(FS), TSet(FSy), TSeq(FSy)
Head = TTuple(FS, FSy)
Out = TURec('tuple[FS,seq[FSy]]', [('_0', FS), ('_1', SeqSy)]); register_tuple(Out)
W.axioms += Out.axioms()
Delta = TMap(Head, TBag(Out))
FST = TRec('FST', [('_states', SetFS), ('_input_symbols', SetSy), ('_output_symbols', SetSy), ('_delta', Delta), ('_start_states', SetFS), ('_final_states', SetFS)])
for py, f in [('states', '_states'), ('start_states', '_start_states'), ('final_states', '_final_states'), ('transitions', '_delta'),
              ('input_symbols', '_input_symbols'), ('output_symbols', '_output_symbols')]:
    W.fields[('FST', py)] = f
W.consts['None'] = NONE_SYM
EPS = Const('FEPS', FSy.sort()); W.consts['str:epsilon'] = Sym(FSy, EPS)
p, q, s_, t_ = Consts('p q s_ t_', FS.sort()); a, b = Consts('a b', FSy.sort()); o = Const('o', SeqSy.sort()); i_ = Const('i_', IntSort())
def head(p_, a_): return Head.make(_0=Sym(FS, p_), _1=Sym(FSy, a_)).term
def out(q_, o_): return Out.make(_0=Sym(FS, q_), _1=Sym(SeqSy, o_)).term
def D(f):
    m = f._delta
    def rel(p_, a_, q_, o_):
        return And(Select(Delta.get(m, 'dom').term, head(p_, a_)), Select(Select(Delta.get(m, 'val').term, head(p_, a_)), out(q_, o_)) > 0)
    return rel
def cnt(f, p_, a_, q_, o_): return Select(Select(Delta.get(f._delta, 'val').term, head(p_, a_)), out(q_, o_))      # the list entry counted (trigger term)
def wf_delta(f):
    m = f._delta; h = Const('wf_h', Head.sort()); x = Const('wf_x', Out.sort())
    return ForAll([h, x], Implies(Select(Delta.get(m, 'dom').term, h), Select(Select(Delta.get(m, 'val').term, h), x) >= 0))
def new_fst(eng, e, st):
    if e.args or e.keywords: raise Unsupported('FST(...) with arguments')
    return FST.make(_states=SetFS.empty(), _input_symbols=SetSy.empty(), _output_symbols=SetSy.empty(),
                    _delta=Delta.make(dom=TSet(Head).empty(), val=Delta.ftype('val').fresh('emptydelta')), _start_states=SetFS.empty(), _final_states=SetFS.empty())
W.ctors['FST'] = new_fst

# ------------------------------------------------------------------ mutators of the transducer object
def same_but(n, o_, *changed):
    return And([FST.get(n, f) == FST.get(o_, f) for f, _ in FST.fields if f not in changed])
def occurs(sq, x_): k = Const('oc_k', IntSort()); return Exists([k], And(0 <= k, k < Length(sq), sq[k] == x_))
W.contract(Contract('FST.add_transition', [('self', FST), ('s_from', FS), ('input_symbol', FSy), ('s_to', FS), ('output_symbols', SeqSy)], ret=TNone, modifies=('self',),
    requires=lambda o_: wf_delta(o_.self),
    ensures=lambda o_, r, n: And(wf_delta(n.self),
        ForAll([p, a, q, o], Implies(D(n.self)(p, a, q, o), Or(D(o_.self)(p, a, q, o), And(p == o_.s_from.term, a == o_.input_symbol.term, q == o_.s_to.term, o == o_.output_symbols.term))), patterns=[cnt(n.self, p, a, q, o)]),
        ForAll([p, a, q, o], Implies(D(o_.self)(p, a, q, o), D(n.self)(p, a, q, o)), patterns=[cnt(o_.self, p, a, q, o)]),
        D(n.self)(o_.s_from.term, o_.input_symbol.term, o_.s_to.term, o_.output_symbols.term),
        n.self._states == Store(Store(o_.self._states.term, o_.s_from.term, True), o_.s_to.term, True),
        n.self._input_symbols == If(o_.input_symbol.term == EPS, o_.self._input_symbols.term, Store(o_.self._input_symbols.term, o_.input_symbol.term, True)),
        ForAll([b], n.self._output_symbols[b] == Or(o_.self._output_symbols[b], And(b != EPS, occurs(o_.output_symbols.term, b)))),
        same_but(n.self, o_.self, '_delta', '_states', '_input_symbols', '_output_symbols')),
    loops={'0': lambda e, k: And(ForAll([b], e.self._output_symbols[b] == Or(e.get('$old.self')._output_symbols[b],
                                                   And(b != EPS, Exists([i_], And(0 <= i_, i_ < k.term, e.output_symbols.term[i_] == b))))),
                                 e.self._states == Store(Store(e.get('$old.self')._states.term, e.s_from.term, True), e.s_to.term, True),
                                 e.self._input_symbols == If(e.input_symbol.term == EPS, e.get('$old.self')._input_symbols.term, Store(e.get('$old.self')._input_symbols.term, e.input_symbol.term, True)),
                                 same_but(e.self, e.get('$old.self'), '_states', '_input_symbols', '_output_symbols'))}))
W.contract(Contract('FST.add_start_state', [('self', FST), ('start_state', FS)], ret=TNone, modifies=('self',),
    ensures=lambda o_, r, n: And(n.self._states == Store(o_.self._states.term, o_.start_state.term, True), n.self._start_states == Store(o_.self._start_states.term, o_.start_state.term, True),
                                 same_but(n.self, o_.self, '_states', '_start_states'))))
W.contract(Contract('FST.add_final_state', [('self', FST), ('final_state', FS)], ret=TNone, modifies=('self',),
    ensures=lambda o_, r, n: And(n.self._states == Store(o_.self._states.term, o_.final_state.term, True), n.self._final_states == Store(o_.self._final_states.term, o_.final_state.term, True),
                                 same_but(n.self, o_.self, '_states', '_final_states'))))

# ------------------------------------------------------------------ FSTStateRemaining: an injective renaming of (state, operand index)
Key = TTuple(FS, TInt)
RenMap = TMap(Key, FS)
REN = TRec('Renaming', [('_state_renaming', RenMap), ('_seen_states', SetFS)])
k1, k2 = Consts('k1 k2', Key.sort())
def key(s__, i__): return Key.make(_0=Sym(FS, s__), _1=Sym(TInt, i__)).term
def rdom(r): return RenMap.get(r._state_renaming, 'dom')
def rval(r): return RenMap.get(r._state_renaming, 'val')
def RInv(r):
    return And(ForAll([k1, k2], Implies(And(rdom(r)[k1], rdom(r)[k2], rval(r)[k1] == rval(r)[k2]), k1 == k2)),          # no two keys share a name
               ForAll([k1], Implies(rdom(r)[k1], r._seen_states[rval(r)[k1]])))                                        # every name given is recorded as seen
catn = Function('catn', FS.sort(), IntSort(), FS.sort())            # state + str(counter)
def binop_hook(eng, e, st):
    if isinstance(e.op, ast.Add) and isinstance(e.right, ast.Call) and getattr(e.right.func, 'id', None) == 'str' and len(e.right.args) == 1:
        l = eng.ev(e.left, st); r = eng.ev(e.right.args[0], st)
        if l.t == FS and r.t is TInt: return Sym(FS, catn(l.term, r.term))
    return None
W.binop_hook = binop_hook
W.ctors['FSTStateRemaining'] = lambda eng, e, st: REN.make(_state_renaming=RenMap.make(dom=TSet(Key).empty(), val=RenMap.ftype('val').fresh('emptyren')), _seen_states=SetFS.empty())
def add_state_post(o_, r, n):
    A, B = o_.self, n.self; kk = key(o_.state.term, o_.idx.term)
    return And(RInv(B), rdom(B) == Store(rdom(A).term, kk, True),
               ForAll([k1], Implies(And(rdom(A)[k1], k1 != kk), rval(B)[k1] == rval(A)[k1])),
               ForAll([s_], Implies(A._seen_states[s_], B._seen_states[s_])))
W.contract(Contract('Renaming.add_state', [('self', REN), ('state', FS), ('idx', TInt)], ret=TNone, modifies=('self',),
    requires=lambda o_: And(RInv(o_.self), Not(rdom(o_.self)[key(o_.state.term, o_.idx.term)])), ensures=add_state_post,
    loops={'0': lambda e, done: And(e.self == e.get('$old.self'))}))
W.contract(Contract('Renaming.get_name', [('self', REN), ('state', FS), ('idx', TInt)], ret=FS,
    requires=lambda o_: rdom(o_.self)[key(o_.state.term, o_.idx.term)],
    pure=lambda o_: Sym(FS, Select(rval(o_.self).term, key(o_.state.term, o_.idx.term)))))
def add_states_post(o_, r, n):
    A, B = o_.self, n.self
    return And(RInv(B), ForAll([k1], rdom(B)[k1] == Or(rdom(A)[k1], And(o_.states[Key.get(Sym(Key, k1), '_0').term], Key.get(Sym(Key, k1), '_1').term == o_.idx.term))),
               ForAll([k1], Implies(rdom(A)[k1], rval(B)[k1] == rval(A)[k1])), ForAll([s_], Implies(A._seen_states[s_], B._seen_states[s_])))
W.contract(Contract('Renaming.add_states', [('self', REN), ('states', SetFS), ('idx', TInt)], ret=TNone, modifies=('self',),
    requires=lambda o_: And(RInv(o_.self), ForAll([s_], Not(rdom(o_.self)[key(s_, o_.idx.term)]))), ensures=add_states_post,
    loops={'0': lambda e, done: add_states_post(NS({'self': e.get('$old.self'), 'states': done, 'idx': e.idx}), None, NS({'self': e.self}))}))

# ------------------------------------------------------------------ copying an operand into the result under the renaming
def rn(R, s__, i__): return Select(rval(R).term, key(s__, i__))
def covers(R, f, idx): return ForAll([s_], Implies(f._states[s_], rdom(R)[key(s_, idx.term)]), patterns=[f._states[s_]])
def WFF(f): return And(wf_delta(f), ForAll([p, a, q, o], Implies(D(f)(p, a, q, o), And(f._states[p], f._states[q])), patterns=[cnt(f, p, a, q, o)]),
                       ForAll([s_], Implies(f._start_states[s_], f._states[s_])), ForAll([s_], Implies(f._final_states[s_], f._states[s_])))
def copied_D(o_, n, cov):
    """transitions of the result = those it had + the renamed copies of the operand's transitions (as far as `cov`); three implications with triggers"""
    A, R, i = o_.self, o_.state_renaming, o_.idx.term; U0, U = o_.union_fst, n.union_fst
    return And(ForAll([s_, a, t_, o], Implies(D(U)(s_, a, t_, o), Or(D(U0)(s_, a, t_, o),
                      Exists([p, q], And(D(A)(p, a, q, o), cov(p, a, q, o), s_ == rn(R, p, i), t_ == rn(R, q, i))))), patterns=[cnt(U, s_, a, t_, o)]),
               ForAll([s_, a, t_, o], Implies(D(U0)(s_, a, t_, o), D(U)(s_, a, t_, o)), patterns=[cnt(U0, s_, a, t_, o)]),
               ForAll([p, a, q, o], Implies(And(D(A)(p, a, q, o), cov(p, a, q, o)), D(U)(rn(R, p, i), a, rn(R, q, i), o)), patterns=[cnt(A, p, a, q, o)]))
CP = [('self', FST), ('union_fst', FST), ('state_renaming', REN), ('idx', TInt)]
def cp_req(o_): return And(WFF(o_.self), wf_delta(o_.union_fst), covers(o_.state_renaming, o_.self, o_.idx))
T_ = lambda *x: BoolVal(True)
W.contract(Contract('FST._add_transitions_to', CP, ret=TNone, modifies=('union_fst',), requires=cp_req,
    ensures=lambda o_, r, n: And(wf_delta(n.union_fst), copied_D(o_, n, T_), n.union_fst._start_states == o_.union_fst._start_states, n.union_fst._final_states == o_.union_fst._final_states),
    loops={'0': lambda e, done: And(wf_delta(e.union_fst), e.union_fst._start_states == e.get('$old.union_fst')._start_states, e.union_fst._final_states == e.get('$old.union_fst')._final_states,
                                    copied_D(NS({'self': e.self, 'state_renaming': e.state_renaming, 'idx': e.idx, 'union_fst': e.get('$old.union_fst')}), NS({'union_fst': e.union_fst}),
                                             lambda pp, aa, qq, oo: done[head(pp, aa)])),
           '0.0': lambda e, done: And(wf_delta(e.union_fst), e.union_fst._start_states == e.get('$old.union_fst')._start_states, e.union_fst._final_states == e.get('$old.union_fst')._final_states,
                                      e.head == head(e.s_from.term, e.input_symbol.term),
                                      copied_D(NS({'self': e.self, 'state_renaming': e.state_renaming, 'idx': e.idx, 'union_fst': e.get('$old.union_fst')}), NS({'union_fst': e.union_fst}),
                                               lambda pp, aa, qq, oo: Or(e.get('$done0')[head(pp, aa)], And(head(pp, aa) == e.head.term, done[out(qq, oo)] > 0))))}))
def ext_post(field, arg):
    def post(o_, r, n):
        A, R, i = o_.self, o_.state_renaming, o_.idx.term
        return And(ForAll([s_], FST.get(n.union_fst, field)[s_] == Or(FST.get(o_.union_fst, field)[s_], Exists([p], And(FST.get(A, field)[p], s_ == rn(R, p, i))))),
                   n.union_fst._delta == o_.union_fst._delta, same_but(n.union_fst, o_.union_fst, field, '_states'))
    return post
def ext_inv(field):
    def inv(e, done):
        A, R, i = e.self, e.state_renaming, e.idx.term; U0, U = e.get('$old.union_fst'), e.union_fst
        return And(ForAll([s_], FST.get(U, field)[s_] == Or(FST.get(U0, field)[s_], Exists([p], And(done[p], s_ == rn(R, p, i))))), U._delta == U0._delta, same_but(U, U0, field, '_states'))
    return inv
W.contract(Contract('FST._add_start_states_to', CP, ret=TNone, modifies=('union_fst',), requires=cp_req, ensures=ext_post('_start_states', 'start_state'), loops={'0': ext_inv('_start_states')}))
W.contract(Contract('FST._add_final_states_to', CP, ret=TNone, modifies=('union_fst',), requires=cp_req, ensures=ext_post('_final_states', 'final_state'), loops={'0': ext_inv('_final_states')}))

# ------------------------------------------------------------------ union / concatenate / kleene_star: exact structure under an injective renaming
W.list_of_set_is_the_set = True
def starts_finals(U, U0, A, R, i, which):
    return [ForAll([s_], FST.get(U, f)[s_] == Or(FST.get(U0, f)[s_], Exists([p], And(FST.get(A, f)[p], s_ == rn(R, p, i))))) for f in which]
def copy_post(o_, r, n):
    A, R, i, U0, U = o_.self, o_.state_renaming, o_.idx.term, o_.union_fst, n.union_fst
    return And([wf_delta(U), copied_D(o_, n, T_)] + starts_finals(U, U0, A, R, i, ('_start_states', '_final_states')))
W.contract(Contract('FST._add_extremity_states_to', CP, ret=TNone, modifies=('union_fst',), requires=cp_req,
    ensures=lambda o_, r, n: And(starts_finals(n.union_fst, o_.union_fst, o_.self, o_.state_renaming, o_.idx.term, ('_start_states', '_final_states')) + [n.union_fst._delta == o_.union_fst._delta])))
W.contract(Contract('FST._copy_into', CP, ret=TNone, modifies=('union_fst',), requires=cp_req, ensures=copy_post))
def ren_of(R, A, B):
    return And(RInv(R), ForAll([k1], rdom(R)[k1] == Or(And(A._states[Key.get(Sym(Key, k1), '_0').term], Key.get(Sym(Key, k1), '_1').term == 0),
                                                          And(B._states[Key.get(Sym(Key, k1), '_0').term], Key.get(Sym(Key, k1), '_1').term == 1))))
W.contract(Contract('FST._get_state_renaming', [('self', FST), ('other_fst', FST)], ret=REN, fresh_result=True, ensures=lambda o_, r, n: ren_of(r, o_.self, o_.other_fst)))
EMPTY_FST = lambda: NS({'union_fst': FST.make(_states=SetFS.empty(), _input_symbols=SetSy.empty(), _output_symbols=SetSy.empty(),
                                              _delta=Delta.make(dom=TSet(Head).empty(), val=Delta.ftype('val').fresh('e')), _start_states=SetFS.empty(), _final_states=SetFS.empty())})
def union_post(o_, r, n, g):
    A, B, R = o_.self, o_.other_fst, g.R
    copyA = lambda s__, a_, t__, oo: Exists([p, q], And(D(A)(p, a_, q, oo), s__ == rn(R, p, 0), t__ == rn(R, q, 0)))
    copyB = lambda s__, a_, t__, oo: Exists([p, q], And(D(B)(p, a_, q, oo), s__ == rn(R, p, 1), t__ == rn(R, q, 1)))
    return And(ren_of(R, A, B),
               ForAll([s_, a, t_, o], Implies(D(r)(s_, a, t_, o), Or(copyA(s_, a, t_, o), copyB(s_, a, t_, o))), patterns=[cnt(r, s_, a, t_, o)]),
               ForAll([p, a, q, o], Implies(D(A)(p, a, q, o), D(r)(rn(R, p, 0), a, rn(R, q, 0), o)), patterns=[cnt(A, p, a, q, o)]),
               ForAll([p, a, q, o], Implies(D(B)(p, a, q, o), D(r)(rn(R, p, 1), a, rn(R, q, 1), o)), patterns=[cnt(B, p, a, q, o)]),
               ForAll([s_], r._start_states[s_] == Or(Exists([p], And(A._start_states[p], s_ == rn(R, p, 0))), Exists([p], And(B._start_states[p], s_ == rn(R, p, 1))))),
               ForAll([s_], r._final_states[s_] == Or(Exists([p], And(A._final_states[p], s_ == rn(R, p, 0))), Exists([p], And(B._final_states[p], s_ == rn(R, p, 1))))))
W.contract(Contract('FST.union', [('self', FST), ('other_fst', FST)], ret=FST, fresh_result=True, requires=lambda o_: And(WFF(o_.self), WFF(o_.other_fst)),
    ensures=union_post, ghosts={'R': REN}, ghost_witness=lambda o_, e: {'R': e.state_renaming}))
def concat_post(o_, r, n, g):
    A, B, R = o_.self, o_.other_fst, g.R
    copyA = lambda s__, a_, t__, oo: Exists([p, q], And(D(A)(p, a_, q, oo), s__ == rn(R, p, 0), t__ == rn(R, q, 0)))
    copyB = lambda s__, a_, t__, oo: Exists([p, q], And(D(B)(p, a_, q, oo), s__ == rn(R, p, 1), t__ == rn(R, q, 1)))
    bridge = lambda s__, a_, t__, oo: Exists([p, q], And(A._final_states[p], B._start_states[q], s__ == rn(R, p, 0), t__ == rn(R, q, 1), a_ == EPS, oo == Empty(SeqSy.sort())))
    return And(ren_of(R, A, B),
               ForAll([s_, a, t_, o], Implies(D(r)(s_, a, t_, o), Or(copyA(s_, a, t_, o), copyB(s_, a, t_, o), bridge(s_, a, t_, o))), patterns=[cnt(r, s_, a, t_, o)]),
               ForAll([p, a, q, o], Implies(D(A)(p, a, q, o), D(r)(rn(R, p, 0), a, rn(R, q, 0), o)), patterns=[cnt(A, p, a, q, o)]),
               ForAll([p, a, q, o], Implies(D(B)(p, a, q, o), D(r)(rn(R, p, 1), a, rn(R, q, 1), o)), patterns=[cnt(B, p, a, q, o)]),
               ForAll([p, q], Implies(And(A._final_states[p], B._start_states[q]), D(r)(rn(R, p, 0), EPS, rn(R, q, 1), Empty(SeqSy.sort()))), patterns=[MultiPattern(A._final_states[p], B._start_states[q])]),
               ForAll([s_], r._start_states[s_] == Exists([p], And(A._start_states[p], s_ == rn(R, p, 0)))),
               ForAll([s_], r._final_states[s_] == Exists([p], And(B._final_states[p], s_ == rn(R, p, 1)))))
def cc_inv(level):
    def inv(e, done):
        A, B, R, U = e.self, e.other_fst, e.state_renaming, e.fst_concatenate
        covb = (lambda pp, qq: done[pp]) if level == '0' else (lambda pp, qq: Or(e.get('$done0')[pp], And(pp == e.final_state.term, done[qq])))
        copyA = lambda s__, a_, t__, oo: Exists([p, q], And(D(A)(p, a_, q, oo), s__ == rn(R, p, 0), t__ == rn(R, q, 0)))
        copyB = lambda s__, a_, t__, oo: Exists([p, q], And(D(B)(p, a_, q, oo), s__ == rn(R, p, 1), t__ == rn(R, q, 1)))
        bridge = lambda s__, a_, t__, oo: Exists([p, q], And(A._final_states[p], B._start_states[q], covb(p, q), s__ == rn(R, p, 0), t__ == rn(R, q, 1), a_ == EPS, oo == Empty(SeqSy.sort())))
        return And(ren_of(R, A, B), wf_delta(U),
               ForAll([s_, a, t_, o], Implies(D(U)(s_, a, t_, o), Or(copyA(s_, a, t_, o), copyB(s_, a, t_, o), bridge(s_, a, t_, o))), patterns=[cnt(U, s_, a, t_, o)]),
               ForAll([p, a, q, o], Implies(D(A)(p, a, q, o), D(U)(rn(R, p, 0), a, rn(R, q, 0), o)), patterns=[cnt(A, p, a, q, o)]),
               ForAll([p, a, q, o], Implies(D(B)(p, a, q, o), D(U)(rn(R, p, 1), a, rn(R, q, 1), o)), patterns=[cnt(B, p, a, q, o)]),
               ForAll([p, q], Implies(And(A._final_states[p], B._start_states[q], covb(p, q)), D(U)(rn(R, p, 0), EPS, rn(R, q, 1), Empty(SeqSy.sort()))), patterns=[MultiPattern(A._final_states[p], B._start_states[q])]),
               ForAll([s_], U._start_states[s_] == Exists([p], And(A._start_states[p], s_ == rn(R, p, 0)))),
               ForAll([s_], U._final_states[s_] == Exists([p], And(B._final_states[p], s_ == rn(R, p, 1)))))
    return inv
W.contract(Contract('FST.concatenate', [('self', FST), ('other_fst', FST)], ret=FST, fresh_result=True, requires=lambda o_: And(WFF(o_.self), WFF(o_.other_fst)),
    ensures=concat_post, ghosts={'R': REN}, ghost_witness=lambda o_, e: {'R': e.state_renaming}, loops={'0': cc_inv('0'), '0.0': cc_inv('0.0')}))

# ------------------------------------------------------------------ kleene_star (construction after fix b5fba3c: one fresh start/final state)
STAR = Const('STR_star', FS.sort()); W.consts['str:star'] = Sym(FS, STAR)
EMPo = Empty(SeqSy.sort())
def star_struct(U, A, R, star, cov_s, cov_f):
    copyA = lambda s__, a_, t__, oo: Exists([p, q], And(D(A)(p, a_, q, oo), s__ == rn(R, p, 0), t__ == rn(R, q, 0)))
    enter = lambda s__, a_, t__, oo: Exists([p], And(A._start_states[p], cov_s(p), s__ == star, t__ == rn(R, p, 0), a_ == EPS, oo == EMPo))
    leave = lambda s__, a_, t__, oo: Exists([p], And(A._final_states[p], cov_f(p), s__ == rn(R, p, 0), t__ == star, a_ == EPS, oo == EMPo))
    return And(ForAll([s_, a, t_, o], Implies(D(U)(s_, a, t_, o), Or(copyA(s_, a, t_, o), enter(s_, a, t_, o), leave(s_, a, t_, o))), patterns=[cnt(U, s_, a, t_, o)]),
               ForAll([p, a, q, o], Implies(D(A)(p, a, q, o), D(U)(rn(R, p, 0), a, rn(R, q, 0), o)), patterns=[cnt(A, p, a, q, o)]),
               ForAll([p], Implies(And(A._start_states[p], cov_s(p)), D(U)(star, EPS, rn(R, p, 0), EMPo)), patterns=[A._start_states[p]]),
               ForAll([p], Implies(And(A._final_states[p], cov_f(p)), D(U)(rn(R, p, 0), EPS, star, EMPo)), patterns=[A._final_states[p]]),
               ForAll([s_], U._start_states[s_] == (s_ == star)), ForAll([s_], U._final_states[s_] == (s_ == star)))
def star_ren(R, A):
    return And(RInv(R), ForAll([k1], rdom(R)[k1] == Or(And(A._states[Key.get(Sym(Key, k1), '_0').term], Key.get(Sym(Key, k1), '_1').term == 0), k1 == key(STAR, 1))))
def star_post(o_, r, n, g):
    A, R = o_.self, g.R; Tt = lambda *x: BoolVal(True)
    return And(star_ren(R, A), star_struct(r, A, R, rn(R, STAR, 1), Tt, Tt))
def star_inv(which):
    def inv(e, done):
        A, R, U = e.self, e.state_renaming, e.fst_star; Tt = lambda *x: BoolVal(True); Ff = lambda *x: BoolVal(False)
        cs, cf = ((lambda pp: done[pp]), Ff) if which == 's' else (Tt, (lambda pp: done[pp]))
        return And(star_ren(R, A), wf_delta(U), e.star_state == rn(R, STAR, 1), star_struct(U, A, R, e.star_state.term, cs, cf))
    return inv
W.contract(Contract('FST.kleene_star', [('self', FST)], ret=FST, fresh_result=True, requires=lambda o_: WFF(o_.self), ensures=star_post,
    ghosts={'R': REN}, ghost_witness=lambda o_, e: {'R': e.state_renaming}, loops={'0': star_inv('s'), '1': star_inv('f')}))

W.ground_sorts = (FS.sort(), FSy.sort())
W.special = {}
_P = 'pyformlang/fst/fst.py'
TARGETS = {'FST.add_transition': (_P, 'FST.add_transition'), 'FST.add_start_state': (_P, 'FST.add_start_state'), 'FST.add_final_state': (_P, 'FST.add_final_state'),
           'Renaming.add_state': (_P, 'FSTStateRemaining.add_state'), 'Renaming.get_name': (_P, 'FSTStateRemaining.get_name'), 'Renaming.add_states': (_P, 'FSTStateRemaining.add_states'),
           'FST._add_extremity_states_to': (_P, 'FST._add_extremity_states_to'), 'FST._copy_into': (_P, 'FST._copy_into'), 'FST._get_state_renaming': (_P, 'FST._get_state_renaming'),
           'FST.union': (_P, 'FST.union'), 'FST.concatenate': (_P, 'FST.concatenate'), 'FST.kleene_star': (_P, 'FST.kleene_star'),
           'FST._add_transitions_to': (_P, 'FST._add_transitions_to'), 'FST._add_start_states_to': (_P, 'FST._add_start_states_to'), 'FST._add_final_states_to': (_P, 'FST._add_final_states_to')}
