"""CFG.__init__ with its helper __initialize_production_in_cfg and cfg.utils.to_variable / to_terminal (C08-C13, C19): the constructor
satisfies the model that every other contract of the grammar world uses for `CFG(...)` (contracts/cfg.py: cfg_ctor).

Proved, for the argument shapes the library and the examples use (all four arguments - the start symbol may be None; start symbol and productions only):
the variables of the new grammar are the given ones, the start symbol, the heads and the variables of the bodies; the terminals are the
given ones and the terminals of the bodies; the start symbol and the productions are the given ones; every memo field is None.
`productions` is taken as a set, or as a list read as the set of its members (`_productions` keeps the object it is given: mutating that
object afterwards changes the grammar - an aliasing the property statement does not cover, noted).
Value level: to_variable / to_terminal of an object of the right class is that object (proved); of a raw value: Variable(raw) / Terminal(raw).
"""
import ast
from z3 import *
from pyvc.vtypes import *
from pyvc.engine import World, Contract, NS, Unsupported
import contracts.cfg as C

W = World()
Ob, SetOb, SeqOb, Prod, SetProd, BagProd = C.Ob, C.SetOb, C.SeqOb, C.Prod, C.SetProd, C.BagProd
isVar, head, body, InBody = C.isVar, C.head, C.body, C.InBody
W.axioms += Prod.axioms()
x = Const('x', Ob.sort()); pr = Const('pr', Prod.sort()); sq = Const('sq', SeqOb.sort()); k_ = Const('k_', IntSort())
INBODY_DEF = ForAll([sq, x], InBody(sq, x) == Exists([k_], And(0 <= k_, k_ < Length(sq), sq[k_] == x)))
INBODY_INTRO = ForAll([sq, k_], Implies(And(0 <= k_, k_ < Length(sq)), InBody(sq, sq[k_])))
W.axioms += [INBODY_DEF, INBODY_INTRO]
# x occurs among the first i symbols of the sequence: a named spec function with a zero / step / full lemma (each proved in isolation from the definition);
# the loop over a body is then one instantiation per iteration instead of a quantifier over positions (DESIGN A.6)
Pre = Function('InPrefix', SeqOb.sort(), IntSort(), Ob.sort(), BoolSort()); i_, j_ = Ints('i_ j_')
PRE_DEF = ForAll([sq, i_, x], Pre(sq, i_, x) == Exists([k_], And(0 <= k_, k_ < i_, sq[k_] == x)))
PRE_ZERO = ForAll([sq, x], Not(Pre(sq, 0, x)))
PRE_STEP = ForAll([sq, i_, j_, x], Implies(And(0 <= i_, i_ < Length(sq), j_ == i_ + 1), Pre(sq, j_, x) == Or(Pre(sq, i_, x), sq[i_] == x)), patterns=[MultiPattern(Pre(sq, j_, x), Pre(sq, i_, x))])
PRE_FULL = ForAll([sq, x], Pre(sq, Length(sq), x) == InBody(sq, x))
W.axioms += [PRE_ZERO, PRE_STEP, PRE_FULL]
W.derived = [('InBody introduction', [INBODY_DEF], INBODY_INTRO), ('InPrefix zero', [PRE_DEF], PRE_ZERO), ('InPrefix step', [PRE_DEF], PRE_STEP), ('InPrefix full', [PRE_DEF, INBODY_DEF], PRE_FULL)]
W.consts['None'] = NONE_SYM
NOSTART = Const('no_start_symbol', Ob.sort()); W.none_consts['Ob'] = NOSTART
W.isinstance_preds['Variable'] = lambda s: isVar(s.term)
W.isinstance_preds['Terminal'] = lambda s: Not(isVar(s.term))
# raw values and the two conversion helpers
Raw = TVal('RawSymbol'); mkVar = Function('Variable_of_raw', Raw.sort(), Ob.sort()); mkTer = Function('Terminal_of_raw', Raw.sort(), Ob.sort()); r_ = Const('r_', Raw.sort())
W.axioms += [ForAll([r_], isVar(mkVar(r_))), ForAll([r_], Not(isVar(mkTer(r_))))]
W.ctors['Variable'] = lambda eng, e, st: (lambda v: Sym(Ob, mkVar(v.term)) if v.t == Raw else (_ for _ in ()).throw(Unsupported('Variable(...) of a non-raw value')))(eng.ev(e.args[0], st))
W.ctors['Terminal'] = lambda eng, e, st: (lambda v: Sym(Ob, mkTer(v.term)) if v.t == Raw else (_ for _ in ()).throw(Unsupported('Terminal(...) of a non-raw value')))(eng.ev(e.args[0], st))
W.isinstance_preds['Variable'] = lambda s: (isVar(s.term) if s.t == Ob else BoolVal(False))
W.isinstance_preds['Terminal'] = lambda s: (Not(isVar(s.term)) if s.t == Ob else BoolVal(False))
W.contract(Contract('fn.to_variable#object', [('given', Ob)], ret=Ob, requires=lambda o: isVar(o.given.term), ensures=lambda o, r, n: r == o.given))
W.contract(Contract('fn.to_variable#raw', [('given', Raw)], ret=Ob, ensures=lambda o, r, n: r.term == mkVar(o.given.term)))
W.contract(Contract('fn.to_terminal#object', [('given', Ob)], ret=Ob, requires=lambda o: Not(isVar(o.given.term)), ensures=lambda o, r, n: r == o.given))
W.contract(Contract('fn.to_terminal#raw', [('given', Raw)], ret=Ob, ensures=lambda o, r, n: r.term == mkTer(o.given.term)))
# at the call sites of the constructor the objects are of the right class: the identity
W.contract(Contract('fn.to_variable', [('given', Ob)], ret=Ob, requires=lambda o: isVar(o.given.term), pure=lambda o: o.given))
W.contract(Contract('fn.to_terminal', [('given', Ob)], ret=Ob, requires=lambda o: Not(isVar(o.given.term)), pure=lambda o: o.given))

MEMO = ['_normal_form', '_generating_symbols', '_nullable_symbols', '_impacts', '_remaining_lists', '_added_impacts']
def mk_world_types(suffix, PT):
    G = TRec('CFGInit' + suffix, [('V', SetOb), ('Tm', SetOb), ('S', Ob), ('P', PT)] + [('none' + m, TBool) for m in MEMO])
    for py, f in [('_variables', 'V'), ('_terminals', 'Tm'), ('_start_symbol', 'S'), ('_productions', 'P')]: W.fields[(G.name, py)] = f
    for m in MEMO:
        W.fields[(G.name, m)] = (lambda m_: lambda o: (_ for _ in ()).throw(Unsupported(f'{m_} is read in the constructor')))(m)
        W.fields[(G.name, m, 'set')] = (lambda m_, G_: lambda base, val: G_.update(base, 'none' + m_, Sym(TBool, BoolVal(val.t is TNone))))(m, G)
    return G
def memP(P): return (lambda p_: Select(P.term, p_) > 0) if isinstance(P.t, TBag) else (lambda p_: Select(P.term, p_))
def model(G, V0, T0, S0, P0):
    """contracts/cfg.py cfg_ctor, word for word (S0 may be the none constant: then it is not a variable of the grammar)"""
    m = memP(P0); hasS = S0 != NOSTART
    return And(G.S == S0, G.P == P0,
               ForAll([x], G.V[x] == Or(V0(x), And(hasS, x == S0), Exists([pr], And(m(pr), Or(head(pr) == x, And(InBody(body(pr), x), isVar(x))))))),
               ForAll([x], G.Tm[x] == Or(T0(x), Exists([pr], And(m(pr), InBody(body(pr), x), Not(isVar(x)))))),
               And([G.t.get(G, 'none' + m_).term for m_ in MEMO]))
F_ = lambda x_: BoolVal(False)
TARGETS = {}
_P = 'pyformlang/cfg/cfg.py'
for suffix, PT in (('Set', SetProd), ('List', BagProd)):
    G = mk_world_types(suffix, PT)
    def helper_post(o, r, n):
        A, B, p_ = o.self, n.self, o.production.term
        return And(B.S == A.S, B.P == A.P, And([B.t.get(B, 'none' + m_) == A.t.get(A, 'none' + m_) for m_ in MEMO]),
                   ForAll([x], B.V[x] == Or(A.V[x], x == head(p_), And(InBody(body(p_), x), isVar(x)))),
                   ForAll([x], B.Tm[x] == Or(A.Tm[x], And(InBody(body(p_), x), Not(isVar(x))))))
    def helper_inv(e, i):
        A, B, b = e.get('$old.self'), e.self, body(e.production.term)
        seen = lambda xx: Pre(b, i.term, xx)
        return And(B.S == A.S, B.P == A.P, And([B.t.get(B, 'none' + m_) == A.t.get(A, 'none' + m_) for m_ in MEMO]),
                   ForAll([x], B.V[x] == Or(A.V[x], x == head(e.production.term), And(seen(x), isVar(x)))),
                   ForAll([x], B.Tm[x] == Or(A.Tm[x], And(seen(x), Not(isVar(x))))))
    W.contract(Contract(f'{G.name}.__initialize_production_in_cfg', [('self', G), ('production', Prod)], ret=TNone, modifies=('self',), ensures=helper_post, loops={'0': helper_inv}))
    TARGETS[f'{G.name}.__initialize_production_in_cfg'] = (_P, 'CFG.__initialize_production_in_cfg')
    def cover(P0, done): return (lambda p_: Select(done.term, p_) > 0) if isinstance(P0.t, TBag) else (lambda p_: Select(done.term, p_))
    def mk_inv(V0f, T0f, S0f):
        def inv(e, done):
            Gs = e.self; P0 = e.productions; m = cover(P0, done); S0 = S0f(e); hasS = S0 != NOSTART
            return And(Gs.S == S0, Gs.P == P0,
                       ForAll([x], Gs.V[x] == Or(V0f(e)(x), And(hasS, x == S0), Exists([pr], And(m(pr), Or(head(pr) == x, And(InBody(body(pr), x), isVar(x))))))),
                       ForAll([x], Gs.Tm[x] == Or(T0f(e)(x), Exists([pr], And(m(pr), InBody(body(pr), x), Not(isVar(x)))))))
        return inv
    # all four arguments
    W.contract(Contract(f'{G.name}.__init__#full', [('self', G), ('variables', SetOb), ('terminals', SetOb), ('start_symbol', Ob), ('productions', PT)], ret=TNone, modifies=('self',),
        requires=lambda o: And(ForAll([x], Implies(o.variables[x], isVar(x))), ForAll([x], Implies(o.terminals[x], Not(isVar(x)))), Or(o.start_symbol.term == NOSTART, isVar(o.start_symbol.term))),
        ensures=lambda o, r, n: model(n.self, lambda xx: o.variables[xx], lambda xx: o.terminals[xx], o.start_symbol.term, o.productions),
        loops={'0': mk_inv(lambda e: (lambda xx: e.get('$old.variables')[xx]) if False else (lambda xx: e.variables[xx]), lambda e: (lambda xx: e.terminals[xx]), lambda e: e.start_symbol.term)}))
    # start symbol and productions only
    W.contract(Contract(f'{G.name}.__init__#start+productions', [('self', G), ('variables', TNone), ('terminals', TNone), ('start_symbol', Ob), ('productions', PT)], ret=TNone, modifies=('self',),
        requires=lambda o: Or(o.start_symbol.term == NOSTART, isVar(o.start_symbol.term)),
        ensures=lambda o, r, n: model(n.self, F_, F_, o.start_symbol.term, o.productions),
        loops={'0': mk_inv(lambda e: F_, lambda e: F_, lambda e: e.start_symbol.term)}))
    TARGETS[f'{G.name}.__init__#full'] = (_P, 'CFG.__init__'); TARGETS[f'{G.name}.__init__#start+productions'] = (_P, 'CFG.__init__')
for k in ('to_variable', 'to_terminal'):
    for v in ('object', 'raw'): TARGETS[f'fn.{k}#{v}'] = ('pyformlang/cfg/utils.py', f'fn.{k}')

W.ground_sorts = ()
W.special = {}
_K = 'CFGInitSet'
SMOKE = [
    (_K + '.__initialize_production_in_cfg', _P, "            if isinstance(cfg_object, Terminal):\n                self._terminals.add(cfg_object)\n            else:\n                self._variables.add(cfg_object)", "            if isinstance(cfg_object, Terminal):\n                self._variables.add(cfg_object)\n            else:\n                self._terminals.add(cfg_object)", 'break'),
    (_K + '.__initialize_production_in_cfg', _P, "        self._variables.add(production.head)\n        for cfg_object", "        for cfg_object", 'break'),
    (_K + '.__init__#full', _P, "        if start_symbol is not None:\n            self._variables.add(start_symbol)\n", "", 'break'),
    (_K + '.__init__#start+productions', _P, "        self._normal_form = None\n", "", 'break'),
    (_K + '.__init__#full', _P, "        for production in self._productions:\n            self.__initialize_production_in_cfg(production)\n", "", 'break'),
    (_K + '.__init__#full', _P, "        self._productions = self._productions\n", "", 'benign'),
    ('CFGInitList.__init__#full', _P, "        self._terminals = terminals or set()\n", "        self._terminals = set()\n", 'break'),
    ('fn.to_variable#object', 'pyformlang/cfg/utils.py', "    if isinstance(given, Variable):\n        return given\n    return Variable(given)", "    return Variable(given)", 'break'),
]
