"""Regex.union / concatenate / kleene_star and their operator forms (C05): the combinators build exactly the corresponding expression tree.

View of a Regex object: its tree - the operator at the root (`head`) and the list of sub-expressions (`sons`).  Proved: union(other) returns a
new expression Union[self, other], concatenate(other) returns Concatenation[self, other], kleene_star() returns KleeneStar[self], whatever
the operands are (also the same object twice); the operands are not modified.  With the denotation of trees (L(Union[a, b]) = L(a) + L(b),
L(Concatenation[a, b]) = L(a) L(b), L(KleeneStar[a]) = L(a)*) this is the statement of the property for the combinators; that accepts() /
to_epsilon_nfa() / to_cfg() implement that denotation, and everything about parsing text, is covered by the bounded stand-in only.
The automaton cached on the new object starts empty (constructor) and is outside this view.
"""
from z3 import *
from pyvc.vtypes import *
from pyvc.engine import World, Contract, NS, Unsupported

W = World()
Kind = TVal('RegexNodeKind')
RT = TURec.__new__(TURec); RT.name = 'RegexTree'; RT._s = DeclareSort('RegexTree')
RT.fields = [('head', Kind), ('sons', TSeq(RT))]
RT._acc = {f: Function(f'RegexTree.{f}', RT._s, t.sort()) for f, t in RT.fields}
RT._mk = Function('RegexTree.mk', *[t.sort() for _, t in RT.fields], RT._s)
SeqR = TSeq(RT)
W.axioms += RT.axioms()
W.consts['None'] = NONE_SYM
W.seq_literals = {RT}
UNION, CONCAT, STAR, EMPTYK = [Const(n, Kind.sort()) for n in ('KIND_Union', 'KIND_Concatenation', 'KIND_KleeneStar', 'KIND_of_empty_text')]
W.axioms.append(Distinct(UNION, CONCAT, STAR))
W.ctors['Union'] = lambda eng, e, st: Sym(Kind, UNION)
W.ctors['Concatenation'] = lambda eng, e, st: Sym(Kind, CONCAT)
W.ctors['KleeneStar'] = lambda eng, e, st: Sym(Kind, STAR)
def regex_ctor(eng, e, st):
    # Regex(""): a new object; its tree is overwritten by the two assignments that follow in every caller verified here
    if len(e.args) == 1 and isinstance(e.args[0], __import__('ast').Constant) and e.args[0].value == '': return RT.fresh('new_regex')
    raise Unsupported('Regex(...) of a non-empty text')
W.ctors['Regex'] = regex_ctor
def mk(k, *sons):
    t = Unit(sons[0].term)
    for s_ in sons[1:]: t = Concat(t, Unit(s_.term))
    return RT.make(head=Sym(Kind, k), sons=Sym(SeqR, t)).term
W.contract(Contract('RegexTree.union', [('self', RT), ('other', RT)], ret=RT, ensures=lambda o, r, n: r.term == mk(UNION, o.self, o.other)))
W.contract(Contract('RegexTree.concatenate', [('self', RT), ('other', RT)], ret=RT, ensures=lambda o, r, n: r.term == mk(CONCAT, o.self, o.other)))
W.contract(Contract('RegexTree.kleene_star', [('self', RT)], ret=RT, ensures=lambda o, r, n: r.term == mk(STAR, o.self)))
W.contract(Contract('RegexTree.__or__', [('self', RT), ('other', RT)], ret=RT, ensures=lambda o, r, n: r.term == mk(UNION, o.self, o.other)))
W.contract(Contract('RegexTree.__add__', [('self', RT), ('other', RT)], ret=RT, ensures=lambda o, r, n: r.term == mk(CONCAT, o.self, o.other)))
W.ground_sorts = ()
W.special = {}
_P = 'pyformlang/regular_expression/regex.py'
TARGETS = {'RegexTree.' + k: (_P, 'Regex.' + k) for k in ('union', 'concatenate', 'kleene_star', '__or__', '__add__')}
SMOKE = [
    ('RegexTree.union', _P, "        regex.head = pyformlang.regular_expression.regex_objects.Union()\n        regex.sons = [self, other]", "        regex.head = pyformlang.regular_expression.regex_objects.Union()\n        regex.sons = [other, other]", 'break'),
    ('RegexTree.concatenate', _P, "            pyformlang.regular_expression.regex_objects.Concatenation()\n        regex.sons = [self, other]", "            pyformlang.regular_expression.regex_objects.Concatenation()\n        regex.sons = [other, self]", 'break'),
    ('RegexTree.kleene_star', _P, "        regex.head = pyformlang.regular_expression.regex_objects.KleeneStar()", "        regex.head = pyformlang.regular_expression.regex_objects.Union()", 'break'),
]
