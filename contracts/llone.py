"""pyformlang.cfg.llone_parser: the helper functions of the LL(1) construction that are within reach (C14).

_get_first_set_production(production, first_set) is FIRST of a *sequence* relative to a table of FIRST sets of symbols - the textbook
definition: the union of FIRST(X_j) over the j whose predecessors X_0 .. X_{j-1} are all nullable in the table, with epsilon kept exactly
when every X_j is nullable (and the body is not empty).  It is the function the parsing table is built from (fix 77b16c3 was in its caller).
_get_triggers(): symbol -> heads of the productions whose body contains it.
The fixpoint loops get_first_set / get_follow_set compare cardinalities (len(...) != length_before) and stay bounded-only.
"""
import ast
from z3 import *
from pyvc.vtypes import *
from pyvc.engine import World, Contract, NS, Unsupported
import contracts.cfg as C

W = World()
Ob, SetOb, SeqOb, Prod, SetProd, CFGT, BagOb = C.Ob, C.SetOb, C.SeqOb, C.Prod, C.SetProd, C.CFGT, TBag(C.Ob)
head, body, InBody = C.head, C.body, C.InBody
W.axioms += Prod.axioms()
W.consts['None'] = NONE_SYM
for key_, f_ in C.W.fields.items(): W.fields[key_] = f_
x, y = Consts('x y', Ob.sort()); j_, m_, k_ = Consts('j_ m_ k_', IntSort()); pr = Const('pr', Prod.sort()); sq = Const('sq', SeqOb.sort())
INBODY_DEF = ForAll([sq, x], InBody(sq, x) == Exists([k_], And(0 <= k_, k_ < Length(sq), sq[k_] == x)))
W.axioms.append(INBODY_DEF)
W.seq_member = lambda seqterm, xterm: InBody(seqterm, xterm)
EPSOB = Const('EPSILON_OBJECT', Ob.sort())               # Epsilon(): all epsilon objects are equal (value class)
W.ctors['Epsilon'] = lambda eng, e, st: Sym(Ob, EPSOB)
MapOS = TMap(Ob, SetOb)
def F(fs, s_): return If(Select(MapOS.get(fs, 'dom').term, s_), Select(MapOS.get(fs, 'val').term, s_), K(Ob.sort(), False))     # first_set.get(s, set())
def nullable_at(fs, b, j): return Select(F(fs, b[j]), EPSOB)
def pre(fs, b, j): return ForAll([m_], Implies(And(0 <= m_, m_ < j), nullable_at(fs, b, m_)))

def fsp_post(o, r, n):
    b = body(o.production.term); fs = o.first_set
    return ForAll([x], r[x] == And(Exists([j_], And(0 <= j_, j_ < Length(b), pre(fs, b, j_), Select(F(fs, b[j_]), x))),
                                   Or(x != EPSOB, pre(fs, b, Length(b)))))
W.contract(Contract('LLOneParser._get_first_set_production', [('production', Prod), ('first_set', MapOS)], ret=SetOb, ensures=fsp_post,
    locals={'first_set_temp': SetOb},
    loops={'0': lambda e, i: And(e.first_not_containing_epsilon.term == i.term, pre(e.first_set, body(e.production.term), i.term),
                                 ForAll([x], e.first_set_temp[x] == Exists([j_], And(0 <= j_, j_ < i.term, Select(F(e.first_set, body(e.production.term)[j_]), x)))))}))

# ------------------------------------------------------------------ _get_triggers
LLP = TRec('LLOneParser', [('_cfg', CFGT)])
MapOB = TMap(Ob, BagOb)
def tg_val(m, s_, h_): return Select(Select(MapOB.get(m, 'val').term, s_), h_)
def tg_dom(m, s_): return Select(MapOB.get(m, 'dom').term, s_)
def tg_spec(m, cov):
    """triggers[s] lists (at least once) exactly the heads h of the covered (production, position) pairs with body[position] == s"""
    return And(ForAll([x, y], Implies(tg_dom(m, x), tg_val(m, x, y) >= 0)),
               ForAll([x, y], Implies(And(tg_dom(m, x), tg_val(m, x, y) > 0), Exists([pr, k_], And(cov(pr, k_), 0 <= k_, k_ < Length(body(pr)), body(pr)[k_] == x, head(pr) == y)))),
               ForAll([pr, k_], Implies(And(cov(pr, k_), 0 <= k_, k_ < Length(body(pr))), And(tg_dom(m, body(pr)[k_]), tg_val(m, body(pr)[k_], head(pr)) > 0))))
W.contract(Contract('LLOneParser._get_triggers', [('self', LLP)], ret=MapOB,
    ensures=lambda o, r, n: tg_spec(r, lambda p_, kk: o.self._cfg.P[p_]),
    locals={'triggers': MapOB},
    loops={'0': lambda e, done: tg_spec(e.triggers, lambda p_, kk: done[p_]),
           '0.0': lambda e, i: tg_spec(e.triggers, lambda p_, kk: Or(e.get('$done0')[p_], And(p_ == e.production.term, kk < i.term)))}))

# ------------------------------------------------------------------ _get_triggers_follow_set
# FOLLOW(head) flows into FOLLOW(component) exactly when everything after the component is nullable in the given table
MapOSet = TMap(Ob, SetOb)
o_, l_ = Consts('o_ l_', IntSort())
# theory lemma of sequences (element of a suffix)
W.axioms.append(ForAll([sq, o_, k_], Implies(And(0 <= o_, o_ <= Length(sq), 0 <= k_, k_ < Length(sq) - o_), SubSeq(sq, o_, Length(sq) - o_)[k_] == sq[o_ + k_]),
                       patterns=[SubSeq(sq, o_, Length(sq) - o_)[k_]]))
fsv = Const('fsv', MapOS.sort()); i_ = Const('i_', IntSort())
TN = Function('TailNullable', MapOS.sort(), SeqOb.sort(), IntSort(), BoolSort())          # every symbol after position i has epsilon in its table entry
W.axioms.append(ForAll([fsv, sq, i_], TN(fsv, sq, i_) == ForAll([m_], Implies(And(i_ < m_, m_ < Length(sq)), nullable_at(Sym(MapOS, fsv), sq, m_))), patterns=[TN(fsv, sq, i_)]))
TN_DEF = W.axioms[-1]
TN_ELIM = ForAll([fsv, sq, i_, m_], Implies(And(TN(fsv, sq, i_), i_ < m_, m_ < Length(sq)), nullable_at(Sym(MapOS, fsv), sq, m_)))   # no explicit trigger: z3 rewrites seq.nth before matching, a pattern written with it never fires
W.axioms.append(TN_ELIM); W.derived = [('TailNullable elimination', [TN_DEF], TN_ELIM)]
def tf_spec(m, fs, covP, cov):
    dom = MapOSet.get(m, 'dom').term; val = MapOSet.get(m, 'val').term; f = fs.term
    return And(ForAll([x], Implies(Select(dom, x), Exists([pr], And(covP(pr), head(pr) == x))), patterns=[Select(dom, x)]),
               ForAll([pr], Implies(covP(pr), Select(dom, head(pr))), patterns=[head(pr)]),
               ForAll([x, y], Implies(And(Select(dom, x), Select(Select(val, x), y)),
                                      Exists([pr, k_], And(cov(pr, k_), 0 <= k_, k_ < Length(body(pr)), head(pr) == x, body(pr)[k_] == y, TN(f, body(pr), k_)), patterns=[TN(f, body(pr), k_)])),
                      patterns=[Select(Select(val, x), y)]),
               ForAll([pr, k_], Implies(And(cov(pr, k_), 0 <= k_, k_ < Length(body(pr)), TN(f, body(pr), k_)), Select(Select(val, head(pr)), body(pr)[k_])),
                      patterns=[TN(f, body(pr), k_)]))
W.contract(Contract('LLOneParser._get_triggers_follow_set', [('self', LLP), ('first_set', MapOS)], ret=MapOSet,
    ensures=lambda o, r, n: tf_spec(r, o.first_set, lambda p_: o.self._cfg.P[p_], lambda p_, kk: o.self._cfg.P[p_]),
    locals={'triggers': MapOSet},
    loop_post={'0.0.0': lambda e: TN(e.first_set.term, body(e.production.term), e.i.term)},          # the inner loop ran to its end: the tail is nullable
    loops={'0': lambda e, done: tf_spec(e.triggers, e.first_set, lambda p_: done[p_], lambda p_, kk: done[p_]),
           '0.0': lambda e, i: tf_spec(e.triggers, e.first_set, lambda p_: Or(e.get('$done0')[p_], p_ == e.production.term),
                                       lambda p_, kk: Or(e.get('$done0')[p_], And(p_ == e.production.term, kk < i.term))),
           '0.0.0': lambda e, k: And(e.all_epsilon.term, e.i.term == e.get('$done0.0').term,
                                     ForAll([m_], Implies(And(e.i.term < m_, m_ < e.i.term + 1 + k.term), nullable_at(e.first_set, body(e.production.term), m_))),
                                     tf_spec(e.triggers, e.first_set, lambda p_: Or(e.get('$done0')[p_], p_ == e.production.term),
                                             lambda p_, kk: Or(e.get('$done0')[p_], And(p_ == e.production.term, kk < e.i.term))))}))

W.ground_sorts = (Ob.sort(),)
W.special = {}
_P = 'pyformlang/cfg/llone_parser.py'
TARGETS = {'LLOneParser._get_first_set_production': (_P, 'LLOneParser._get_first_set_production'), 'LLOneParser._get_triggers': (_P, 'LLOneParser._get_triggers'),
           'LLOneParser._get_triggers_follow_set': (_P, 'LLOneParser._get_triggers_follow_set')}
SMOKE = [
    ('LLOneParser._get_first_set_production', _P, "        if first_not_containing_epsilon != len(production.body):\n            if Epsilon() in first_set_temp:", "        if first_not_containing_epsilon == len(production.body):\n            if Epsilon() in first_set_temp:", 'break'),
    ('LLOneParser._get_first_set_production', _P, "                break\n            first_not_containing_epsilon += 1", "                continue\n            first_not_containing_epsilon += 1", 'break'),
    ('LLOneParser._get_triggers', _P, "                triggers[body_component].append(production.head)", "                triggers[body_component].append(body_component)", 'break'),
]
