"""pyformlang.cfg: sorts, abstract views, spec functions, contracts (DESIGN 3.1, C09/C10/C12).

View of a CFG object: (V, Tm, S, P) with P a *set* of productions (head, body: sequence of objects).  `_productions` may be any
iterable in the code; the contracts take it as a set (what the constructor receives from every function of this module and from the
public examples) - stated as an assumption.
"""
import ast
from z3 import *
from pyvc.vtypes import *
from pyvc.engine import World, Contract, NS, Unsupported

W = World()
Ob = TVal('Ob')
SetOb = TSet(Ob); SeqOb = TSeq(Ob)
Prod = TURec('Prod', [('head', Ob), ('body', SeqOb)])
SetProd = TSet(Prod); BagProd = TBag(Prod)
CFGT = TRec('CFG', [('V', SetOb), ('Tm', SetOb), ('S', Ob), ('P', SetProd)])
for py, f in [('_variables', 'V'), ('variables', 'V'), ('_terminals', 'Tm'), ('terminals', 'Tm'), ('_start_symbol', 'S'), ('start_symbol', 'S'),
              ('_productions', 'P'), ('productions', 'P')]:
    W.fields[('CFG', py)] = f
W.consts['None'] = NONE_SYM
W.axioms += Prod.axioms()
isVar = Function('isVar', Ob.sort(), BoolSort())          # instance of Variable
isEps = Function('isEps', Ob.sort(), BoolSort())          # instance of cfg.Epsilon (a Terminal)
W.isinstance_preds['Variable'] = lambda s: isVar(s.term)
W.isinstance_preds['Epsilon'] = lambda s: isEps(s.term)
W.isinstance_preds['Terminal'] = lambda s: Not(isVar(s.term))
x, y, z, A, B, C_ = Consts('x y z A B C_', Ob.sort())
pr, pr2 = Consts('pr pr2', Prod.sort())
sq = Const('sq', SeqOb.sort()); i_, k_ = Consts('i_ k_', IntSort())
P_ = Const('P_', SetProd.sort())
W.axioms.append(ForAll([x], Implies(isEps(x), Not(isVar(x)))))

def mkprod(h_, b_): return Prod.make(head=Sym(Ob, h_), body=Sym(SeqOb, b_)).term
def head(p): return Prod.get(Sym(Prod, p), 'head').term
def body(p): return Prod.get(Sym(Prod, p), 'body').term
InBody = Function('InBody', SeqOb.sort(), Ob.sort(), BoolSort())      # x occurs in the sequence
NoEps = Function('NoEps', SeqOb.sort(), BoolSort())                  # no epsilon object in the sequence
W.axioms += [ForAll([sq, x], InBody(sq, x) == Exists([k_], And(0 <= k_, k_ < Length(sq), sq[k_] == x))),
             ForAll([sq], NoEps(sq) == ForAll([x], Implies(InBody(sq, x), Not(isEps(x)))))]
def in_body(s, xx): return InBody(s, xx)
W.seq_member = lambda seqterm, xterm: InBody(seqterm, xterm)

# Production(head, body): epsilon objects are filtered out of the body
Filt = Function('FiltEps', SeqOb.sort(), SeqOb.sort())
W.axioms.append(ForAll([sq], Implies(NoEps(sq), Filt(sq) == sq)))
def production_ctor(eng, e, st):
    h = eng.ev(e.args[0], st); b = eng.ev(e.args[1], st)
    filtering = True
    for kw in e.keywords:
        if kw.arg == 'filtering' and isinstance(kw.value, ast.Constant): filtering = bool(kw.value.value)
    if len(e.args) > 2 and isinstance(e.args[2], ast.Constant): filtering = bool(e.args[2].value)
    if b.t != SeqOb: raise Unsupported('Production body that is not a sequence')
    return Prod.make(head=h, body=Sym(SeqOb, Filt(b.term) if filtering else b.term))
W.ctors['Production'] = production_ctor

# reversal of a body
Rev = Function('Rev', SeqOb.sort(), SeqOb.sort())
W.axioms.append(ForAll([sq], And(Length(Rev(sq)) == Length(sq),
                                 ForAll([k_], Implies(And(0 <= k_, k_ < Length(sq)), Rev(sq)[k_] == sq[Length(sq) - 1 - k_])))))
# consequence of the definition (k -> |s|-1-k is a bijection of the positions; List.mem_reverse in Lean: bridge/cfgrev.lean)
W.axioms.append(ForAll([sq, x], InBody(Rev(sq), x) == InBody(sq, x)))
W.axioms.append(ForAll([sq], NoEps(Rev(sq)) == NoEps(sq)))          # immediate from the previous line and the definition of NoEps
W.lemmas = {'mem_reverse': 'bridge/cfgrev.lean'}
W.seq_reverse = lambda term: Rev(term)

def WF(G):
    """class invariant established by the constructor: symbols of the productions are registered, bodies hold no epsilon object"""
    return And(G.V[G.S], ForAll([pr], Implies(G.P[pr], G.V[head(pr)]), patterns=[G.P[pr]]),
               ForAll([pr], Implies(G.P[pr], NoEps(body(pr))), patterns=[G.P[pr]]),
               ForAll([pr, x], Implies(And(G.P[pr], InBody(body(pr), x)), If(isVar(x), G.V[x], G.Tm[x])), patterns=[MultiPattern(G.P[pr], InBody(body(pr), x))]),
               ForAll([x], Implies(G.V[x], isVar(x))), ForAll([x], Implies(G.Tm[x], Not(isVar(x)))))

# CFG(variables, terminals, start_symbol, productions): registers the symbols of the productions
def cfg_ctor(eng, e, st):
    args = {}
    names = ['variables', 'terminals', 'start_symbol', 'productions']
    for n, a in zip(names, e.args): args[n] = a
    for kw in e.keywords: args[kw.arg] = kw.value
    def val(n, empty):
        if n not in args or (isinstance(args[n], ast.Constant) and args[n].value is None): return empty
        return eng.ev(args[n], st)
    V0 = val('variables', SetOb.empty()); T0 = val('terminals', SetOb.empty()); Pin = val('productions', SetProd.empty())
    if 'start_symbol' not in args: raise Unsupported('CFG without start symbol')
    S0 = eng.ev(args['start_symbol'], st)
    if isinstance(Pin.t, TBag): memP = lambda p_: Select(Pin.term, p_) > 0
    elif isinstance(Pin.t, TSet): memP = lambda p_: Select(Pin.term, p_)
    else: raise Unsupported(f'CFG productions of type {Pin.t}')
    res = CFGT.fresh('newcfg')
    st.pc.append(And(res.S == S0,
        ForAll([pr], res.P[pr] == memP(pr)),
        ForAll([x], res.V[x] == Or(V0[x], x == S0.term, Exists([pr], And(memP(pr), Or(head(pr) == x, And(in_body(body(pr), x), isVar(x))))))),
        ForAll([x], res.Tm[x] == Or(T0[x], Exists([pr], And(memP(pr), in_body(body(pr), x), Not(isVar(x))))))))
    return res
W.ctors['CFG'] = cfg_ctor

# ------------------------------------------------------------------ reverse
def rev_of(q_, p_): return And(head(q_) == head(p_), body(q_) == Rev(body(p_)))
W.contract(Contract('CFG.reverse', [('self', CFGT)], ret=CFGT, fresh_result=True, requires=lambda o: WF(o.self),
    ensures=lambda o, r, n: And(ForAll([pr2], Implies(r.P[pr2], Exists([pr], And(o.self.P[pr], rev_of(pr2, pr)))), patterns=[r.P[pr2]]),
                                ForAll([pr], Implies(o.self.P[pr], r.P[mkprod(head(pr), Rev(body(pr)))]), patterns=[o.self.P[pr]]),
                                r.S == o.self.S, r.V == o.self.V, r.Tm == o.self.Tm, WF(r)),
    locals={'productions': BagProd},
    loops={'0': lambda e, done: And(ForAll([pr2], e.productions[pr2] >= 0),
                                    ForAll([pr2], Implies(e.productions[pr2] > 0, Exists([pr], And(done[pr], rev_of(pr2, pr)))), patterns=[e.productions[pr2]]),
                                    ForAll([pr], Implies(done[pr], e.productions[mkprod(head(pr), Rev(body(pr)))] > 0), patterns=[done[pr]]))}))

W.contract(Contract('CFG.__invert__', [('self', CFGT)], ret=CFGT, fresh_result=True, requires=lambda o: WF(o.self),          # ~cfg: delegation, same postcondition
    ensures=W.contracts['CFG.reverse'].ensures))

# ------------------------------------------------------------------ get_reachable_symbols
S_ = Const('S_', Ob.sort())
CReach = Function('CReach', SetProd.sort(), Ob.sort(), Ob.sort(), BoolSort())     # x occurs in a sentential form derivable from s
def occurs(P, a_, x_): return Exists([pr], And(Select(P, pr), head(pr) == a_, InBody(body(pr), x_), Not(isEps(x_))))
W.axioms += [ForAll([P_, S_], CReach(P_, S_, S_)),
             ForAll([P_, S_, pr, z], Implies(And(Select(P_, pr), CReach(P_, S_, head(pr)), InBody(body(pr), z), Not(isEps(z))), CReach(P_, S_, z)),
                    patterns=[MultiPattern(Select(P_, pr), CReach(P_, S_, head(pr)), InBody(body(pr), z))])]
def closed_occ(rs, P, guard=lambda h_: BoolVal(True)):
    """rs is closed under `occurs` (for heads satisfying `guard`), written over the production so that it triggers on P[pr], InBody(body pr, z)"""
    return ForAll([pr, z], Implies(And(Select(P, pr), Select(rs, head(pr)), guard(head(pr)), InBody(body(pr), z), Not(isEps(z))), Select(rs, z)),
                  patterns=[MultiPattern(Select(P, pr), InBody(body(pr), z))])
def creach_induction2(P, s0, Pset):
    yy = Const('ci_y', Ob.sort())
    return Implies(And(Select(Pset, s0), closed_occ(Pset, P)), ForAll([yy], Implies(CReach(P, s0, yy), Select(Pset, yy)), patterns=[CReach(P, s0, yy)]))
def creach_induction(P, s0, Pset):
    """sound for the least fixpoint: Pset contains s0 and is closed under `occurs`  =>  CReach(P, s0, .) is inside Pset"""
    yy, zz = Consts('ci_y ci_z', Ob.sort())
    return Implies(And(Select(Pset, s0), ForAll([yy, zz], Implies(And(Select(Pset, yy), occurs(P, yy, zz)), Select(Pset, zz)))),
                   ForAll([yy], Implies(CReach(P, s0, yy), Select(Pset, yy))))
MapOB = TMap(Ob, TBag(Ob))
def dval(e, a_): return Select(MapOB.get(e.reachable_transition_d, 'val').term, a_)
def ddom(e, a_): return Select(MapOB.get(e.reachable_transition_d, 'dom').term, a_)
def d_inv(e, covered):
    return And(ForAll([A, x], Implies(ddom(e, A), Select(dval(e, A), x) >= 0)),
               ForAll([A, x], Implies(And(ddom(e, A), Select(dval(e, A), x) > 0), Exists([pr], And(covered(pr, x), head(pr) == A, InBody(body(pr), x), Not(isEps(x)))))),
               ForAll([pr, x], Implies(And(covered(pr, x), InBody(body(pr), x), Not(isEps(x))), And(ddom(e, head(pr)), Select(dval(e, head(pr)), x) > 0))))
def d_final(e):
    P = e.self.P
    return And(ForAll([A, x], Implies(ddom(e, A), Select(dval(e, A), x) >= 0)),
               ForAll([A, x], And(ddom(e, A), Select(dval(e, A), x) > 0) == occurs(P.term, A, x)))
def reach_inv(inner):
    def inv(e, done):
        P, S, rs, tp = e.self.P.term, e.self.S.term, e.r_symbols, e.to_process
        skip = (lambda yy: yy != e.current.term) if inner else (lambda yy: BoolVal(True))
        cl = [d_final(e), rs[S], ForAll([y], Implies(rs[y], CReach(P, S, y))), ForAll([y], tp[y] >= 0), ForAll([y], Implies(tp[y] > 0, rs[y])),
              closed_occ(rs.term, P, lambda h_: And(Select(tp.term, h_) == 0, skip(h_)))]
        if inner: cl += [rs[e.current], ForAll([z], Implies(done[z] > 0, rs[z]))]
        return And(cl)
    return inv
W.contract(Contract('CFG.get_reachable_symbols', [('self', CFGT)], ret=SetOb,
    ensures=lambda o, r, n: And(ForAll([x], Implies(r[x], CReach(o.self.P.term, o.self.S.term, x)), patterns=[r[x]]),
                                ForAll([x], Implies(CReach(o.self.P.term, o.self.S.term, x), r[x]), patterns=[CReach(o.self.P.term, o.self.S.term, x)])),
    locals={'r_symbols': SetOb, 'reachable_transition_d': MapOB},
    loops={'0': lambda e, done: d_inv(e, lambda p_, x_: done[p_]),
           '0.0': lambda e, i: And(ddom(e, head(e.production.term)),
                                   d_inv(e, lambda p_, x_: Or(e.get('$done0')[p_],
                                         And(p_ == e.production.term, Exists([k_], And(0 <= k_, k_ < i.term, body(p_)[k_] == x_)))))),
           '1': reach_inv(False), '1.0': reach_inv(True)},
    loop_post={'0': d_final,
               '1': lambda e: closed_occ(e.r_symbols.term, e.self.P.term)},      # closed under `occurs` at exit
    hints=lambda o, e, r: [creach_induction2(o.self.P.term, o.self.S.term, r.term)]))

# ------------------------------------------------------------------ utils_cfg.get_productions_d
MapOP = TMap(Ob, BagProd)
def pd_val(m, a_, p_): return Select(Select(MapOP.get(m, 'val').term, a_), p_)
def pd_dom(m, a_): return Select(MapOP.get(m, 'dom').term, a_)
def pd_spec(m, inbag):
    return And(ForAll([A, pr], Implies(pd_dom(m, A), pd_val(m, A, pr) >= 0)),
               ForAll([A, pr], Implies(And(pd_dom(m, A), pd_val(m, A, pr) > 0), And(inbag(pr), head(pr) == A))),
               ForAll([pr], Implies(inbag(pr), And(pd_dom(m, head(pr)), pd_val(m, head(pr), pr) > 0))))
W.contract(Contract('fn.get_productions_d', [('productions', BagProd)], ret=MapOP,
    ensures=lambda o, r, n: pd_spec(r, lambda p_: o.productions[p_] > 0),
    locals={'productions_d': MapOP},
    loops={'0': lambda e, done: pd_spec(e.productions_d, lambda p_: done[p_] > 0)}))

# ------------------------------------------------------------------ get_unit_pairs
PairOb = TTuple(Ob, Ob); SetPair = TSet(PairOb); BagPair = TBag(PairOb)
def pair(a_, b_): return PairOb.make(_0=Sym(Ob, a_), _1=Sym(Ob, b_)).term
URch = Function('UReach', SetProd.sort(), Ob.sort(), Ob.sort(), BoolSort())        # A =>* B through unit productions only
def is_unit(p_): return And(Length(body(p_)) == 1, isVar(body(p_)[0]))
def unit(P, b_, c_): return Exists([pr], And(Select(P, pr), head(pr) == b_, is_unit(pr), body(pr)[0] == c_))
W.axioms += [ForAll([P_, A], URch(P_, A, A)),
             ForAll([P_, A, B, C_], Implies(And(URch(P_, A, B), unit(P_, B, C_)), URch(P_, A, C_)))]
def ureach_induction(P, a0, Pset):
    yy, zz = Consts('ui_y ui_z', Ob.sort())
    return Implies(And(Select(Pset, a0), ForAll([yy, zz], Implies(And(Select(Pset, yy), unit(P, yy, zz)), Select(Pset, zz)))),
                   ForAll([yy], Implies(URch(P, a0, yy), Select(Pset, yy))))
def up_inv(inner):
    def inv(e, done):
        G, U, tp, P = e.self, e.unit_pairs, e.to_process, e.self.P.term
        cur = (lambda a_, b_: And(a_ == e.var_a.term, b_ == e.var_b.term)) if inner else (lambda a_, b_: BoolVal(False))
        cl = [ForAll([A], Implies(G.V[A], U[pair(A, A)])),
              ForAll([A, B], Implies(U[pair(A, B)], And(G.V[A], URch(P, A, B)))),
              ForAll([A, B], tp[pair(A, B)] >= 0), ForAll([A, B], Implies(tp[pair(A, B)] > 0, U[pair(A, B)])),
              ForAll([A, B, C_], Implies(And(U[pair(A, B)], tp[pair(A, B)] == 0, Not(cur(A, B)), unit(P, B, C_)), U[pair(A, C_)])),
              ForAll([pr], Implies(e.productions[pr] > 0, And(G.P[pr], is_unit(pr)))), ForAll([pr], Implies(And(G.P[pr], is_unit(pr)), e.productions[pr] > 0)),
              ForAll([pr], e.productions[pr] >= 0),
              pd_spec(e.productions_d, lambda p_: e.productions[p_] > 0)]
        if inner: cl += [U[pair(e.var_a.term, e.var_b.term)], ForAll([pr], Implies(done[pr] > 0, U[pair(e.var_a.term, body(pr)[0])]))]
        return And(cl)
    return inv
W.contract(Contract('CFG.get_unit_pairs', [('self', CFGT)], ret=SetPair,
    ensures=lambda o, r, n: ForAll([A, B], r[pair(A, B)] == And(o.self.V[A], URch(o.self.P.term, A, B))),
    locals={'unit_pairs': SetPair},
    loops={'0': lambda e, done: ForAll([A, B], e.unit_pairs[pair(A, B)] == And(done[A], A == B)),
           '1': up_inv(False), '1.0': up_inv(True)},
    hints=lambda o, e, r: [ForAll([A], Implies(o.self.V[A], ureach_induction(o.self.P.term, A, Lambda([y], r[pair(A, y)]))))]))

# ------------------------------------------------------------------ eliminate_unit_productions
def eu_inv(level):
    def inv(e, done):
        G, P, U = e.self, e.self.P, e.unit_pairs
        nonunit = lambda p_: And(P[p_], Not(is_unit(p_)))
        if level == '0': cov = lambda a_, b_, p_: done[pair(a_, b_)]
        else: cov = lambda a_, b_, p_: Or(e.get('$done0')[pair(a_, b_)], And(a_ == e.var_a.term, b_ == e.var_b.term, done[p_] > 0))
        q = pr2; prods = e.productions
        # explicit triggers: membership facts fire on `productions[.]` terms only (the default choice loops between the three clauses)
        return And(ForAll([A, B], U[pair(A, B)] == And(G.V[A], URch(P.term, A, B))),
                   pd_spec(e.productions_d, nonunit),
                   ForAll([q], prods[q] >= 0),
                   ForAll([q], Implies(prods[q] > 0, Or(nonunit(q), Exists([B], And(U[pair(head(q), B)], cov(head(q), B, mkprod(B, body(q))), nonunit(mkprod(B, body(q))))))),
                          patterns=[prods[q]]),
                   ForAll([q], Implies(nonunit(q), prods[q] > 0), patterns=[prods[q]]),
                   ForAll([A, B, pr], Implies(And(U[pair(A, B)], cov(A, B, pr), nonunit(pr), head(pr) == B), prods[mkprod(A, body(pr))] > 0),
                          patterns=[MultiPattern(U[pair(A, B)], prods[mkprod(A, body(pr))])]))
    return inv
def eu_post(o, r, n):
    G, P = o.self, o.self.P; nonunit = lambda p_: And(P[p_], Not(is_unit(p_))); q = pr2
    return And(ForAll([q], Implies(r.P[q], Exists([B], And(G.V[head(q)], URch(P.term, head(q), B), nonunit(mkprod(B, body(q)))))), patterns=[r.P[q]]),
               ForAll([A, B, pr], Implies(And(G.V[A], URch(P.term, A, B), nonunit(pr), head(pr) == B), r.P[mkprod(A, body(pr))]),
                      patterns=[MultiPattern(URch(P.term, A, B), r.P[mkprod(A, body(pr))])]),
               ForAll([q], Implies(r.P[q], Not(is_unit(q))), patterns=[r.P[q]]),                     # no unit production in the result
               r.S == G.S, r.V == G.V, r.Tm == G.Tm)
W.contract(Contract('CFG.eliminate_unit_productions', [('self', CFGT)], ret=CFGT, fresh_result=True, requires=lambda o: WF(o.self),
    ensures=eu_post, loops={'0': eu_inv('0'), '0.0': eu_inv('0.0')}))

# ------------------------------------------------------------------ is_empty, remove_useless_symbols (modular over get_generating_symbols)
# GNS(P, B): the least set of symbols containing B and the head of every production whose body lies in it; "x is generating" = x in GNS(P, Tm)
# (the epsilon object, which get_generating_symbols uses as a sentinel, excluded).  The axioms of GNS live in contracts/cfg_gen.py, where
# _get_generating_or_nullable and the memoising wrapper get_generating_symbols are proved against them; here the contract of the wrapper is used
# at its call sites, at the level of the (V, Tm, S, P) view.  What links the two views: WF gives the wrapper's precondition (no epsilon object in a
# body; heads are variables, so no terminal is the head of an empty production); the memo field is None or holds the computed set (it is written by
# the proved wrappers only) - stated as an assumption.
EPSOB = Const('EPSILON_OBJECT', Ob.sort()); W.axioms.append(isEps(EPSOB))
GNS = Function('GNS', SetProd.sort(), SetOb.sort(), SetOb.sort())
def Gen(P, Tm, x_): return And(x_ != EPSOB, Select(GNS(P, Tm), x_))
W.contract(Contract('CFG.get_generating_symbols', [('self', CFGT)], ret=SetOb, requires=lambda o: WF(o.self),
    ensures=lambda o, r, n: ForAll([x], r[x] == Gen(o.self.P.term, o.self.Tm.term, x))))
W.contract(Contract('CFG.is_empty', [('self', CFGT)], ret=TBool, requires=lambda o: WF(o.self),
    ensures=lambda o, r, n: r.term == Not(Gen(o.self.P.term, o.self.Tm.term, o.self.S.term))))
def rus_post(o, r, n, g):
    G, P, T = o.self, o.self.P, g.T; gen = lambda x_: Gen(P.term, G.Tm.term, x_)
    keep1 = lambda p_: And(P[p_], gen(head(p_)), ForAll([x], Implies(InBody(body(p_), x), gen(x))))
    reach = lambda x_: CReach(T.P.term, G.S.term, x_)
    return And(ForAll([pr], T.P[pr] == keep1(pr), patterns=[T.P[pr]]), T.S == G.S,                    # T: the grammar restricted to generating symbols
               ForAll([pr], r.P[pr] == And(T.P[pr], reach(head(pr))), patterns=[r.P[pr]]),
               r.S == G.S,
               ForAll([x], Implies(r.V[x], Or(x == G.S.term, And(G.V[x], gen(x), reach(x)))), patterns=[r.V[x]]),   # only generating and reachable symbols
               ForAll([x], Implies(r.Tm[x], And(G.Tm[x], gen(x), reach(x))), patterns=[r.Tm[x]]))
W.contract(Contract('CFG.remove_useless_symbols', [('self', CFGT)], ret=CFGT, fresh_result=True, requires=lambda o: WF(o.self), ensures=rus_post,
    ghosts={'T': CFGT}, ghost_witness=lambda o, e: {'T': e.cfg_temp}))

VERIFIED_ELSEWHERE = {'CFG.get_generating_symbols': 'contracts.cfg_gen (CFGGen.get_generating_symbols over CFGGen._get_generating_or_nullable; table builder assumed)'}
W.ground_sorts = (Ob.sort(),)
W.special = {}
_P = 'pyformlang/cfg/cfg.py'
TARGETS = {'CFG.reverse': (_P, 'CFG.reverse'), 'CFG.__invert__': (_P, 'CFG.__invert__'), 'CFG.get_reachable_symbols': (_P, 'CFG.get_reachable_symbols'),
           'CFG.get_unit_pairs': (_P, 'CFG.get_unit_pairs'), 'CFG.eliminate_unit_productions': (_P, 'CFG.eliminate_unit_productions'),
           'CFG.is_empty': (_P, 'CFG.is_empty'), 'CFG.remove_useless_symbols': (_P, 'CFG.remove_useless_symbols'), 'fn.get_productions_d': ('pyformlang/cfg/utils_cfg.py', 'fn.get_productions_d')}

_C = 'pyformlang/cfg/cfg.py'
SMOKE = [
    ('CFG.get_reachable_symbols', _C, "                    r_symbols.add(next_symbol)\n                    to_process.append(next_symbol)", "                    r_symbols.add(next_symbol)", 'break'),
    ('CFG.reverse', _C, "production.body[::-1]", "production.body", 'break'),
    ('CFG.get_unit_pairs', _C, "                    unit_pairs.add(temp)\n                    to_process.append(temp)", "                    unit_pairs.add(temp)", 'break'),
    ('CFG.eliminate_unit_productions', _C, "                       if len(x.body) != 1\n                       or not isinstance(x.body[0], Variable)]\n        productions_d", "                       if len(x.body) != 1\n                       or isinstance(x.body[0], Variable)]\n        productions_d", 'break'),
    ('CFG.is_empty', _C, "return self._start_symbol not in self.get_generating_symbols()", "return self._start_symbol in self.get_generating_symbols()", 'break'),
]
