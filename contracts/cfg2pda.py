"""CFG.to_pda (C13) with its helpers: PDA.add_transition (the public mutator it calls) and the PDAObjectCreator of pyformlang/cfg.

Proved: the returned PDA has exactly the textbook structure (Hopcroft-Motwani-Ullman 6.3.1) over the object conversion ss / sy:
one state q, start stack symbol ss(S), an epsilon move (q, eps, ss(A)) -> (q, ss(X1) ... ss(Xn)) for every production A -> X1 ... Xn and a
pop move (q, sy(t), ss(t)) -> (q, []) for every terminal t, *and nothing else*.  The conversion ss is injective on grammar symbols: that
is the contract of PDAObjectCreator.get_stack_symbol_from, proved on its own source (contracts/cfg_creator.py) - it failed on the pinned
tree (Variable('#TERM#a') / Terminal('a'), fix cc31095).  That this structure accepts by empty stack the image of L(G) under sy is the
textbook theorem 6.13, assumed.
"""
import ast
from z3 import *
from pyvc.vtypes import *
from pyvc.engine import World, Contract, NS, Unsupported
import contracts.pda as P
import contracts.cfg as C

W = World()
PSt, PSy, PStk, SetSt, SetSy, SetStk, SeqStk, Trans, SetTr, PDA, TF, EPS, mktr = P.PSt, P.PSy, P.PStk, P.SetSt, P.SetSy, P.SetStk, P.SeqStk, P.Trans, P.SetTr, P.PDA, P.TF, P.EPS, P.mktr
Ob, SetOb, SeqOb, Prod, SetProd, CFGT, isVar, isEps, InBody, NoEps, head, body = C.Ob, C.SetOb, C.SeqOb, C.Prod, C.SetProd, C.CFGT, C.isVar, C.isEps, C.InBody, C.NoEps, C.head, C.body
x, y = Consts('x y', Ob.sort()); pr = Const('pr', Prod.sort()); tr = Const('tr', Trans.sort()); sq = Const('sq', SeqOb.sort()); k_ = Const('k_', IntSort())
g_ = Const('g_', PStk.sort()); a_ = Const('a_', PSy.sort()); s_ = Const('s_', PSt.sort()); stk = Const('stk', SeqStk.sort())

W.axioms += Trans.axioms() + Prod.axioms()
INBODY_DEF = [ForAll([sq, x], InBody(sq, x) == Exists([k_], And(0 <= k_, k_ < Length(sq), sq[k_] == x)))]
W.axioms += [INBODY_DEF[0],
             ForAll([sq], NoEps(sq) == ForAll([x], Implies(InBody(sq, x), Not(isEps(x))))),
             ForAll([x], Implies(isEps(x), Not(isVar(x)))),
             # exists-introduction for the definition of InBody above (no explicit trigger: z3 rewrites seq.nth before matching, a pattern
             # written with it never fires - DESIGN A.6)
             ForAll([sq, k_], Implies(And(0 <= k_, k_ < Length(sq)), InBody(sq, sq[k_])))]
INBODY_INTRO = W.axioms[-1]; W.derived = [('InBody introduction', INBODY_DEF, INBODY_INTRO)]
W.consts['None'] = NONE_SYM
W.seq_literals = {PStk}
W.seq_reverse = lambda term: C.Rev(term)                            # body[::-1] (not used by the current source; keeps such an edit inside the subset)
W.axioms.append(ForAll([sq], And(Length(C.Rev(sq)) == Length(sq), ForAll([k_], Implies(And(0 <= k_, k_ < Length(sq)), C.Rev(sq)[k_] == sq[Length(sq) - 1 - k_])))))
W.seq_member = lambda seqterm, xterm: (InBody(seqterm, xterm) if seqterm.sort() == SeqOb.sort() else Exists([k_], And(0 <= k_, k_ < Length(seqterm), seqterm[k_] == xterm)))
for key, f in list(P.W.fields.items()) + list(C.W.fields.items()): W.fields[key] = f
W.contracts['PdaTF.add_transition'] = P.W.contracts['PdaTF.add_transition']
W.ctors['Epsilon'] = lambda eng, e, st: Sym(PSy, EPS)

# ------------------------------------------------------------------ the object creator of pyformlang.pda.utils (value level: identity)
PCRE = TRec('PdaObjCreator', [('k', TBool)])
W.fields[('PDA', '_pda_obj_creator')] = lambda o: PCRE.make(k=Sym(TBool, BoolVal(True)))
# to_state / to_symbol / to_stack_symbol given an object of the right class return an *equal* object (the cached one or the argument):
# identity under the value-class assumption.  Raw values (str, int) are not passed by the functions verified here.
W.contract(Contract('PdaObjCreator.to_state', [('self', PCRE), ('given', PSt)], ret=PSt, pure=lambda o: o.given))
W.contract(Contract('PdaObjCreator.to_symbol', [('self', PCRE), ('given', PSy)], ret=PSy, pure=lambda o: o.given))
W.contract(Contract('PdaObjCreator.to_stack_symbol', [('self', PCRE), ('given', PStk)], ret=PStk, pure=lambda o: o.given))
isStkEps = Function('isStkEps', PStk.sort(), BoolSort())             # StackSymbol.__eq__(Epsilon()): the value is the string "epsilon"
def equal_hook(l, r):
    if l.t == PStk and r.t == PSy and r.term.eq(EPS): return isStkEps(l.term)
    if r.t == PStk and l.t == PSy and l.term.eq(EPS): return isStkEps(r.term)
    return None
W.equal_hook = equal_hook

def ins(S, v): return Store(S, v, True)
def at_post(o, r, n):
    A, B = o.self, n.self
    return And(ForAll([s_], B.Q[s_] == Or(A.Q[s_], s_ == o.s_from.term, s_ == o.s_to.term)),
               ForAll([a_], B.Sig[a_] == Or(A.Sig[a_], And(a_ == o.input_symbol.term, a_ != EPS))),
               ForAll([g_], B.Gam[g_] == Or(A.Gam[g_], g_ == o.stack_from.term,
                                            Exists([k_], And(0 <= k_, k_ < Length(o.stack_to.term), o.stack_to.term[k_] == g_, Not(isStkEps(g_)))))),
               B.D == ins(A.D.term, mktr(o.s_from.term, o.input_symbol.term, o.stack_from.term, o.s_to.term, o.stack_to.term)),
               B.q0 == A.q0, B.z0 == A.z0, B.F == A.F)
W.contract(Contract('PDA.add_transition', [('self', PDA), ('s_from', PSt), ('input_symbol', PSy), ('stack_from', PStk), ('s_to', PSt), ('stack_to', SeqStk)],
    ret=TNone, modifies=('self',), ensures=at_post,
    loops={'0': lambda e, i: And(e.self.Q == ins(ins(e.get('$old.self').Q.term, e.s_from.term), e.s_to.term),
                                 ForAll([a_], e.self.Sig[a_] == Or(e.get('$old.self').Sig[a_], And(a_ == e.input_symbol.term, a_ != EPS))),
                                 ForAll([g_], e.self.Gam[g_] == Or(e.get('$old.self').Gam[g_], g_ == e.stack_from.term,
                                                                   Exists([k_], And(0 <= k_, k_ < i.term, e.stack_to.term[k_] == g_, Not(isStkEps(g_)))))),
                                 e.self.D == e.get('$old.self').D, e.self.q0 == e.get('$old.self').q0, e.self.z0 == e.get('$old.self').z0, e.self.F == e.get('$old.self').F)}))

# ------------------------------------------------------------------ the object creator of pyformlang.cfg (grammar symbol -> PDA symbol / stack symbol)
ss = Function('ss', Ob.sort(), PStk.sort())       # get_stack_symbol_from on a non-epsilon object: cached, injective (contracts/cfg_creator.py)
sy = Function('sy', Ob.sort(), PSy.sort())        # get_symbol_from: cached; Symbol(str(value)) - not injective, and not needed to be
SS_INJECTIVE = ForAll([x, y], Implies(And(Not(isEps(x)), Not(isEps(y)), ss(x) == ss(y)), x == y))
W.axioms.append(SS_INJECTIVE); W.premises = {'stack_symbol_injective': SS_INJECTIVE}
W.axioms.append(ForAll([x], Implies(isEps(x), sy(x) == EPS)))
CRE = TRec('CfgObjCreator', [('dom', SetOb)])
def cre_ctor(eng, e, st):
    t = eng.ev(e.args[0], st); v = eng.ev(e.args[1], st)
    return CRE.make(dom=Sym(SetOb, Lambda([x], Or(t[x], v[x]))))
W.ctors['PDAObjectCreator'] = cre_ctor
# a key that was not given to the constructor raises KeyError (epsilon objects excepted): the precondition the call sites must establish
W.contract(Contract('CfgObjCreator.get_symbol_from', [('self', CRE), ('symbol', Ob)], ret=PSy, requires=lambda o: Or(isEps(o.symbol.term), o.self.dom[o.symbol]),
                    pure=lambda o: Sym(PSy, sy(o.symbol.term))))
W.contract(Contract('CfgObjCreator.get_stack_symbol_from', [('self', CRE), ('stack_symbol', Ob)], ret=PStk, requires=lambda o: And(Not(isEps(o.stack_symbol.term)), o.self.dom[o.stack_symbol]),
                    pure=lambda o: Sym(PStk, ss(o.stack_symbol.term))))
MapSS = Function('MapSS', SeqOb.sort(), SeqStk.sort())              # [ss(x) for x in body]
W.axioms.append(ForAll([sq], And(Length(MapSS(sq)) == Length(sq), ForAll([k_], Implies(And(0 <= k_, k_ < Length(sq)), MapSS(sq)[k_] == ss(sq[k_]))))))
def seq_map(eng, coll, xv, elt):
    if coll.t == SeqOb and elt.t == PStk and is_app(elt.term) and elt.term.decl().eq(ss) and elt.term.arg(0).eq(xv.term): return Sym(SeqStk, MapSS(coll.term))
    return None
W.seq_map = seq_map

QST = Const('Q_STATE', PSt.sort())                                  # pda.State("q")
def state_ctor(eng, e, st):
    if len(e.args) == 1 and isinstance(e.args[0], ast.Constant) and e.args[0].value == 'q': return Sym(PSt, QST)
    raise Unsupported('State(...) with a non-modelled argument')
W.ctors['State'] = state_ctor
def pda_ctor(eng, e, st):
    """PDA(states=, input_symbols=, stack_alphabet=, start_state=, start_stack_symbol=) without transition function: the constructor
    passes State / Symbol / StackSymbol objects through its creator (identity at value level), adds the start state and the start stack symbol"""
    args = {kw.arg: kw.value for kw in e.keywords}
    if e.args or set(args) - {'states', 'input_symbols', 'stack_alphabet', 'start_state', 'start_stack_symbol'}: raise Unsupported('PDA(...) argument shape')
    Q0 = eng.ev(args['states'], st); S0 = eng.ev(args['input_symbols'], st); G0 = eng.ev(args['stack_alphabet'], st)
    q0 = eng.ev(args['start_state'], st); z0 = eng.ev(args['start_stack_symbol'], st)
    return PDA.make(Q=Sym(SetSt, ins(Q0.term, q0.term)), Sig=S0, Gam=Sym(SetStk, ins(G0.term, z0.term)), D=SetTr.empty(), q0=q0, z0=z0, F=SetSt.empty())
W.ctors['PDA'] = pda_ctor

def WF(G):
    return And(C.WF(G), Not(isEps(G.S.term)))
EMP = Empty(SeqStk.sort())
def prod_tr(p_): return mktr(QST, EPS, ss(head(p_)), QST, MapSS(body(p_)))
def term_tr(t_): return mktr(QST, sy(t_), ss(t_), QST, EMP)
def tp_struct(R, G, covP, covT):
    return And(ForAll([s_], R.Q[s_] == (s_ == QST)), R.q0 == QST, R.z0 == ss(G.S.term), ForAll([s_], Not(R.F[s_])),
               ForAll([a_], Implies(R.Sig[a_], Exists([x], And(G.Tm[x], a_ == sy(x)))), patterns=[R.Sig[a_]]),          # Sig = sy[Tm]
               ForAll([x], Implies(G.Tm[x], R.Sig[sy(x)]), patterns=[sy(x)]),
               ForAll([g_], Implies(R.Gam[g_], Exists([x], And(Or(G.Tm[x], G.V[x]), g_ == ss(x)))), patterns=[R.Gam[g_]]),   # Gam = ss[Tm u V]
               ForAll([x], Implies(Or(G.Tm[x], G.V[x]), R.Gam[ss(x)]), patterns=[ss(x)]),
               ForAll([tr], Implies(R.D[tr], Or(Exists([pr], And(covP(pr), tr == prod_tr(pr))), Exists([x], And(covT(x), tr == term_tr(x))))), patterns=[R.D[tr]]),
               ForAll([pr], Implies(covP(pr), R.D[prod_tr(pr)]), patterns=[prod_tr(pr)]),
               ForAll([x], Implies(covT(x), R.D[term_tr(x)]), patterns=[term_tr(x)]))
# terminals of the grammar are not epsilon objects (CFG.__init__ is given Terminal objects; an Epsilon among them would be popped as the
# stack symbol "epsilon"): required, since get_stack_symbol_from answers pda.Epsilon() for it
def WFIDX(G):
    """the clause of WF about body symbols, by position: a consequence of WF and the definition of InBody, proved as an entry lemma in
    isolation (inside the full context the solver does not find the instance of the exists-introduction)"""
    return ForAll([pr, k_], Implies(And(G.P[pr], 0 <= k_, k_ < Length(body(pr))), Or(G.V[body(pr)[k_]], G.Tm[body(pr)[k_]])))
def TP_PRE(G): return And(WF(G), ForAll([x], Implies(G.Tm[x], Not(isEps(x)))))
W.contract(Contract('CFG.to_pda', [('self', CFGT)], ret=PDA, fresh_result=True, requires=lambda o: TP_PRE(o.self),
    ensures=lambda o, r, n: tp_struct(r, o.self, lambda p_: o.self.P[p_], lambda t_: o.self.Tm[t_]),
    entry_lemmas=lambda o: [('WF by position', INBODY_DEF + [INBODY_INTRO], WFIDX(o.self))],
    loops={'0': lambda e, done: tp_struct(e.new_pda, e.self, lambda p_: done[p_], lambda t_: BoolVal(False)),
           '1': lambda e, done: tp_struct(e.new_pda, e.self, lambda p_: e.self.P[p_], lambda t_: done[t_])}))

VERIFIED_ELSEWHERE = {'CfgObjCreator.get_stack_symbol_from': 'contracts.cfg_creator (PDAObjectCreator.get_stack_symbol_from: cached, injective)'}
W.ground_sorts = (PSt.sort(), PSy.sort(), PStk.sort(), Ob.sort())
W.special = {}
TARGETS = {'PDA.add_transition': ('pyformlang/pda/pda.py', 'PDA.add_transition'), 'CFG.to_pda': ('pyformlang/cfg/cfg.py', 'CFG.to_pda')}
_C = 'pyformlang/cfg/cfg.py'; _PP = 'pyformlang/pda/pda.py'
SMOKE = [
    ('CFG.to_pda', _C, "                                   state, [])\n        return new_pda", "                                   state, [pda_object_creator.get_stack_symbol_from(terminal)])\n        return new_pda", 'break'),
    ('CFG.to_pda', _C, "                                   [pda_object_creator.get_stack_symbol_from(x)\n                                    for x in production.body])", "                                   [pda_object_creator.get_stack_symbol_from(x)\n                                    for x in production.body[::-1]])", 'break'),
    ('PDA.add_transition', _PP, "        self._states.add(s_to)\n        if input_symbol != Epsilon():", "        if input_symbol != Epsilon():", 'break'),
]
