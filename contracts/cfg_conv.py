"""pyformlang.pda.cfg_variable_converter.CFGVariableConverter (C11, C13, C19): the triple variables [p, X, q].

View: the two index dictionaries (keyed by the *value* of a state / symbol object: State, StackSymbol and Variable compare and hash by
.value - World.key_of), their counters, the variable counter and the three-dimensional table `_conversions` of cells (valid flag, variable
or None) as nested Python lists (length + content at every level).
Proved for every method under the representation invariant INV (the constructor, which establishes it: contracts/cfg_conv_init.py):
  - the index of an object is the entry of *this* converter's dictionary for its value, whatever index the object carried before
    (repair 5th `fix:` of the converter: the index cached on the object by another converter was trusted);
  - to_cfg_combined_variable / is_valid_and_get never change a cell that already holds a variable (the same triple always gets the same
    variable) and the variables held by two different cells are different (INV: every variable in the table is Variable(n) for an n below
    the counter, and no n occurs twice) - so different triples of registered states / symbols get different variables;
  - set_valid only sets the flag of its cell.
Assumed: Variable(n) for different ints are different values.
"""
import ast
from z3 import *
from pyvc.vtypes import *
from pyvc.vtypes import _TArr
from pyvc.engine import World, Contract, NS, Unsupported
import contracts.cfg as C

W = World()
Ob = C.Ob
StV, SyV = TVal('StateValue'), TVal('SymbolValue')
StObj = TRec('StateObject', [('value', StV), ('index_cfg_converter', TInt)])        # the cached index is only ever read after it has been written in the same call
SyObj = TRec('SymbolObject', [('value', SyV), ('index_cfg_converter', TInt)])
W.key_of = {'StateObject': lambda s: StObj.get(s, 'value'), 'SymbolObject': lambda s: SyObj.get(s, 'value')}
MapSt, MapSy = TMap(StV, TInt), TMap(SyV, TInt)
NONEOB = Const('none_variable', Ob.sort()); W.none_consts['Ob'] = NONEOB
W.consts['None'] = NONE_SYM
Cell = TTuple(TBool, Ob)
W.none_in_tuple = Ob
L3 = TRec('CellList', [('len', TInt), ('at', _TArr(TInt, Cell))])
L2 = TRec('CellList2', [('len', TInt), ('at', _TArr(TInt, L3))])
L1 = TRec('CellList3', [('len', TInt), ('at', _TArr(TInt, L2))])
for LT, ET in ((L3, Cell), (L2, L3), (L1, L2)):
    W.contract(Contract(f'{LT.name}.__getitem__', [('self', LT), ('i', TInt)], ret=ET, requires=lambda o: And(0 <= o.i.term, o.i.term < o.self.len.term),
                        pure=(lambda ET_: lambda o: Sym(ET_, Select(o.self.at.term, o.i.term)))(ET)))
    W.contract(Contract(f'{LT.name}.__setitem__', [('self', LT), ('i', TInt), ('v', ET)], ret=LT, requires=lambda o: And(0 <= o.i.term, o.i.term < o.self.len.term),
                        pure=(lambda LT_, ET_: lambda o: LT_.make(len=o.self.len, at=Sym(_TArr(TInt, ET_), Store(o.self.at.term, o.i.term, o.v.term))))(LT, ET)))
CONV = TRec('CFGVariableConverter', [('_counter', TInt), ('_inverse_states_d', MapSt), ('_counter_state', TInt), ('_inverse_stack_symbol_d', MapSy), ('_counter_symbol', TInt),
                                     ('_conversions', L1)])
numvar = Function('Variable_of_int', IntSort(), Ob.sort()); numof = Function('int_of_Variable', Ob.sort(), IntSort())
i_, j_, k_, i2, j2, k2, n_ = Ints('i_ j_ k_ i2 j2 k2 n_'); s_, s2 = Consts('s_ s2', StV.sort()); y_, y2 = Consts('y_ y2', SyV.sort())
W.axioms += [ForAll([n_], And(numof(numvar(n_)) == n_, numvar(n_) != NONEOB), patterns=[numvar(n_)])]
def variable_ctor(eng, e, st):
    a = eng.ev(e.args[0], st)
    if a.t is TInt: return Sym(Ob, numvar(a.term))
    raise Unsupported('Variable(...) of something else than an int')
W.ctors['Variable'] = variable_ctor

# ------------------------------------------------------------------ specification
def conv(c): return c._conversions
def cell(c, i, j, k):
    t = conv(c); return Select(L3.get(Sym(L3, Select(L2.get(Sym(L2, Select(L1.get(t, 'at').term, i)), 'at').term, j)), 'at').term, k)
def var(ct): return Cell.get(Sym(Cell, ct), '_1').term
def flag(ct): return Cell.get(Sym(Cell, ct), '_0').term
def row(c, i): return Sym(L2, Select(L1.get(conv(c), 'at').term, i))
def col(c, i, j): return Sym(L3, Select(L2.get(row(c, i), 'at').term, j))
def N(c): return L1.get(conv(c), 'len').term
def M(c): return L2.get(row(c, 0), 'len').term          # second dimension of the table: the length of its first row (every row has it: RECT)
def valid(c, i, j, k): return And(0 <= i, i < N(c), 0 <= j, j < M(c), 0 <= k, k < N(c))
def dS(c, s): return Select(MapSt.get(c._inverse_states_d, 'dom').term, s)
def vS(c, s): return Select(MapSt.get(c._inverse_states_d, 'val').term, s)
def dY(c, y): return Select(MapSy.get(c._inverse_stack_symbol_d, 'dom').term, y)
def vY(c, y): return Select(MapSy.get(c._inverse_stack_symbol_d, 'val').term, y)
def INV_S(c):
    return And(c._counter_state.term >= 0,
               ForAll([s_], Implies(dS(c, s_), And(0 <= vS(c, s_), vS(c, s_) < c._counter_state.term)), patterns=[dS(c, s_)]),
               ForAll([s_, s2], Implies(And(dS(c, s_), dS(c, s2), vS(c, s_) == vS(c, s2)), s_ == s2), patterns=[MultiPattern(dS(c, s_), dS(c, s2))]))
def INV_Y(c):
    return And(c._counter_symbol.term >= 0,
               ForAll([y_], Implies(dY(c, y_), And(0 <= vY(c, y_), vY(c, y_) < c._counter_symbol.term)), patterns=[dY(c, y_)]),
               ForAll([y_, y2], Implies(And(dY(c, y_), dY(c, y2), vY(c, y_) == vY(c, y2)), y_ == y2), patterns=[MultiPattern(dY(c, y_), dY(c, y2))]))
def RECT(c):
    return And(N(c) >= 0, M(c) >= 0,
               ForAll([i_], Implies(And(0 <= i_, i_ < N(c)), L2.get(row(c, i_), 'len').term == M(c)), patterns=[row(c, i_).term]),
               ForAll([i_, j_], Implies(And(0 <= i_, i_ < N(c), 0 <= j_, j_ < M(c)), L3.get(col(c, i_, j_), 'len').term == N(c)), patterns=[col(c, i_, j_).term]))
def INV_C(c):
    return And(c._counter.term >= 0,
               ForAll([i_, j_, k_], Implies(And(valid(c, i_, j_, k_), var(cell(c, i_, j_, k_)) != NONEOB),
                                            And(0 <= numof(var(cell(c, i_, j_, k_))), numof(var(cell(c, i_, j_, k_))) < c._counter.term, var(cell(c, i_, j_, k_)) == numvar(numof(var(cell(c, i_, j_, k_)))))),
                      patterns=[cell(c, i_, j_, k_)]),
               ForAll([i_, j_, k_, i2, j2, k2], Implies(And(valid(c, i_, j_, k_), valid(c, i2, j2, k2), var(cell(c, i_, j_, k_)) != NONEOB, var(cell(c, i_, j_, k_)) == var(cell(c, i2, j2, k2))),
                                                        And(i_ == i2, j_ == j2, k_ == k2)), patterns=[MultiPattern(cell(c, i_, j_, k_), cell(c, i2, j2, k2))]))
def INV(c): return And(INV_S(c), INV_Y(c), RECT(c), INV_C(c))
def same_indexes(a, b): return And(a._inverse_states_d == b._inverse_states_d, a._counter_state == b._counter_state, a._inverse_stack_symbol_d == b._inverse_stack_symbol_d, a._counter_symbol == b._counter_symbol)
def same_table(a, b): return And(a._conversions == b._conversions, a._counter == b._counter)
def others_unchanged(a, b, i, j, k):
    """every cell but (i, j, k) is what it was, and the shape of the table is what it was"""
    return And(N(a) == N(b), M(a) == M(b), RECT(b),
               ForAll([i_, j_, k_], Implies(And(valid(a, i_, j_, k_), Not(And(i_ == i, j_ == j, k_ == k))), cell(b, i_, j_, k_) == cell(a, i_, j_, k_)), patterns=[cell(b, i_, j_, k_)]))

# ------------------------------------------------------------------ indices
def set_index_post(dom, val, cnt, INVX):
    def post(o, r, n):
        c, c2 = o.self, n.self; key = o.get(KEYP[INVX]).value.term; newobj = n.get(KEYP[INVX])
        return And(INVX(c2), same_table(c, c2), newobj.value == o.get(KEYP[INVX]).value, newobj.index_cfg_converter.term == val(c2, key), dom(c2, key),
                   If(dom(c, key), same_indexes(c, c2),
                      And(val(c2, key) == cnt(c).term, cnt(c2).term == cnt(c).term + 1)),
                   ForAll([KEYV[INVX]], Implies(dom(c, KEYV[INVX]), And(dom(c2, KEYV[INVX]), val(c2, KEYV[INVX]) == val(c, KEYV[INVX]))), patterns=[dom(c, KEYV[INVX])]),
                   ForAll([KEYV[INVX]], Implies(dom(c2, KEYV[INVX]), Or(dom(c, KEYV[INVX]), KEYV[INVX] == key)), patterns=[dom(c2, KEYV[INVX])]),
                   OTHER[INVX](c, c2))
    return post
KEYP = {INV_S: 'state', INV_Y: 'symbol'}; KEYV = {INV_S: s_, INV_Y: y_}
OTHER = {INV_S: lambda a, b: And(a._inverse_stack_symbol_d == b._inverse_stack_symbol_d, a._counter_symbol == b._counter_symbol),
         INV_Y: lambda a, b: And(a._inverse_states_d == b._inverse_states_d, a._counter_state == b._counter_state)}
for nm, P, OT, dom, val, cnt, INVX in [('state', 'state', StObj, dS, vS, lambda c: c._counter_state, INV_S), ('symbol', 'symbol', SyObj, dY, vY, lambda c: c._counter_symbol, INV_Y)]:
    post = set_index_post(dom, val, cnt, INVX)
    W.contract(Contract(f'CFGVariableConverter._set_index_{nm}', [('self', CONV), (P, OT)], ret=TNone, modifies=('self', P), requires=(lambda I: lambda o: I(o.self))(INVX), ensures=post))
    W.contract(Contract(f'CFGVariableConverter._get_{nm}_index', [('self', CONV), (P, OT)], ret=TInt, modifies=('self', P), requires=(lambda I: lambda o: I(o.self))(INVX),
                        ensures=(lambda post_, val_, P_: lambda o, r, n: And(post_(o, r, n), r.term == val_(n.self, o.get(P_).value.term)))(post, val, P)))
T3 = TTuple(TInt, TInt, TInt)
def registered(c, st0, sy, st1):
    """the two states and the symbol were given to the constructor: their indices are inside the table"""
    return And(dS(c, st0.value.term), dS(c, st1.value.term), dY(c, sy.value.term), vS(c, st0.value.term) < N(c), vS(c, st1.value.term) < N(c), vY(c, sy.value.term) < M(c))
def values_kept(o, n): return And(n.state0.value == o.state0.value, n.state1.value == o.state1.value, n.stack_symbol.value == o.stack_symbol.value)
W.contract(Contract('CFGVariableConverter._get_indexes', [('self', CONV), ('stack_symbol', SyObj), ('state0', StObj), ('state1', StObj)], ret=T3, modifies=('self', 'stack_symbol', 'state0', 'state1'),
    requires=lambda o: And(INV_S(o.self), INV_Y(o.self), registered(o.self, o.state0, o.stack_symbol, o.state1)),
    ensures=lambda o, r, n: And(same_indexes(o.self, n.self), same_table(o.self, n.self), values_kept(o, n),
                                T3.get(r, '_0').term == vY(o.self, o.stack_symbol.value.term), T3.get(r, '_1').term == vS(o.self, o.state0.value.term), T3.get(r, '_2').term == vS(o.self, o.state1.value.term))))

# ------------------------------------------------------------------ cells
def triple(c, o): return vS(c, o.state0.value.term), vY(c, o.stack_symbol.value.term), vS(c, o.state1.value.term)
W.contract(Contract('CFGVariableConverter._create_new_variable', [('self', CONV), ('i_stack_symbol', TInt), ('i_state0', TInt), ('i_state1', TInt), ('prev', Cell), ('value', TNone)], ret=Cell, modifies=('self',),
    requires=lambda o: And(INV(o.self), valid(o.self, o.i_state0.term, o.i_stack_symbol.term, o.i_state1.term),
                           var(cell(o.self, o.i_state0.term, o.i_stack_symbol.term, o.i_state1.term)) == NONEOB),
    ensures=lambda o, r, n: And(INV(n.self), same_indexes(o.self, n.self), r.term == cell(n.self, o.i_state0.term, o.i_stack_symbol.term, o.i_state1.term),
                                var(r.term) == numvar(o.self._counter.term), flag(r.term) == flag(o.prev.term), n.self._counter.term == o.self._counter.term + 1,
                                others_unchanged(o.self, n.self, o.i_state0.term, o.i_stack_symbol.term, o.i_state1.term))))
def get_post(o, r, n):
    i, j, k = triple(o.self, o); old = cell(o.self, i, j, k); new = cell(n.self, i, j, k)
    return And(INV(n.self), same_indexes(o.self, n.self), values_kept(o, n), r.term == var(new), r.term != NONEOB, flag(new) == flag(old),
               Implies(var(old) != NONEOB, And(r.term == var(old), same_table(o.self, n.self))),          # the same triple always gets the same variable
               others_unchanged(o.self, n.self, i, j, k))
SIG = [('self', CONV), ('state0', StObj), ('stack_symbol', SyObj), ('state1', StObj)]
MODS = ('self', 'state0', 'stack_symbol', 'state1')
W.contract(Contract('CFGVariableConverter.to_cfg_combined_variable', SIG, ret=Ob, modifies=MODS,
    requires=lambda o: And(INV(o.self), registered(o.self, o.state0, o.stack_symbol, o.state1)), ensures=get_post))
W.contract(Contract('CFGVariableConverter.set_valid', SIG, ret=TNone, modifies=MODS,
    requires=lambda o: And(INV(o.self), registered(o.self, o.state0, o.stack_symbol, o.state1)),
    ensures=lambda o, r, n: (lambda i, j, k: And(INV(n.self), same_indexes(o.self, n.self), values_kept(o, n), n.self._counter == o.self._counter,
                                                 flag(cell(n.self, i, j, k)) == True, var(cell(n.self, i, j, k)) == var(cell(o.self, i, j, k)),
                                                 others_unchanged(o.self, n.self, i, j, k)))(*triple(o.self, o))))
def valid_get_post(o, r, n):
    i, j, k = triple(o.self, o); old = cell(o.self, i, j, k); new = cell(n.self, i, j, k)
    return And(INV(n.self), same_indexes(o.self, n.self), values_kept(o, n), flag(new) == flag(old), others_unchanged(o.self, n.self, i, j, k),
               If(Not(flag(old)), And(r.term == NONEOB, same_table(o.self, n.self)),
                  And(r.term == var(new), r.term != NONEOB, Implies(var(old) != NONEOB, And(r.term == var(old), same_table(o.self, n.self))))))
W.contract(Contract('CFGVariableConverter.is_valid_and_get', SIG, ret=Ob, modifies=MODS,
    requires=lambda o: And(INV(o.self), registered(o.self, o.state0, o.stack_symbol, o.state1)), ensures=valid_get_post))

W.ground_sorts = ()
W.special = {}
_P = 'pyformlang/pda/cfg_variable_converter.py'
TARGETS = {k: (_P, k) for k in ('CFGVariableConverter._set_index_state', 'CFGVariableConverter._get_state_index', 'CFGVariableConverter._set_index_symbol', 'CFGVariableConverter._get_symbol_index',
                                'CFGVariableConverter._get_indexes', 'CFGVariableConverter._create_new_variable', 'CFGVariableConverter.to_cfg_combined_variable',
                                'CFGVariableConverter.set_valid', 'CFGVariableConverter.is_valid_and_get')}
SMOKE = [
    ('CFGVariableConverter._get_state_index', _P, "        # The index cached on the object may come from another converter\n        self._set_index_state(state)", "        if state.index_cfg_converter is None:\n            self._set_index_state(state)", 'break'),
    ('CFGVariableConverter._get_symbol_index', _P, "        # The index cached on the object may come from another converter\n        self._set_index_symbol(symbol)", "        if symbol.index_cfg_converter is None:\n            self._set_index_symbol(symbol)", 'break'),
    ('CFGVariableConverter._set_index_state', _P, "            self._counter_state += 1\n        state.index", "            pass\n        state.index", 'break'),
    ('CFGVariableConverter._create_new_variable', _P, "        self._counter += 1\n", "", 'break'),
    ('CFGVariableConverter._create_new_variable', _P, "        self._counter += 1\n        self._conversions[i_state0][i_stack_symbol][i_state1] = temp\n", "        self._conversions[i_state0][i_stack_symbol][i_state1] = temp\n        self._counter += 1\n", 'benign'),
    ('CFGVariableConverter._create_new_variable', _P, "self._conversions[i_state0][i_stack_symbol][i_state1] = temp", "self._conversions[i_state1][i_stack_symbol][i_state0] = temp", 'break'),
    ('CFGVariableConverter.to_cfg_combined_variable', _P, "        if prev[1] is None:\n            return self._create_new_variable(\n                i_stack_symbol, i_state0, i_state1, prev)[1]\n        return prev[1]", "        return self._create_new_variable(\n            i_stack_symbol, i_state0, i_state1, prev)[1]", 'break'),
    ('CFGVariableConverter.set_valid', _P, "= (True, prev[1])", "= (True, None)", 'break'),
    ('CFGVariableConverter._get_indexes', _P, "        i_state0 = self._get_state_index(state0)\n        i_stack_symbol = self._get_symbol_index(stack_symbol)\n        i_state1 = self._get_state_index(state1)\n        return", "        i_state0 = self._get_state_index(state1)\n        i_stack_symbol = self._get_symbol_index(stack_symbol)\n        i_state1 = self._get_state_index(state0)\n        return", 'break'),
    ('CFGVariableConverter.is_valid_and_get', _P, "        if not current[0]:\n            return None\n", "", 'break'),
]
