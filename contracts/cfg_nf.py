"""CFG.to_normal_form (C09), shape of the result: every production of the returned grammar has one of the two Chomsky forms.

The function either returns the memoised grammar, or cleans the grammar up and calls itself on the result, or performs the two CNF steps.
Proved (partial correctness, the recursive call through its own contract): the productions of the result all satisfy `cnf_shape`
(A -> B C with two variables, or A -> a with one terminal), i.e. is_normal_form() of the result is True (contracts/cfg_cnf.py), and the memo
field keeps the representation invariant "None, or a grammar whose productions all have that shape".
Uses: the exact postcondition of _get_productions_with_only_single_terminals and the shape postcondition of _decompose_productions
(contracts/cfg_cnf.py), the contract of get_nullable_symbols (contracts/cfg_gen.py).  Nothing is needed from the three clean-up functions.
That the result generates the same language is NOT part of this contract (bounded stand-in).
"""
import ast
from z3 import *
from pyvc.vtypes import *
from pyvc.engine import World, Contract, NS, Unsupported
import contracts.cfg as C
import contracts.cfg_subst as S
import contracts.cfg_cnf as N
import contracts.cfg_gen as GEN

W = World()
Ob, SetOb, SeqOb, Prod, SetProd, BagProd = C.Ob, C.SetOb, C.SeqOb, C.Prod, C.SetProd, C.BagProd
isVar, isEps, InBody, NoEps, head, body, mkprod, EPSOB, GNS = C.isVar, C.isEps, C.InBody, C.NoEps, C.head, C.body, C.mkprod, C.EPSOB, C.GNS
NF = TRec('CFGNF', [('V', SetOb), ('Tm', SetOb), ('S', Ob), ('P', SetProd), ('nf_none', TBool), ('nfP', SetProd)])
for py, f in [('_variables', 'V'), ('_terminals', 'Tm'), ('_start_symbol', 'S'), ('_productions', 'P')]: W.fields[('CFGNF', py)] = f
W.consts['None'] = NONE_SYM
W.axioms += Prod.axioms() + [S.INBODY_DEF, S.NOEPS_DEF, S.INBODY_INTRO, S.RENSEQ_DEF, GEN.ALLIN_DEF, GEN.GN_STEP, isEps(EPSOB), ForAll([S.x], Implies(isEps(S.x), Not(isVar(S.x))))]
W.seq_member = lambda seqterm, xterm: InBody(seqterm, xterm)
W.isinstance_preds['Variable'] = lambda s_: isVar(s_.term)
x, y = Consts('x y', Ob.sort()); pr, q = Consts('pr q', Prod.sort()); k_ = Const('k_', IntSort())
cnf_shape = N.cnf_shape
def cnf_all(P): return ForAll([q], Implies(Select(P, q), cnf_shape(q)), patterns=[Select(P, q)])
# the memo field: None or a grammar; only its productions matter here
cachedV = Function('cachedV', NF.sort(), SetOb.sort()); cachedT = Function('cachedT', NF.sort(), SetOb.sort()); cachedS = Function('cachedS', NF.sort(), Ob.sort())
W.attr_none_tests = {('CFGNF', '_normal_form'): lambda base: base.nf_none.term}
W.fields[('CFGNF', '_normal_form')] = lambda o: NF.make(V=Sym(SetOb, cachedV(o.term)), Tm=Sym(SetOb, cachedT(o.term)), S=Sym(Ob, cachedS(o.term)), P=o.nfP,
                                                       nf_none=Sym(TBool, BoolVal(True)), nfP=SetProd.empty())
W.fields[('CFGNF', '_normal_form', 'set')] = lambda base, val: base.t.update(base.t.update(base, 'nfP', val.P), 'nf_none', Sym(TBool, BoolVal(False)))
def memo_ok(G): return Or(G.nf_none.term, cnf_all(G.nfP.term))
def WF(G): return C.WF(G)
def cfg_ctor(eng, e, st):
    args = {kw.arg: kw.value for kw in e.keywords}
    if e.args or set(args) != {'start_symbol', 'productions'}: raise Unsupported('CFG(...) argument shape')
    S0 = eng.ev(args['start_symbol'], st); Pin = eng.ev(args['productions'], st)
    if Pin.t != SetProd: raise Unsupported('CFG productions that are not a set')
    res = NF.fresh('newcfg'); st.pc.append(And(res.S == S0, res.P == Pin, res.nf_none.term))
    return res
W.ctors['CFG'] = cfg_ctor

# ------------------------------------------------------------------ callees
EMPTYS = K(Ob.sort(), False)
W.contract(Contract('CFGNF.get_nullable_symbols', [('self', NF)], ret=SetOb, ensures=lambda o, r, n: ForAll([x], r[x] == And(x != EPSOB, Select(GNS(o.self.P.term, EMPTYS), x)))))
W.contract(Contract('CFGNF.get_generating_symbols', [('self', NF)], ret=SetOb))
W.contract(Contract('CFGNF.get_reachable_symbols', [('self', NF)], ret=SetOb))
for m in ('remove_useless_symbols', 'remove_epsilon', 'eliminate_unit_productions'):
    W.contract(Contract(f'CFGNF.{m}', [('self', NF)], ret=NF, fresh_result=True, ensures=lambda o, r, n: And(WF(r), r.nf_none.term)))
W.contract(Contract('CFGNF._get_productions_with_only_single_terminals', [('self', NF)], ret=BagProd, requires=lambda o: WF(o.self), ensures=N.post,
                    ghosts={'T2V': S.MapOO, 'USED': SetOb}))
W.contract(Contract('CFGNF._decompose_productions', [('self', NF), ('productions', BagProd)], ret=BagProd,
    requires=lambda o: ForAll([pr], Implies(o.productions[pr] > 0, N.long_vars(pr))),
    ensures=lambda o, r, n: And(N.dp_res(r, o.productions), ForAll([pr], Implies(And(o.productions[pr] > 0, Length(body(pr)) <= 2), r[pr] > 0)))))
Card = Function('Card', SetOb.sort(), IntSort()); W.card = lambda s_: Card(s_.term)

# ------------------------------------------------------------------ to_normal_form
W.contract(Contract('CFGNF.to_normal_form', [('self', NF)], ret=NF, modifies=('self',),
    requires=lambda o: And(WF(o.self), memo_ok(o.self)),
    ensures=lambda o, r, n: And(cnf_all(r.P.term), memo_ok(n.self), n.self.P == o.self.P, n.self.V == o.self.V, n.self.Tm == o.self.Tm, n.self.S == o.self.S),
    locals={'unit_productions': BagProd},
    entry_lemmas=lambda o: [('WF by position', [S.INBODY_DEF, S.NOEPS_DEF, S.INBODY_INTRO], S.WF_POS(o.self))],
    at={'new_productions = self._get_productions_with_only_single_terminals()': {'lemmas': lambda e: [
            # this branch is reached with no nullable symbol and no unit production:
            ForAll([pr], Implies(e.self.P[pr], Not(And(Length(body(pr)) == 1, isVar(body(pr)[0]))))),                       # no unit production
            ForAll([pr], Implies(And(e.self.P[pr], Length(body(pr)) == 0), Select(GNS(e.self.P.term, EMPTYS), head(pr)))),     # the head of an epsilon production would be nullable
            ForAll([pr], Implies(e.self.P[pr], Length(body(pr)) > 0))]},                                                    # hence no epsilon production
        'new_productions = self._decompose_productions(new_productions)': {'lemmas': lambda e: [
            # what the first step returns: a body of two or more symbols holds variables only (terminals were replaced, the other symbols are variables by WF)
            (lambda M: ForAll([pr, k_], Implies(And(e.self.P[pr], 0 <= k_, k_ < Length(body(pr))), isVar(S.ren(M, body(pr)[k_])))))(e.get('$ghost._get_productions_with_only_single_terminals.T2V')),
            (lambda M: ForAll([pr, k_], Implies(And(e.self.P[pr], 0 <= k_, k_ < Length(body(pr))), isVar(S.RenSeq(M.term, body(pr))[k_]))))(e.get('$ghost._get_productions_with_only_single_terminals.T2V')),
            ForAll([pr], Implies(e.new_productions[pr] > 0, N.long_vars(pr))),
            # and a production of at most two symbols already has one of the two forms
            ForAll([pr], Implies(And(e.new_productions[pr] > 0, Length(body(pr)) <= 2), cnf_shape(pr)))]},
        'cfg = CFG(start_symbol=self._start_symbol': {'lemmas': lambda e: [ForAll([pr], Implies(e.new_productions[pr] > 0, cnf_shape(pr)))]}}))

W.ground_sorts = (Ob.sort(),)
W.special = {}
_P = 'pyformlang/cfg/cfg.py'
TARGETS = {'CFGNF.to_normal_form': (_P, 'CFG.to_normal_form')}
VERIFIED_ELSEWHERE = {'CFGNF.get_nullable_symbols': 'contracts.cfg_gen', 'CFGNF._get_productions_with_only_single_terminals': 'contracts.cfg_cnf', 'CFGNF._decompose_productions': 'contracts.cfg_cnf (shape)'}
SMOKE = [
    ('CFGNF.to_normal_form', _P, "        new_productions = self._decompose_productions(new_productions)\n", "", 'break'),
    ('CFGNF.to_normal_form', _P, "        if (len(nullables) != 0 or len(unit_productions) != 0 or", "        if (len(nullables) != 0 or", 'break'),
    ('CFGNF.to_normal_form', _P, "            cfg = new_cfg.to_normal_form()\n            self._normal_form = cfg\n            return cfg", "            cfg = new_cfg.to_normal_form()\n            self._normal_form = new_cfg\n            return cfg", 'break'),
]
