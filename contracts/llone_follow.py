"""LLOneParser.get_follow_set (C14): the FOLLOW table is the textbook least fixpoint, relative to the FIRST table it is given.

Spec: FW(P, S, first) : symbol -> set, the least table with
   (W1) $ in FW[S];
   (W2) for a production A -> X_0 ... X_n and a position i:  FSP(first, X_{i+1} ... X_n) minus epsilon  inside FW[X_i];
   (W3) for a production A -> X_0 ... X_n and a position i such that every X_j, j > i, has epsilon in first[X_j]:  FW[A] inside FW[X_i].
Proved for get_follow_set: it returns exactly FW, given the contracts of _initialize_follow_set (the table holding exactly the W1 / W2
contributions, and a queue holding every symbol with a non-empty entry - proved below) and of
_get_triggers_follow_set (proved in contracts/llone.py: head -> exactly the X_i of W3).
Argument: every entry is inside FW; W1 and W2 hold from the start and entries only grow; W3 holds for every A that is not queued; a symbol
whose entry grows is queued; at exit nothing is queued, the table is closed, and the induction principle of the least table applies.
"$" is modelled as one more symbol value END.
"""
import ast
from z3 import *
from pyvc.vtypes import *
from pyvc.engine import World, Contract, NS, Unsupported
import contracts.cfg as C
import contracts.llone as L
import contracts.llone_table as T
import contracts.llone_first as FI

W = World()
Ob, SetOb, SeqOb, Prod, SetProd, CFGT = C.Ob, C.SetOb, C.SeqOb, C.Prod, C.SetProd, C.CFGT
head, body, InBody, EPSOB = C.head, C.body, C.InBody, L.EPSOB
MapOS, LLP, FSP, F, TN, SQ = L.MapOS, L.LLP, T.FSP, L.F, L.TN, FI.SQ
MapOSet = L.MapOSet                                # triggers: head -> set of components
W.axioms += Prod.axioms() + [L.INBODY_DEF, T.FSP_DEF]
W.consts['None'] = NONE_SYM
for key_, f_ in C.W.fields.items(): W.fields[key_] = f_
W.ctors['Epsilon'] = lambda eng, e, st: Sym(Ob, EPSOB)
END = Const('END_MARKER', Ob.sort()); W.consts['str:$'] = Sym(Ob, END); W.axioms.append(END != EPSOB)
x, y, X_, A_, B_ = Consts('x y X_ A_ B_', Ob.sort()); pr = Const('pr', Prod.sort()); i_ = Const('i_', IntSort()); S1, S2 = Consts('S1 S2', SetOb.sort())
Card = FI.Card; W.card = lambda s: Card(s.term)
W.axioms.append(ForAll([S1, S2], Implies(And(ForAll([x], Implies(Select(S1, x), Select(S2, x))), Card(S1) == Card(S2)), ForAll([x], Implies(Select(S2, x), Select(S1, x)))), patterns=[MultiPattern(Card(S1), Card(S2))]))
W.ctors['SetQueue'] = FI.W.ctors['SetQueue']
for k_ in ('SetQueue.append', 'SetQueue.pop', 'SetQueue.__bool__'): W.contracts[k_] = FI.W.contracts[k_]

P_ = Const('P_', SetProd.sort()); S_ = Const('S_', Ob.sort()); fst = Const('fst', MapOS.sort())
sqv = Const('sqv', SeqOb.sort()); iv = Const('iv', IntSort())
Suf = Function('Suffix', SeqOb.sort(), IntSort(), SeqOb.sort())          # b[i+1:], named so that quantified clauses have a clean trigger (no arithmetic, no seq.extract)
SUF_DEF = ForAll([sqv, iv], Suf(sqv, iv) == SubSeq(sqv, iv + 1, Length(sqv) - (iv + 1)), patterns=[Suf(sqv, iv)])
def suffix(b, i): return Suf(b, i)
FWD = Function('FOLLOW_table', SetProd.sort(), Ob.sort(), MapOS.sort(), MapOS.sort())          # the least table, as a dictionary
DIRECT = Function('FOLLOW_direct', SetProd.sort(), Ob.sort(), MapOS.sort(), Ob.sort(), SetOb.sort())          # W1 and W2: what goes into FOLLOW[X] without propagation
DIRECT_DEF = ForAll([P_, S_, fst, X_, x], Select(DIRECT(P_, S_, fst, X_), x) ==
                    Or(And(X_ == S_, x == END),
                       Exists([pr, i_], And(Select(P_, pr), 0 <= i_, i_ < Length(body(pr)), body(pr)[i_] == X_, x != EPSOB, Select(FSP(fst, suffix(body(pr), i_)), x)))))
def direct(P, S, first, d):
    """W1 and W2 for the dictionary d"""
    return ForAll([X_, x], Implies(Select(DIRECT(P, S, first, X_), x), Select(F(Sym(MapOS, d), X_), x)))
def flows(P, first, d, ready=lambda a: BoolVal(True)):
    """W3 for the dictionary d (for the heads that satisfy `ready`)"""
    D = Sym(MapOS, d)
    dval = MapOS.get(D, 'val').term
    return ForAll([pr, i_, x], Implies(And(Select(P, pr), 0 <= i_, i_ < Length(body(pr)), TN(first, body(pr), i_), ready(head(pr)), Select(F(D, head(pr)), x)), Select(F(D, body(pr)[i_]), x)),
                  patterns=[MultiPattern(TN(first, body(pr), i_), Select(Select(dval, head(pr)), x))])
def closed(P, S, first, d): return And(direct(P, S, first, d), flows(P, first, d))
W.axioms.append(ForAll([P_, S_, fst], closed(P_, S_, fst, FWD(P_, S_, fst))))
def fw_induction(P, S, first, d):
    return Implies(closed(P, S, first, d), ForAll([X_, x], Implies(Select(F(Sym(MapOS, FWD(P, S, first)), X_), x), Select(F(Sym(MapOS, d), X_), x))))

# ------------------------------------------------------------------ callees
def G_(e): return e.self._cfg
FIRST_T = T.FIRST_T
W.contract(Contract('LLOneParser.get_first_set', [('self', LLP)], ret=MapOS, pure=lambda o: Sym(MapOS, FIRST_T(o.self._cfg.term))))          # any table: FOLLOW is specified relative to it
def tf_all(G, first, TG): return L.tf_spec(TG, first, lambda p_: G.P[p_], lambda p_, kk: G.P[p_])
W.contract(Contract('LLOneParser._get_triggers_follow_set', [('self', LLP), ('first_set', MapOS)], ret=MapOSet, ensures=lambda o, r, n: tf_all(o.self._cfg, o.first_set, r)))
def sound(G, first, fw): return ForAll([X_, x], Implies(Select(F(fw, X_), x), Select(F(Sym(MapOS, FWD(G.P.term, G.S.term, first.term)), X_), x)))
def queued_nonempty(fw, Q): return ForAll([X_, x], Implies(Select(F(fw, X_), x), Or(Select(Q, X_), BoolVal(False))))
RET = TTuple(MapOS, SQ)
def init_post(o, r, n):
    G, first = o.self._cfg, o.first_set; fw, Q = RET.get(r, '_0'), RET.get(r, '_1').Q.term
    return And(sound(G, first, fw), direct(G.P.term, G.S.term, first.term, fw.term),
               ForAll([X_, x], Implies(Select(F(fw, X_), x), Select(Q, X_))))                     # every symbol with a non-empty entry is queued
j_, m_ = L.j_, L.m_
def nul_at(first, b, j): return Select(F(first, b[j]), EPSOB)
def pre_(first, b, k): return ForAll([m_], Implies(And(0 <= m_, m_ < k), nul_at(first, b, m_)))
ACC = Function('AccFirst', MapOS.sort(), SeqOb.sort(), IntSort(), SetOb.sort())          # union of first[beta[j]] for j < k
kv, kv2 = Consts('kv kv2', IntSort())
ACC_DEF = ForAll([fst, sqv, kv, x], Select(ACC(fst, sqv, kv), x) == Exists([j_], And(0 <= j_, j_ < kv, Select(F(Sym(MapOS, fst), sqv[j_]), x))))
ACC_ZERO = ForAll([fst, sqv, x], Not(Select(ACC(fst, sqv, 0), x)))
ACC_STEP = ForAll([fst, sqv, kv, kv2, x], Implies(And(0 <= kv, kv2 == kv + 1), Select(ACC(fst, sqv, kv2), x) == Or(Select(ACC(fst, sqv, kv), x), Select(F(Sym(MapOS, fst), sqv[kv]), x))),
                  patterns=[MultiPattern(Select(ACC(fst, sqv, kv2), x), ACC(fst, sqv, kv))])
def Pre(first, b, k): return pre_(Sym(MapOS, first) if not isinstance(first, Sym) else first, b, k)
# how the scan ends, in terms of ACC: (E1) every symbol nullable; (E2) stopped at the first non-nullable symbol, which was still added
ACC_ALL = ForAll([fst, sqv, x], Implies(And(pre_(Sym(MapOS, fst), sqv, Length(sqv)), x != EPSOB), Select(FSP(fst, sqv), x) == Select(ACC(fst, sqv, Length(sqv)), x)),
                 patterns=[MultiPattern(Select(FSP(fst, sqv), x), ACC(fst, sqv, Length(sqv)))])
ACC_BRK = ForAll([fst, sqv, kv, kv2, x], Implies(And(0 <= kv, kv < Length(sqv), kv2 == kv + 1, pre_(Sym(MapOS, fst), sqv, kv), Not(nul_at(Sym(MapOS, fst), sqv, kv)), x != EPSOB),
                                                 Select(FSP(fst, sqv), x) == Select(ACC(fst, sqv, kv2), x)),
                 patterns=[MultiPattern(Select(FSP(fst, sqv), x), ACC(fst, sqv, kv2), ACC(fst, sqv, kv))])
ACC_LEMMAS = [('nothing accumulated before the scan', [ACC_DEF], ACC_ZERO), ('one more symbol accumulated', [ACC_DEF], ACC_STEP),
              ('scan to the end: FSP without epsilon is what was accumulated', [ACC_DEF, T.FSP_DEF], ACC_ALL),
              ('scan stopped at a non-nullable symbol: FSP without epsilon is what was accumulated', [ACC_DEF, T.FSP_DEF], ACC_BRK)]
def in_direct(G, first, fw, comp=None):
    """every entry is a direct contribution (W1 / W2), except - while the suffix of `comp` is being scanned - epsilon in the entry of comp"""
    exc = (lambda X, xx: BoolVal(False)) if comp is None else (lambda X, xx: And(X == comp, xx == EPSOB))
    return ForAll([X_, x], Implies(Select(F(fw, X_), x), Or(Select(DIRECT(G.P.term, G.S.term, first.term, X_), x), exc(X_, x))))
def w2_done(G, first, fw, cov):
    """W2 for the covered (production, position) pairs"""
    return ForAll([pr, i_, x], Implies(And(cov(pr, i_), 0 <= i_, i_ < Length(body(pr)), x != EPSOB, Select(FSP(first.term, suffix(body(pr), i_)), x)), Select(F(fw, body(pr)[i_]), x)))
def queued(fw, Q, comp=None):
    return ForAll([X_, x], Implies(And(Select(F(fw, X_), x), (X_ != comp) if comp is not None else BoolVal(True)), Select(Q, X_)))
def init_inv(e, cov, comp=None):
    G = G_(e); first = e.first_set; fw = e.follow_set; Q = e.to_process.Q.term
    return And(Select(F(fw, G.S.term), END), in_direct(G, first, fw, comp), w2_done(G, first, fw, cov), queued(fw, Q, comp))
def scan_inv(e, k):
    """loop over body[i+1:]: the first k symbols of the suffix are all nullable and their FIRST entries have been added to the entry of `component`"""
    G = G_(e); first = e.first_set; b = body(e.production.term); i = e.i.term; comp = e.component.term; beta = suffix(b, i); fw0 = e.get('$g.FW0')
    return And(G.P[e.production.term], 0 <= i, i < Length(b), comp == b[i], beta == SubSeq(b, i + 1, Length(b) - (i + 1)), pre_(first, beta, k.term),
               ForAll([x], Select(F(e.follow_set, comp), x) == Or(Select(F(fw0, comp), x), Select(ACC(first.term, beta, k.term), x))),
               ForAll([X_, x], Implies(X_ != comp, Select(F(e.follow_set, X_), x) == Select(F(fw0, X_), x))),
               Not(Select(F(fw0, comp), EPSOB)), e.to_process.Q.term == e.get('$g.Q0').Q.term,
               init_inv(NS(dict(e._d, follow_set=fw0)), lambda p_, kk: Or(e.get('$done0')[p_], And(p_ == e.production.term, kk < i))))
def scan_lemmas(e):
    """after the scan of the suffix, whichever way it ended (break at position k, or all of it): the entry of `component` is its old entry plus
    FSP(first, suffix) - epsilon possibly included.  k is only known in the state that left the loop through `break`."""
    first, b, i, comp, fw0 = e.first_set, body(e.production.term), e.i.term, e.component.term, e.get('$g.FW0'); beta = suffix(b, i); n = Length(beta)
    k = e.get('$done0.0.0')
    acc = lambda upto: ForAll([x], Select(F(e.follow_set, comp), x) == Or(Select(F(fw0, comp), x), Select(ACC(first.term, beta, upto), x)))
    fin = lambda upto: ForAll([x], Implies(x != EPSOB, Select(FSP(first.term, beta), x) == Select(ACC(first.term, beta, upto), x)))
    if k is not None: steps = [acc(k.term + 1), pre_(first, beta, k.term), Not(nul_at(first, beta, k.term)), fin(k.term + 1)]          # left through break: positions 0..k added, beta[k] not nullable
    else: steps = [acc(n), pre_(first, beta, n), fin(n)]                                                                           # ran to the end: every symbol of the suffix is nullable
    return steps + [ForAll([x], Implies(x != EPSOB, Select(F(e.follow_set, comp), x) == Or(Select(F(fw0, comp), x), Select(FSP(first.term, beta), x))))]
W.contract(Contract('LLOneParser._initialize_follow_set', [('self', LLP), ('first_set', MapOS)], ret=RET,
    requires=lambda o: o.self._cfg.S.term != EPSOB, ensures=init_post,
    locals={'follow_set': MapOS},
    # the definitions of Suffix and of the direct contributions are given to this function only (get_follow_set does not need them and is slowed down by them)
    entry_lemmas=lambda o: [('definition of Suffix', [SUF_DEF], SUF_DEF), ('definition of the direct contributions', [DIRECT_DEF], DIRECT_DEF)] + ACC_LEMMAS,
    at={'for component_next in production.body[i + 1:]': {'ghost': lambda e: {'FW0': e.follow_set, 'Q0': e.to_process}},
        'follow_set[component] = follow_set.get(component, set()).union(': {'lemmas': lambda e: (lambda first, beta, k: [
            e.component_next.term == beta[k],
            ForAll([x], Select(ACC(first.term, beta, k + 1), x) == Or(Select(ACC(first.term, beta, k), x), Select(F(first, e.component_next.term), x)))])(
                e.first_set, suffix(body(e.production.term), e.i.term), e.get('$done0.0.0').term)},
        'if Epsilon() in follow_set.get(component, set())': {'lemmas': lambda e: scan_lemmas(e)},
        'if follow_set.get(component, set())': {'lemmas': lambda e: [ForAll([X_, x], Implies(And(X_ != e.component.term, Select(F(e.follow_set, X_), x)), Select(e.to_process.Q.term, X_)))]}},
    loop_post_isolated={'0': ([DIRECT_DEF], lambda e: direct(G_(e).P.term, G_(e).S.term, e.first_set.term, e.follow_set.term))},          # all productions covered: W1 and W2 hold
    loops={'0': lambda e, done: And(init_inv(e, lambda p_, kk: done[p_]), ForAll([X_], Not(Select(F(e.follow_set, X_), EPSOB)))),
           '0.0': lambda e, i: And(G_(e).P[e.production.term], init_inv(e, lambda p_, kk: Or(e.get('$done0')[p_], And(p_ == e.production.term, kk < i.term))),
                                   ForAll([X_], Not(Select(F(e.follow_set, X_), EPSOB)))),
           '0.0.0': scan_inv}))

# ------------------------------------------------------------------ get_follow_set
def first_of(e): return Sym(MapOS, FIRST_T(G_(e).term))
def tflows(TG, d, ready):
    """W3 through the trigger table: the entry of a ready head is inside the entries of the symbols it triggers"""
    D = Sym(MapOS, d); dom = MapOSet.get(TG, 'dom').term; val = MapOSet.get(TG, 'val').term
    dval = MapOS.get(D, 'val').term          # trigger: the membership atoms themselves (F(...) is an if-then-else and cannot be a trigger)
    return ForAll([A_, B_, x], Implies(And(Select(dom, A_), Select(Select(val, A_), B_), ready(A_), Select(F(D, A_), x)), Select(F(D, B_), x)),
                  patterns=[MultiPattern(Select(Select(val, A_), B_), Select(Select(dval, A_), x))])
def inv(e, cur=None, done=None):
    G = G_(e); first = first_of(e); fw = e.follow_set; Q = e.to_process.Q.term
    ready = (lambda a: Not(Select(Q, a))) if cur is None else (lambda a: And(Not(Select(Q, a)), a != cur))
    # (facts about `triggers` and `first_set` are not repeated here: neither is modified by the loops, what the callees ensured stays in the context)
    cl = [sound(G, first, fw), direct(G.P.term, G.S.term, first.term, fw.term), tflows(e.triggers, fw.term, ready)]
    if cur is not None:
        # the symbol being processed: its entry has been copied into the entries of the triggered symbols already handled
        cl.append(ForAll([B_, x], Implies(And(done[B_], Select(F(fw, cur), x)), Select(F(fw, B_), x))))
    return And(cl)
old_tab = lambda e: e.get('$g.OLD')
W.contract(Contract('LLOneParser.get_follow_set', [('self', LLP)], ret=MapOS, requires=lambda o: o.self._cfg.S.term != EPSOB,
    ensures=lambda o, r, n: ForAll([X_, x], Select(F(r, X_), x) == Select(F(Sym(MapOS, FWD(o.self._cfg.P.term, o.self._cfg.S.term, FIRST_T(o.self._cfg.term))), X_), x)),
    at={'while to_process': {'lemmas': lambda e: [tflows(e.triggers, FWD(G_(e).P.term, G_(e).S.term, first_of(e).term), lambda a: BoolVal(True))]},   # FOLLOW itself respects the trigger table (W3 + contract of the triggers)
        'length_before = len(': {'ghost': lambda e: {'OLD': e.follow_set}},
        'if length_before != len(follow_set[triggered])': {'lemmas': lambda e: (lambda old, new, t, same: [
            Implies(same, ForAll([x], Select(F(new, t), x) == Select(F(old, t), x))),                          # same cardinality after a union: same set
            Implies(same, ForAll([X_, y], Select(F(new, X_), y) == Select(F(old, X_), y))),                    # so the two tables read the same
            ForAll([X_, y], Implies(Select(F(old, X_), y), Select(F(new, X_), y))),                            # in any case the table only grows,
            ForAll([X_, y], Implies(X_ != t, Select(F(new, X_), y) == Select(F(old, X_), y))),                 # and only at `triggered`
            ForAll([x], Select(F(new, t), x) == Or(Select(F(old, t), x), Select(F(old, e.current.term), x))),   # what the update did
            ForAll([x], Select(F(new, e.current.term), x) == Select(F(old, e.current.term), x)),               # the entry of the symbol being processed is unchanged (also when it is `triggered`)
            sound(G_(e), first_of(e), new),
            direct(G_(e).P.term, G_(e).S.term, first_of(e).term, new.term)])(old_tab(e), e.follow_set, e.triggered.term, e.length_before.term == Card(F(e.follow_set, e.triggered.term)))}},
    loop_post={'0': lambda e: closed(G_(e).P.term, G_(e).S.term, first_of(e).term, e.follow_set.term),
               '0.0': lambda e: tflows(e.triggers, e.follow_set.term, lambda a: a == e.current.term)},          # the symbol just processed now flows into everything it triggers
    hints=lambda o, e, r: [fw_induction(o.self._cfg.P.term, o.self._cfg.S.term, FIRST_T(o.self._cfg.term), r.term)],
    loops={'0': lambda e, done: inv(e),
           '0.0': lambda e, done: inv(e, e.current.term, done)}))

W.ground_sorts = (Ob.sort(),)
W.special = {}
_P = 'pyformlang/cfg/llone_parser.py'
TARGETS = {'LLOneParser.get_follow_set': (_P, 'LLOneParser.get_follow_set'), 'LLOneParser._initialize_follow_set': (_P, 'LLOneParser._initialize_follow_set')}
VERIFIED_ELSEWHERE = {'LLOneParser._get_triggers_follow_set': 'contracts.llone', 'SetQueue.append': 'contracts.setqueue', 'SetQueue.pop': 'contracts.setqueue', 'SetQueue.__bool__': 'contracts.setqueue',
                      'LLOneParser.get_first_set': 'contracts.llone_first (used here as: some table)'}
SMOKE = [
    ('LLOneParser.get_follow_set', _P, "                if length_before != len(follow_set[triggered]):\n                    to_process.append(triggered)", "                if length_before == len(follow_set[triggered]):\n                    to_process.append(triggered)", 'break'),
    ('LLOneParser.get_follow_set', _P, "                ).union(follow_set.get(current, set()))", "                ).union(follow_set.get(triggered, set()))", 'break'),
    ('LLOneParser._initialize_follow_set', _P, "                    if Epsilon() not in first_set.get(component_next,\n                                                      set()):\n                        break", "                    if Epsilon() in first_set.get(component_next,\n                                                  set()):\n                        break", 'break'),
    ('LLOneParser._initialize_follow_set', _P, "                if Epsilon() in follow_set.get(component, set()):\n                    follow_set[component].remove(Epsilon())\n", "", 'break'),
    ('LLOneParser._initialize_follow_set', _P, "                if follow_set.get(component, set()):\n                    to_process.append(component)", "                if not follow_set.get(component, set()):\n                    to_process.append(component)", 'break'),
]
