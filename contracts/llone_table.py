"""LLOneParser.get_llone_parsing_table and is_llone_parsable (C14), relative to the FIRST / FOLLOW tables.

PREDICT(p) for a production p = A -> alpha, given a table `first` of FIRST sets of symbols, a table `follow` of FOLLOW sets and the set N of
nullable symbols:   FSP(first, alpha)                         if some symbol of alpha is not in N,
                    follow[A] + (FSP(first, alpha) - {eps})   if every symbol of alpha is in N,
where FSP is FIRST of a sequence - the function proved for _get_first_set_production in contracts/llone.py (same defining formula).
Proved: table[A][a] lists exactly the productions p with head A and a in PREDICT(p), each once; is_llone_parsable() is True exactly when no
cell holds two productions.  ASSUMED (bounded stand-in only): get_first_set / get_follow_set return the textbook tables, get_nullable_symbols
returns the nullable symbols (that one is proved in contracts/cfg_gen.py).
"""
import ast
from z3 import *
from pyvc.vtypes import *
from pyvc.engine import World, Contract, NS, Unsupported
import contracts.cfg as C
import contracts.llone as L

W = World()
Ob, SetOb, SeqOb, Prod, SetProd, BagProd, CFGT = C.Ob, C.SetOb, C.SeqOb, C.Prod, C.SetProd, C.BagProd, C.CFGT
head, body, InBody, EPSOB = C.head, C.body, C.InBody, L.EPSOB
MapOS = L.MapOS; LLP = L.LLP
W.axioms += Prod.axioms() + [L.INBODY_DEF]
W.consts['None'] = NONE_SYM
for key_, f_ in C.W.fields.items(): W.fields[key_] = f_
W.seq_member = lambda seqterm, xterm: InBody(seqterm, xterm)
W.ctors['Epsilon'] = lambda eng, e, st: Sym(Ob, EPSOB)
x, y, A_, a_ = Consts('x y A_ a_', Ob.sort()); pr, q = Consts('pr q', Prod.sort()); j_, m_ = L.j_, L.m_
Cell = BagProd; Row = TMap(Ob, Cell); Table = TMap(Ob, Row)
fsm = Const('fsm', MapOS.sort()); sq = Const('sq', SeqOb.sort())
FSP = Function('FSP', MapOS.sort(), SeqOb.sort(), SetOb.sort())                     # FIRST of a sequence, relative to a table
FSP_DEF = ForAll([fsm, sq, x], Select(FSP(fsm, sq), x) == And(Exists([j_], And(0 <= j_, j_ < Length(sq), L.pre(Sym(MapOS, fsm), sq, j_), Select(L.F(Sym(MapOS, fsm), sq[j_]), x))),
                                                              Or(x != EPSOB, L.pre(Sym(MapOS, fsm), sq, Length(sq)))))
# the three callees: FIRST-of-a-sequence (proved in contracts/llone.py with exactly FSP_DEF as its postcondition), the two fixpoints (assumed: any tables)
W.contract(Contract('LLOneParser._get_first_set_production', [('self', LLP), ('production', Prod), ('first_set', MapOS)], ret=SetOb,
                    pure=lambda o: Sym(SetOb, FSP(o.first_set.term, body(o.production.term)))))
FIRST_T = Function('first_table', CFGT.sort(), MapOS.sort()); FOLLOW_T = Function('follow_table', CFGT.sort(), MapOS.sort()); NULL_S = Function('nullable_set', CFGT.sort(), SetOb.sort())
W.contract(Contract('LLOneParser.get_first_set', [('self', LLP)], ret=MapOS, pure=lambda o: Sym(MapOS, FIRST_T(o.self._cfg.term))))
W.contract(Contract('LLOneParser.get_follow_set', [('self', LLP)], ret=MapOS, pure=lambda o: Sym(MapOS, FOLLOW_T(o.self._cfg.term))))
W.contract(Contract('CFG.get_nullable_symbols', [('self', CFGT)], ret=SetOb, pure=lambda o: Sym(SetOb, NULL_S(o.self.term))))
def all_null(G, p_): return ForAll([x], Implies(InBody(body(p_), x), Select(NULL_S(G.term), x)))
def predict(G, p_, a):
    fsp = Select(FSP(FIRST_T(G.term), body(p_)), a); fol = Select(L.F(Sym(MapOS, FOLLOW_T(G.term)), head(p_)), a)
    return If(all_null(G, p_), Or(fol, And(fsp, a != EPSOB)), fsp)
def tdom(T, A): return Select(Table.get(T, 'dom').term, A)
def trow(T, A): return Sym(Row, Select(Table.get(T, 'val').term, A))
def rdom(T, A, a): return And(tdom(T, A), Select(Row.get(trow(T, A), 'dom').term, a))
def cell(T, A, a, p_): return Select(Select(Row.get(trow(T, A), 'val').term, a), p_)
def table_ok(T, cov):
    """cov(p, a): the pairs already entered.  Every cell lists exactly the covered productions of its row and column, each once."""
    return And(ForAll([A_, a_, pr], Implies(rdom(T, A_, a_), And(cell(T, A_, a_, pr) >= 0, cell(T, A_, a_, pr) <= 1))),
               ForAll([A_, a_, pr], Implies(And(rdom(T, A_, a_), cell(T, A_, a_, pr) > 0), And(cov(pr, a_), head(pr) == A_))),
               ForAll([pr, a_], Implies(cov(pr, a_), And(rdom(T, head(pr), a_), cell(T, head(pr), a_, pr) > 0))))
def split_ok(e, done):
    G = e.self._cfg
    return And(ForAll([pr], e.nullable_productions[pr] >= 0), ForAll([pr], e.non_nullable_productions[pr] >= 0),
               ForAll([pr], And(e.nullable_productions[pr] <= 1, e.non_nullable_productions[pr] <= 1)),
               ForAll([pr], (e.nullable_productions[pr] > 0) == And(done[pr], all_null(G, pr))),
               ForAll([pr], (e.non_nullable_productions[pr] > 0) == And(done[pr], Not(all_null(G, pr)))))
def G_(e): return e.self._cfg
def cov1(e, done, cur=None):
    """nullable productions entered so far (done: bag of those processed; cur = (production, set of columns already entered))"""
    G = G_(e)
    return lambda p_, a: Or(And(done[p_] > 0, predict(G, p_, a)), (And(p_ == cur[0], cur[1](a)) if cur else BoolVal(False)))
def cov2(e, done, cur=None):
    G = G_(e)
    return lambda p_, a: Or(And(G.P[p_], all_null(G, p_), predict(G, p_, a)), And(done[p_] > 0, predict(G, p_, a)), (And(p_ == cur[0], cur[1](a)) if cur else BoolVal(False)))
def facts(e):
    G = G_(e)
    return And(e.first_set.term == FIRST_T(G.term), e.follow_set.term == FOLLOW_T(G.term), e.nullables.term == NULL_S(G.term),
               ForAll([pr], And(e.nullable_productions[pr] >= 0, e.nullable_productions[pr] <= 1, e.non_nullable_productions[pr] >= 0, e.non_nullable_productions[pr] <= 1)),
               ForAll([pr], (e.nullable_productions[pr] > 0) == And(G.P[pr], all_null(G, pr))),
               ForAll([pr], (e.non_nullable_productions[pr] > 0) == And(G.P[pr], Not(all_null(G, pr)))))
def firsts_is(e, extra_done=None):
    """firsts = FOLLOW(head) + the non-epsilon members of FSP already copied"""
    G = G_(e); p_ = e.production.term
    fol = lambda a: Select(L.F(Sym(MapOS, FOLLOW_T(G.term)), head(p_)), a)
    return ForAll([a_], e.firsts[a_] == Or(fol(a_), And(extra_done(a_), a_ != EPSOB)))
W.contract(Contract('LLOneParser.get_llone_parsing_table', [('self', LLP)], ret=Table,
    ensures=lambda o, r, n: table_ok(r, lambda p_, a: And(o.self._cfg.P[p_], predict(o.self._cfg, p_, a))),
    locals={'nullable_productions': BagProd, 'non_nullable_productions': BagProd, 'llone_parsing_table': Table},
    loops={'0': split_ok,
           '1': lambda e, done: And(facts(e), table_ok(e.llone_parsing_table, cov1(e, done))),
           '1.0': lambda e, done: And(facts(e), e.nullable_productions[e.production.term] > 0, e.get('$done1')[e.production.term] < e.nullable_productions[e.production.term],
                                      tdom(e.llone_parsing_table, head(e.production.term)), table_ok(e.llone_parsing_table, cov1(e, e.get('$done1'))),
                                      firsts_is(e, lambda a: done[a])),
           '1.1': lambda e, done: And(facts(e), e.nullable_productions[e.production.term] > 0, e.get('$done1')[e.production.term] < e.nullable_productions[e.production.term],
                                      tdom(e.llone_parsing_table, head(e.production.term)),
                                      ForAll([a_], e.firsts[a_] == predict(G_(e), e.production.term, a_)),
                                      table_ok(e.llone_parsing_table, cov1(e, e.get('$done1'), (e.production.term, lambda a: done[a])))),
           '2': lambda e, done: And(facts(e), table_ok(e.llone_parsing_table, cov2(e, done))),
           '2.0': lambda e, done: And(facts(e), e.non_nullable_productions[e.production.term] > 0, e.get('$done2')[e.production.term] < e.non_nullable_productions[e.production.term],
                                      tdom(e.llone_parsing_table, head(e.production.term)),
                                      table_ok(e.llone_parsing_table, cov2(e, e.get('$done2'), (e.production.term, lambda a: done[a]))))}))

# ------------------------------------------------------------------ is_llone_parsable
def full_table(o, T): return table_ok(T, lambda p_, a: And(o.self._cfg.P[p_], predict(o.self._cfg, p_, a)))
def conflict(G, A, a, p1, p2): return And(G.P[p1], G.P[p2], p1 != p2, head(p1) == A, head(p2) == A, predict(G, p1, a), predict(G, p2, a))
p1_, p2_ = Consts('p1_ p2_', Prod.sort())
W.contract(Contract('LLOneParser.is_llone_parsable', [('self', LLP)], ret=TBool,
    ensures=lambda o, r, n: r.term == Not(Exists([A_, a_, p1_, p2_], conflict(o.self._cfg, A_, a_, p1_, p2_))),
    loops={'0': lambda e, done: And(full_table(e, e.parsing_table),
                                    ForAll([A_, a_, p1_, p2_], Implies(And(done[A_], rdom(e.parsing_table, A_, a_), cell(e.parsing_table, A_, a_, p1_) > 0, cell(e.parsing_table, A_, a_, p2_) > 0), p1_ == p2_))),
           '0.0': lambda e, done: And(full_table(e, e.parsing_table), tdom(e.parsing_table, e.get('$key0').term), e.variable.term == trow(e.parsing_table, e.get('$key0').term).term,
                                      ForAll([A_, a_, p1_, p2_], Implies(And(Or(e.get('$done0')[A_], And(A_ == e.get('$key0').term, done[a_])),
                                                                             rdom(e.parsing_table, A_, a_), cell(e.parsing_table, A_, a_, p1_) > 0, cell(e.parsing_table, A_, a_, p2_) > 0), p1_ == p2_)))}))

W.ground_sorts = (Ob.sort(),)
W.special = {}
_P = 'pyformlang/cfg/llone_parser.py'
TARGETS = {'LLOneParser.get_llone_parsing_table': (_P, 'LLOneParser.get_llone_parsing_table'), 'LLOneParser.is_llone_parsable': (_P, 'LLOneParser.is_llone_parsable')}
VERIFIED_ELSEWHERE = {'LLOneParser._get_first_set_production': 'contracts.llone (postcondition = FSP_DEF)', 'CFG.get_nullable_symbols': 'contracts.cfg_gen (CFGGen.get_nullable_symbols)'}
SMOKE = [
    ('LLOneParser.get_llone_parsing_table', _P, "                if first != Epsilon():\n                    firsts.add(first)", "                firsts.add(first)", 'break'),
    ('LLOneParser.get_llone_parsing_table', _P, "            firsts = set(follow_set.get(production.head, set()))", "            firsts = set(first_set.get(production.head, set()))", 'break'),
    ('LLOneParser.get_llone_parsing_table', _P, "            if all(x in nullables for x in production.body):", "            if any(x in nullables for x in production.body):", 'break'),
    ('LLOneParser.is_llone_parsable', _P, "                if len(terminal) > 1:", "                if len(terminal) > 2:", 'break'),
]
