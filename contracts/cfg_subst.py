"""CFG.substitute and the four operations built on it: union, concatenate, get_closure, get_positive_closure (C10).

Proved for substitute: the result consists of one renamed copy of the productions of the host grammar, in which every substituted terminal
t is replaced by the (renamed) start symbol of substitution[t], and one renamed copy of the productions of every substituted grammar -
nothing else - under renamings R0 (host) and G[t] (grammar substituted for t) that are injective and have pairwise disjoint ranges,
whatever names the operands use and also when two operands are the same object.  R0 and G are ghost results: G records, per substituted
terminal, the dictionary `new_variables_d_local` that the code forgets after each iteration.
union / concatenate / get_closure / get_positive_closure are proved to call substitute with the template grammar of the textbook
construction.  That this structure generates the substituted language is the substitution theorem for context-free languages
(Hopcroft-Motwani-Ullman Thm 7.23), assumed.
Strings: Variable(str(v.value) + "#SUBS#" + str(idx)) is an uninterpreted function of (v, idx) whose idx can be read back (the text after
the last "#SUBS#" is the decimal idx) - assumed.
"""
import ast
from z3 import *
from pyvc.vtypes import *
from pyvc.engine import World, Contract, NS, Unsupported
import contracts.cfg as C

W = World()
Ob, SetOb, SeqOb, Prod, SetProd, BagProd, CFGT = C.Ob, C.SetOb, C.SeqOb, C.Prod, C.SetProd, C.BagProd, C.CFGT
isVar, isEps, InBody, NoEps, Filt, head, body, mkprod = C.isVar, C.isEps, C.InBody, C.NoEps, C.Filt, C.head, C.body, C.mkprod
for key_, f_ in C.W.fields.items(): W.fields[key_] = f_
W.consts['None'] = NONE_SYM
W.axioms += Prod.axioms()
x, y, t_, t2, v_, w_, w2 = Consts('x y t_ t2 v_ w_ w2', Ob.sort()); pr, q = Consts('pr q', Prod.sort()); sq = Const('sq', SeqOb.sort()); k_, i_ = Consts('k_ i_', IntSort())
INBODY_DEF = ForAll([sq, x], InBody(sq, x) == Exists([k_], And(0 <= k_, k_ < Length(sq), sq[k_] == x)))
NOEPS_DEF = ForAll([sq], NoEps(sq) == ForAll([x], Implies(InBody(sq, x), Not(isEps(x)))))
INBODY_INTRO = ForAll([sq, k_], Implies(And(0 <= k_, k_ < Length(sq)), InBody(sq, sq[k_])))
W.axioms += [INBODY_DEF, NOEPS_DEF, INBODY_INTRO, ForAll([x], Implies(isEps(x), Not(isVar(x)))), ForAll([sq], Implies(NoEps(sq), Filt(sq) == sq))]
W.derived = [('InBody introduction', [INBODY_DEF], INBODY_INTRO)]
W.seq_member = lambda seqterm, xterm: InBody(seqterm, xterm)
W.seq_literals = {Ob}
W.isinstance_preds['Variable'] = lambda s: isVar(s.term)

MapOO = TMap(Ob, Ob); MapOM = TMap(Ob, MapOO); SubstT = TMap(Ob, CFGT)
def mdom(m, k): return Select(m.t.get(m, 'dom').term, k)
def mval(m, k): return Select(m.t.get(m, 'val').term, k)
def sub_at(S, t): return Sym(CFGT, mval(S, t))                       # substitution[t]
def g_at(G, t): return Sym(MapOO, mval(G, t))                        # the renaming used for substitution[t]

# ------------------------------------------------------------------ names
nv = Function('subs_name', Ob.sort(), IntSort(), Ob.sort())          # Variable(str(v.value) + "#SUBS#" + str(idx))
idxof = Function('subs_index', Ob.sort(), IntSort())
W.axioms += [ForAll([x, i_], isVar(nv(x, i_))), ForAll([x, i_], idxof(nv(x, i_)) == i_)]
NAMED = {}; CONST_FACTS = []
def named(kind, text):
    """Variable("#STARTUNION#"), Terminal("#0UNION#"): one constant per (class, text)"""
    if (kind, text) not in NAMED:
        c = Const(f'{kind}_{text.strip("#")}', Ob.sort()); NAMED[(kind, text)] = c
        W.axioms.append(isVar(c) if kind == 'Variable' else And(Not(isVar(c)), Not(isEps(c)))); CONST_FACTS.append(W.axioms[-1])
        same = [d for (k2, t2_), d in NAMED.items() if k2 == kind and t2_ != text]
        for d in same: W.axioms.append(c != d)                         # different texts: different values
    return NAMED[(kind, text)]
def variable_ctor(eng, e, st):
    a = e.args[0] if len(e.args) == 1 else None
    if isinstance(a, ast.Constant) and isinstance(a.value, str): return Sym(Ob, named('Variable', a.value))
    # str(<v>.value) + SUBS_SUFFIX + str(<idx>)
    if isinstance(a, ast.BinOp) and isinstance(a.op, ast.Add) and isinstance(a.left, ast.BinOp) and isinstance(a.left.op, ast.Add) \
            and isinstance(a.left.right, ast.Name) and a.left.right.id == 'SUBS_SUFFIX' \
            and isinstance(a.left.left, ast.Call) and getattr(a.left.left.func, 'id', None) == 'str' and isinstance(a.left.left.args[0], ast.Attribute) and a.left.left.args[0].attr == 'value' \
            and isinstance(a.right, ast.Call) and getattr(a.right.func, 'id', None) == 'str':
        v = eng.ev(a.left.left.args[0].value, st); i = eng.ev(a.right.args[0], st)
        if v.t == Ob and i.t is TInt: return Sym(Ob, nv(v.term, i.term))
    raise Unsupported('Variable(...) with a non-modelled argument')
def terminal_ctor(eng, e, st):
    a = e.args[0] if len(e.args) == 1 else None
    if isinstance(a, ast.Constant) and isinstance(a.value, str): return Sym(Ob, named('Terminal', a.value))
    raise Unsupported('Terminal(...) with a non-modelled argument')
W.ctors['Variable'] = variable_ctor; W.ctors['Terminal'] = terminal_ctor
def production_ctor(eng, e, st):
    h = eng.ev(e.args[0], st)
    b = SeqOb.empty() if eng.is_empty_literal(e.args[1]) else eng.ev(e.args[1], st)
    if b.t != SeqOb: raise Unsupported('Production body that is not a sequence')
    return Prod.make(head=h, body=Sym(SeqOb, Filt(b.term)))
W.ctors['Production'] = production_ctor
W.ctors['CFG'] = C.cfg_ctor

# ------------------------------------------------------------------ specification
def WFX(G):
    """WF plus its by-position form (entry lemma)"""
    return And(C.WF(G), WF_POS(G))
def WF_POS(G):
    return ForAll([pr, k_], Implies(And(G.P[pr], 0 <= k_, k_ < Length(body(pr))),
                                    And(Not(isEps(body(pr)[k_])), If(isVar(body(pr)[k_]), G.V[body(pr)[k_]], G.Tm[body(pr)[k_]]))))
def ren(m, xx): return If(mdom(m, xx), mval(m, xx), xx)               # new_variables_d_local.get(x, x)
def sig0(R0, fr, xx): return If(mdom(R0, xx), mval(R0, xx), If(mdom(fr, xx), mval(fr, xx), xx))
mm, m2 = Consts('mm m2', MapOO.sort()); sq2 = Const('sq2', SeqOb.sort())
RenSeq = Function('RenSeq', MapOO.sort(), SeqOb.sort(), SeqOb.sort())                   # [m.get(x, x) for x in s]
SigSeq = Function('SigSeq', MapOO.sort(), MapOO.sort(), SeqOb.sort(), SeqOb.sort())     # host bodies: variables renamed by R0, substituted terminals replaced
RENSEQ_DEF = ForAll([mm, sq], And(Length(RenSeq(mm, sq)) == Length(sq),
                                  ForAll([k_], Implies(And(0 <= k_, k_ < Length(sq)), RenSeq(mm, sq)[k_] == ren(Sym(MapOO, mm), sq[k_])))))
SIGSEQ_DEF = ForAll([mm, m2, sq], And(Length(SigSeq(mm, m2, sq)) == Length(sq),
                                      ForAll([k_], Implies(And(0 <= k_, k_ < Length(sq)), SigSeq(mm, m2, sq)[k_] == sig0(Sym(MapOO, mm), Sym(MapOO, m2), sq[k_])))))
# sequence extensionality (valid in the theory of sequences; the solver does not apply it by itself)
SEQ_EXT = ForAll([sq, sq2], Implies(And(Length(sq) == Length(sq2), ForAll([k_], Implies(And(0 <= k_, k_ < Length(sq)), sq[k_] == sq2[k_]))), sq == sq2))
def ext_instance(a_, b_):
    """the instance of SEQ_EXT for two given sequences (the solver does not find it from the quantified form)"""
    return Implies(And(Length(a_) == Length(b_), ForAll([k_], Implies(And(0 <= k_, k_ < Length(a_)), a_[k_] == b_[k_]))), a_ == b_)
W.axioms += [RENSEQ_DEF, SIGSEQ_DEF]
def copy_t(p_, m): return mkprod(mval(m, head(p_)), RenSeq(m.term, body(p_)))                       # production p_ renamed by dictionary m
def copy_0(p_, R0, fr): return mkprod(mval(R0, head(p_)), SigSeq(R0.term, fr.term, body(p_)))
def names_ok(R0, doneV, G, doneT, S, idx, local=None, localV=None):
    """R0 names the variables in doneV, G[t] those of substitution[t] for t in doneT (and `local` those in localV): all names are variables,
    carry an index below idx, and no two of them are equal"""
    below = (lambda n_: And(idxof(n_) < idx, idxof(n_) >= 0)) if idx is not None else (lambda n_: BoolVal(True))
    cl = [ForAll([v_], mdom(R0, v_) == doneV(v_)),
          ForAll([v_], Implies(doneV(v_), And(isVar(mval(R0, v_)), below(mval(R0, v_))))),
          ForAll([v_, w_], Implies(And(doneV(v_), doneV(w_), mval(R0, v_) == mval(R0, w_)), v_ == w_)),
          ForAll([t_], mdom(G, t_) == doneT(t_)),
          ForAll([t_, w_], Implies(doneT(t_), mdom(g_at(G, t_), w_) == sub_at(S, t_).V[w_])),
          ForAll([t_, w_], Implies(And(doneT(t_), sub_at(S, t_).V[w_]), And(isVar(mval(g_at(G, t_), w_)), below(mval(g_at(G, t_), w_))))),
          ForAll([t_, t2, w_, w2], Implies(And(doneT(t_), doneT(t2), sub_at(S, t_).V[w_], sub_at(S, t2).V[w2], mval(g_at(G, t_), w_) == mval(g_at(G, t2), w2)), And(t_ == t2, w_ == w2))),
          ForAll([t_, w_, v_], Implies(And(doneT(t_), sub_at(S, t_).V[w_], doneV(v_)), mval(g_at(G, t_), w_) != mval(R0, v_)))]
    if local is not None:
        cl += [ForAll([w_], mdom(local, w_) == localV(w_)),
               ForAll([w_], Implies(localV(w_), And(isVar(mval(local, w_)), below(mval(local, w_))))),
               ForAll([w_, w2], Implies(And(localV(w_), localV(w2), mval(local, w_) == mval(local, w2)), w_ == w2)),
               ForAll([w_, v_], Implies(And(localV(w_), doneV(v_)), mval(local, w_) != mval(R0, v_))),
               ForAll([t_, w_, w2], Implies(And(doneT(t_), sub_at(S, t_).V[w_], localV(w2)), mval(g_at(G, t_), w_) != mval(local, w2)))]
    return And(cl)
def prods_ok(inP, S, G, doneT, cur=None, self_part=None, pat=None):
    """membership predicate inP holds exactly of the renamed copies: of the productions of substitution[t], t in doneT; of those covered by
    cur = (local dictionary, covered) for the grammar in progress; of those covered by self_part = (R0, fr, covered)"""
    alts = lambda q_: [Exists([t_, pr], And(doneT(t_), sub_at(S, t_).P[pr], q_ == copy_t(pr, g_at(G, t_))), patterns=[sub_at(S, t_).P[pr]])] \
        + ([Exists([pr], And(cur[1](pr), q_ == copy_t(pr, cur[0])), patterns=[head(pr)])] if cur else []) \
        + ([Exists([pr], And(self_part[2](pr), q_ == copy_0(pr, self_part[0], self_part[1])), patterns=[head(pr)])] if self_part else [])
    cl = [ForAll([q], Implies(inP(q), Or(alts(q))), patterns=[pat(q) if pat else inP(q)]),      # trigger: the membership term itself, never a comparison
          ForAll([t_, pr], Implies(And(doneT(t_), sub_at(S, t_).P[pr]), inP(copy_t(pr, g_at(G, t_)))), patterns=[sub_at(S, t_).P[pr]])]
    if cur: cl.append(ForAll([pr], Implies(cur[1](pr), inP(copy_t(pr, cur[0]))), patterns=[cur[1](pr)]))
    if self_part: cl.append(ForAll([pr], Implies(self_part[2](pr), inP(copy_0(pr, self_part[0], self_part[1]))), patterns=[self_part[2](pr)]))
    return And(cl)
def fr_ok(fr, S, G, doneT):
    return And(ForAll([t_], mdom(fr, t_) == doneT(t_)), ForAll([t_], Implies(doneT(t_), mval(fr, t_) == mval(g_at(G, t_), sub_at(S, t_).S.term))))

def subst_pre(o):
    S = o.substitution
    return And(C.WF(o.self), ForAll([t_], Implies(mdom(S, t_), C.WF(sub_at(S, t_)))))
def subst_post(o, r, n, g):
    A, S, R0, G, FR = o.self, o.substitution, g.R0, g.G, g.FR
    inS = lambda t: mdom(S, t)
    return And(names_ok(R0, lambda v: A.V[v], G, inS, S, None),
               fr_ok(FR, S, G, inS),                                   # FR[t] is the renamed start symbol of substitution[t]
               r.S == mval(R0, A.S.term),
               prods_ok(lambda q_: r.P[q_], S, G, inS, None, (R0, FR, lambda p_: A.P[p_])))

def inv0(e, done):
    return And(e.idx.term >= 0, names_ok(e.new_variables_d, lambda v: done[v], e.get('$g.G'), lambda t: BoolVal(False), e.substitution, e.idx.term),
               ForAll([x], e.new_vars[x] == Exists([v_], And(done[v_], mval(e.new_variables_d, v_) == x))))
def common1(e, doneT, local=None, localV=None):
    return And(e.idx.term >= 0, names_ok(e.new_variables_d, lambda v: e.self.V[v], e.get('$g.G'), doneT, e.substitution, e.idx.term, local, localV))
def inv1(e, done):
    dT = lambda t: done[t]
    return And(common1(e, dT), prods_ok(lambda q_: e.productions[q_] > 0, e.substitution, e.get('$g.G'), dT, pat=lambda q_: e.productions[q_]), ForAll([q], e.productions[q] >= 0),
               fr_ok(e.final_replacement, e.substitution, e.get('$g.G'), dT))
def cur_cfg(e): return e.cfg
def inv10(e, done):
    dT = lambda t: e.get('$done1')[t]
    return And(common1(e, dT, e.new_variables_d_local, lambda w: done[w]),
               prods_ok(lambda q_: e.productions[q_] > 0, e.substitution, e.get('$g.G'), dT, pat=lambda q_: e.productions[q_]), ForAll([q], e.productions[q] >= 0),
               fr_ok(e.final_replacement, e.substitution, e.get('$g.G'), dT))
def inv11(e, done, inner=None):
    dT = lambda t: e.get('$done1')[t]
    return And(common1(e, dT, e.new_variables_d_local, lambda w: e.cfg.V[w]),
               prods_ok(lambda q_: e.productions[q_] > 0, e.substitution, e.get('$g.G'), dT, (e.new_variables_d_local, lambda p_: done[p_]), pat=lambda q_: e.productions[q_]),
               ForAll([q], e.productions[q] >= 0),
               fr_ok(e.final_replacement, e.substitution, e.get('$g.G'), dT))
def inv110(e, i):
    b = body(e.production.term)
    return And(Length(e.body.term) == i.term,          # nothing but `body` changes in this loop: the facts of the enclosing iteration stay in the context
               ForAll([k_], Implies(And(0 <= k_, k_ < i.term), And(e.body.term[k_] == ren(e.new_variables_d_local, b[k_]), Not(isEps(e.body.term[k_]))))))
def inv2(e, done):
    dT = lambda t: mdom(e.substitution, t)
    return And(common1(e, dT), ForAll([q], e.productions[q] >= 0),
               prods_ok(lambda q_: e.productions[q_] > 0, e.substitution, e.get('$g.G'), dT, None, (e.new_variables_d, e.final_replacement, lambda p_: done[p_]), pat=lambda q_: e.productions[q_]),
               fr_ok(e.final_replacement, e.substitution, e.get('$g.G'), dT))
def inv20(e, i):
    b = body(e.production.term)
    return And(Length(e.body.term) == i.term,
               ForAll([k_], Implies(And(0 <= k_, k_ < i.term), And(e.body.term[k_] == sig0(e.new_variables_d, e.final_replacement, b[k_]), Not(isEps(e.body.term[k_]))))))

W.contract(Contract('CFG.substitute', [('self', CFGT), ('substitution', SubstT)], ret=CFGT, fresh_result=True, requires=subst_pre, ensures=subst_post,
    locals={'new_variables_d': MapOO, 'new_vars': SetOb, 'productions': BagProd, 'final_replacement': MapOO, 'new_variables_d_local': MapOO, 'body': SeqOb},
    ghost_state={'G': (MapOM, lambda o: MapOM.make(dom=SetOb.empty(), val=MapOM.ftype('val').fresh('G0')))},
    ghost_updates={'1': lambda e: {'G': MapOM.make(dom=Sym(SetOb, Store(MapOM.get(e.get('$g.G'), 'dom').term, e.ter.term, True)),
                                                   val=Sym(MapOM.ftype('val'), Store(MapOM.get(e.get('$g.G'), 'val').term, e.ter.term, e.new_variables_d_local.term)))}},
    ghosts={'R0': MapOO, 'G': MapOM, 'FR': MapOO}, ghost_witness=lambda o, e: {'R0': e.new_variables_d, 'G': e.get('$g.G'), 'FR': e.final_replacement},
    entry_lemmas=lambda o: [('WF by position (host)', [INBODY_DEF, NOEPS_DEF, INBODY_INTRO], WF_POS(o.self)),
                            ('WF by position (substituted grammars)', [INBODY_DEF, NOEPS_DEF, INBODY_INTRO], ForAll([t_], Implies(mdom(o.substitution, t_), WF_POS(sub_at(o.substitution, t_)))))],
    loop_post_isolated={'1.1.0': (lambda e: [RENSEQ_DEF, ext_instance(e.body.term, RenSeq(e.new_variables_d_local.term, body(e.production.term))), INBODY_DEF, NOEPS_DEF],
                                  lambda e: And(e.body.term == RenSeq(e.new_variables_d_local.term, body(e.production.term)), NoEps(e.body.term))),
                        '2.0': (lambda e: [SIGSEQ_DEF, ext_instance(e.body.term, SigSeq(e.new_variables_d.term, e.final_replacement.term, body(e.production.term))), INBODY_DEF, NOEPS_DEF],
                                lambda e: And(e.body.term == SigSeq(e.new_variables_d.term, e.final_replacement.term, body(e.production.term)), NoEps(e.body.term)))},
    loops={'0': inv0, '1': inv1, '1.0': inv10, '1.1': inv11, '1.1.0': inv110, '2': inv2, '2.0': inv20}))

W.contract(Contract('CFG.is_empty', [('self', CFGT)], ret=TBool))          # no postcondition needed here: lets an edit that tests emptiness stay inside the subset

# ------------------------------------------------------------------ union, concatenate, get_closure, get_positive_closure
# Each is proved to be `template.substitute({placeholder: operand, ...})` for the template grammar written below: the postcondition says that
# there are a template T of exactly that shape and renamings (R0, G, FR) such that the postcondition of substitute holds for T and the operands.
def dict_of(pairs):
    """the value of the dict literal {k1: v1, ...} (as the engine evaluates it)"""
    dom = SetOb.empty().term; val = K(Ob.sort(), Const(f'absent!{CFGT.name}', CFGT.sort()))
    for k, v in pairs: dom = Store(dom, k, True); val = Store(val, k, v.term)
    return SubstT.make(dom=Sym(SetOb, dom), val=Sym(SubstT.ftype('val'), val))
def seq_of(*els):
    if not els: return Empty(SeqOb.sort())
    if isinstance(els[0], (list, tuple)): els = tuple(els[0])
    if not els: return Empty(SeqOb.sort())
    t = Unit(els[0])
    for e_ in els[1:]: t = Concat(t, Unit(e_))
    return t
EMPTY = Empty(SeqOb.sort())
def template_is(T, start, variables, terminals, prods):
    return And(T.S == start, ForAll([x], T.V[x] == Or([x == v for v in variables])), ForAll([x], T.Tm[x] == Or([x == t for t in terminals])),
               ForAll([pr], T.P[pr] == Or([pr == mkprod(h, seq_of(b)) for h, b in prods])))
def op_contract(name, params, template, subst, alias=None):
    """template(o) -> (start, variables, terminals, productions); subst(o) -> [(placeholder, operand)]"""
    def post(o, r, n, g):
        st_, vs_, ts_, ps_ = template()
        return And(template_is(g.T, st_, vs_, ts_, ps_), subst_post(NS({'self': g.T, 'substitution': dict_of(subst(o))}), r, None, g))
    W.contract(Contract(name, params, ret=CFGT, fresh_result=True, requires=lambda o: And([C.WF(o.get(p)) for p, _ in params]), ensures=post,
        entry_lemmas=lambda o: [(f'literal body {i}: its members', [INBODY_DEF], ForAll([x], InBody(seq_of(b_), x) == Or([x == el for el in b_] or [BoolVal(False)])))
                                for i, (h_, b_) in enumerate(template()[3])]
                             + [(f'literal body {i} holds no epsilon object', [INBODY_DEF, NOEPS_DEF, ForAll([x], Implies(isEps(x), Not(isVar(x))))] + CONST_FACTS, NoEps(seq_of(b_)))
                                for i, (h_, b_) in enumerate(template()[3])],
        ghosts={'T': CFGT, 'R0': MapOO, 'G': MapOM, 'FR': MapOO},
        ghost_witness=lambda o, e: {'T': e.cfg_temp, 'R0': e.get('$ghost.substitute.R0'), 'G': e.get('$ghost.substitute.G'), 'FR': e.get('$ghost.substitute.FR')}))
    if alias:          # the operator form: a one-line delegation with the same postcondition (ghosts handed through)
        m = name.split('.')[-1]
        W.contract(Contract(alias, params, ret=CFGT, fresh_result=True, requires=lambda o: And([C.WF(o.get(p)) for p, _ in params]), ensures=post,
            ghosts={'T': CFGT, 'R0': MapOO, 'G': MapOM, 'FR': MapOO},
            ghost_witness=lambda o, e: {k: e.get(f'$ghost.{m}.{k}') for k in ('T', 'R0', 'G', 'FR')}))
V_, T_ = (lambda s_: named('Variable', s_)), (lambda s_: named('Terminal', s_))
op_contract('CFG.union', [('self', CFGT), ('other', CFGT)],
            lambda: (V_('#STARTUNION#'), [V_('#STARTUNION#')], [T_('#0UNION#'), T_('#1UNION#')],
                     [(V_('#STARTUNION#'), [T_('#0UNION#')]), (V_('#STARTUNION#'), [T_('#1UNION#')])]),
            lambda o: [(T_('#0UNION#'), o.self), (T_('#1UNION#'), o.other)], alias='CFG.__or__')
op_contract('CFG.concatenate', [('self', CFGT), ('other', CFGT)],
            lambda: (V_('#STARTCONC#'), [V_('#STARTCONC#')], [T_('#0CONC#'), T_('#1CONC#')], [(V_('#STARTCONC#'), [T_('#0CONC#'), T_('#1CONC#')])]),
            lambda o: [(T_('#0CONC#'), o.self), (T_('#1CONC#'), o.other)], alias='CFG.__add__')
op_contract('CFG.get_closure', [('self', CFGT)],
            lambda: (V_('#STARTCLOS#'), [V_('#STARTCLOS#')], [T_('#1CLOS#')],
                     [(V_('#STARTCLOS#'), [T_('#1CLOS#')]), (V_('#STARTCLOS#'), [V_('#STARTCLOS#'), V_('#STARTCLOS#')]), (V_('#STARTCLOS#'), [])]),
            lambda o: [(T_('#1CLOS#'), o.self)])
op_contract('CFG.get_positive_closure', [('self', CFGT)],
            lambda: (V_('#STARTPOSCLOS#'), [V_('#STARTPOSCLOS#'), V_('#VARPOSCLOS#')], [T_('#1POSCLOS#')],
                     [(V_('#STARTPOSCLOS#'), [T_('#1POSCLOS#'), V_('#VARPOSCLOS#')]), (V_('#VARPOSCLOS#'), [V_('#VARPOSCLOS#'), V_('#VARPOSCLOS#')]),
                      (V_('#VARPOSCLOS#'), [T_('#1POSCLOS#')]), (V_('#VARPOSCLOS#'), [])]),
            lambda o: [(T_('#1POSCLOS#'), o.self)])

W.ground_sorts = (Ob.sort(),)
W.special = {}
_P = 'pyformlang/cfg/cfg.py'
TARGETS = {k: (_P, k) for k in ('CFG.substitute', 'CFG.union', 'CFG.concatenate', 'CFG.get_closure', 'CFG.get_positive_closure', 'CFG.__or__', 'CFG.__add__')}
SMOKE = [
    ('CFG.substitute', _P, "                new_variables_d_local[variable] = temp\n                new_vars.add(temp)\n                idx += 1", "                new_variables_d_local[variable] = temp\n                new_vars.add(temp)", 'break'),
    ('CFG.substitute', _P, "                elif cfgobj in final_replacement:\n                    body.append(final_replacement[cfgobj])", "                elif cfgobj in final_replacement:\n                    body.append(cfgobj)", 'break'),
    ('CFG.substitute', _P, "            final_replacement[ter] = new_variables_d_local[cfg.start_symbol]", "            final_replacement[ter] = new_variables_d_local[production.head]", 'break'),
    ('CFG.union', _P, "        return cfg_temp.substitute({temp_0: self,\n                                    temp_1: other})\n\n    def __or__", "        return cfg_temp.substitute({temp_0: self,\n                                    temp_1: self})\n\n    def __or__", 'break'),
    ('CFG.concatenate', _P, "        production0 = Production(start_temp, [temp_0, temp_1])", "        production0 = Production(start_temp, [temp_1, temp_0])", 'break'),
    ('CFG.get_closure', _P, "                       {production0, production1, production2})\n        return cfg_temp.substitute({temp_1: self})\n\n    def get_positive_closure", "                       {production0, production1})\n        return cfg_temp.substitute({temp_1: self})\n\n    def get_positive_closure", 'break'),
    ('CFG.get_positive_closure', _P, "        production0 = Production(start_temp, [temp_1, var_temp])", "        production0 = Production(start_temp, [var_temp])", 'break'),
]
