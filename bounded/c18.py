"""C18 bounded stand-in: unification is the glb (order independent); FCFG membership respects unification."""
import random, itertools, json
from specs import fs as S, cfg as C
from bounded import cfg_gen as G


def fail(check, detail): return {'check': check, 'detail': str(detail)[:500]}


def cases(tier, seed):
    rng = random.Random(seed * 2741 + 9)
    n = 4000 if tier == 'quick' else 40000
    for i in range(n):
        yield {'kind': 'unify', 'A': S.random_spec(rng), 'B': S.random_spec(rng)}
    for i in range(n // 2):
        yield {'kind': 'unify-chain', 'A': S.random_spec(rng), 'B': S.random_spec(rng), 'C': S.random_spec(rng), 'D': S.random_spec(rng)}
    for g, origin in G.grammars(tier, seed, n_random=1200, exhaustive_prods=2):
        if g[1] and all(isinstance(s[1], str) for h, b in g[1] for s in (h,) + b):
            yield {'kind': 'plain', 'G': C.to_json(g)}
    for i in range(1500 if tier == 'quick' else 15000):
        g = C.random_grammar(rng, ['S', 'A', 'B'][:rng.choice([2, 3])], ['a', 'b'], 3, rng.choice([2, 3, 4, 5]))
        ann = {}
        for k, (h, b) in enumerate(sorted(g[1], key=repr)):
            occ = [h] + [s for s in b]
            ann[k] = [rng.choice(['sg', 'pl', None, None, '?x', '?x', '?y']) if C.is_var(s) else None for s in occ]
        yield {'kind': 'features', 'G': C.to_json(g), 'ann': ann}


def spec_of(j):
    """JSON round trip turns ('var', x) into a list"""
    if isinstance(j, dict): return {k: spec_of(v) for k, v in j.items()}
    if isinstance(j, list): return ('var', j[1])
    return j


def check_unify(case):
    from pyformlang.fcfg.feature_structure import FeatureStructuresNotCompatibleException
    A, B = spec_of(case['A']), spec_of(case['B']); fails = []
    dA, dB = S.describe_spec(A), S.describe_spec(B)
    try: exp = S.canon(S.unify_descriptions(dA, dB)); ok = True
    except S.Conflict: ok = False
    results = []
    for first, second, tag in ((A, B, 'a.unify(b)'), (B, A, 'b.unify(a)')):
        x, y = S.build(first), S.build(second)
        try:
            x.unify(y); results.append(S.describe_object(x))
            if not ok: fails.append(fail('C18.unify.accepts-conflict', f'{tag} succeeded on {json.dumps(case["A"])} / {json.dumps(case["B"])}'))
            elif results[-1] != exp: fails.append(fail('C18.unify.glb', f'{tag}: {results[-1]} expected {exp}'))
        except FeatureStructuresNotCompatibleException:
            results.append(None)
            if ok: fails.append(fail('C18.unify.refuses-compatible', f'{tag} raised on compatible structures'))
        except Exception as ex:
            results.append('exc'); fails.append(fail('C18.unify:exception', f'{tag}: {type(ex).__name__}: {ex}'))
    if len(results) == 2 and results[0] != results[1] and not fails: fails.append(fail('C18.unify.order', f'{results[0]} vs {results[1]}'))
    return fails, ok and bool(dA['share'] or dB['share'] or len(dA['paths']) > 3), 1


def check_chain(case):
    """a.unify(b); a.unify(c); a.unify(d): every intermediate result is the glb of what was unified so far, a refused step leaves an error only"""
    from pyformlang.fcfg.feature_structure import FeatureStructuresNotCompatibleException
    specs = [spec_of(case[k]) for k in 'ABCD']; fails = []
    x = S.build(specs[0]); cur = S.describe_spec(specs[0]); steps = 0
    for k, sp in zip('BCD', specs[1:]):
        try: nxt = S.unify_descriptions(cur, S.describe_spec(sp)); ok = True
        except S.Conflict: ok = False
        try:
            x.unify(S.build(sp))
            if not ok: fails.append(fail('C18.unify.accepts-conflict', f'step {k} of a chain succeeded: {json.dumps(case)[:300]}')); break
        except FeatureStructuresNotCompatibleException:
            if ok: fails.append(fail('C18.unify.refuses-compatible', f'step {k} of a chain raised: {json.dumps(case)[:300]}'))
            break
        except Exception as ex:
            fails.append(fail('C18.unify:exception', f'step {k}: {type(ex).__name__}: {ex}')); break
        cur = nxt; steps += 1
        got = S.describe_object(x)
        if got != S.canon(cur): fails.append(fail('C18.unify.glb', f'after step {k} of a chain: {got} expected {S.canon(cur)}')); break
    return fails, steps >= 2, 1


def build_fcfg(g, ann=None):
    from pyformlang.fcfg import FCFG, FeatureProduction, FeatureStructure
    from pyformlang.cfg import Variable, Terminal
    def obj(s): return Variable(s[1]) if C.is_var(s) else Terminal(s[1])
    prods = set()
    for k, (h, b) in enumerate(sorted(g[1], key=repr)):
        a = (ann or {}).get(str(k)) or (ann or {}).get(k) or [None] * (1 + len(b))
        variables = {}
        def fs(v):
            if v is None: return FeatureStructure()
            return S.build({'n': ('var', v) if v.startswith('?') else v}, variables)
        prods.add(FeatureProduction(obj(h), [obj(s) for s in b], fs(a[0]), [fs(x) for x in a[1:]]))
    return FCFG(start_symbol=Variable(g[0][1]), productions=prods)


def instantiate(g, ann):
    D = ['sg', 'pl']; prods = []
    for k, (h, b) in enumerate(sorted(g[1], key=repr)):
        a = ann.get(str(k)) or ann.get(k)
        occ = [h] + list(b)
        slots = []          # per occurrence: constant, variable name, or a fresh independent choice
        free = 0
        for s, v in zip(occ, a):
            if not C.is_var(s): slots.append(('t',))
            elif v is None: slots.append(('free', free)); free += 1
            elif v.startswith('?'): slots.append(('var', v))
            else: slots.append(('const', v))
        names = sorted({s[1] for s in slots if s[0] in ('var', 'free')}, key=repr)
        for choice in itertools.product(D, repeat=len(names)):
            env = dict(zip(names, choice))
            def inst(s, slot):
                if slot[0] == 't': return s
                d = slot[1] if slot[0] == 'const' else env[slot[1]]
                return C.V((s[1], d))
            prods.append((inst(occ[0], slots[0]), tuple(inst(s, sl) for s, sl in zip(occ[1:], slots[1:]))))
    start = C.V('#start')
    for d in D: prods.append((start, (C.V((g[0][1], d)),)))
    return C.mk(start, prods)


def check(case):
    if case['kind'] == 'unify': return check_unify(case)
    if case['kind'] == 'unify-chain': return check_chain(case)
    g = C.from_json(case['G']); fails = []; n = 3
    ts = sorted({t[1] for t in C.terminals(g)})
    W = [w for k in range(n + 1) for w in itertools.product(ts + ['#zz'], repeat=k)]
    if case['kind'] == 'plain':
        lang = C.lang(g, n); f = build_fcfg(g); plain = C.build(g)
        for w in W:
            try: got = f.contains(list(w))
            except Exception as ex: fails.append(fail('C18.fcfg.contains:exception', f'{list(w)}: {type(ex).__name__}: {ex}')); break
            if bool(got) != (w in lang): fails.append(fail('C18.fcfg.contains[feature-free]', f'{list(w)}: {got}, CFG derivability: {w in lang}')); break
            if bool(got) != bool(plain.contains(list(w))): fails.append(fail('C18.fcfg.agrees-with-cfg', f'{list(w)}: FCFG {got}, CFG.contains {plain.contains(list(w))}')); break
        return fails, G.nontrivial(g), 1
    inst = instantiate(g, case['ann']); lang = C.lang(inst, n)
    try: f = build_fcfg(g, case['ann'])
    except Exception as ex: return [fail('C18.harness.build', repr(ex))], False, 1
    for w in W:
        try: got = f.contains(list(w))
        except Exception as ex: fails.append(fail('C18.fcfg.contains:exception', f'{list(w)}: {type(ex).__name__}: {ex}')); break
        if bool(got) != (w in lang): fails.append(fail('C18.fcfg.contains[features]', f'{list(w)}: {got}, instantiated grammar derives it: {w in lang}')); break
    return fails, bool(lang) and any(v for a in case['ann'].values() for v in a), 1
