"""C20 bounded stand-in: networkx round trips (automaton, PDA, FST), CFG text round trip, recursive automata boxes."""
import random, itertools
from specs import fa as F, pda as P, fst as X, cfg as C, regex as RX
from bounded import fa_gen


def fail(check, detail): return {'check': check, 'detail': str(detail)[:500]}

VALUES = ['q0', 'q1', 'a b', 'Q', 7, 0, 'x/y', "it's", 'é', '0']      # JSON-representable, no ' -> ', no ' / ', not an epsilon spelling
SYMS = ['a', 'b', 'A', 'long symbol', 1, 0, 'c/d', '->']
TOK_VARS = ['S', 'A', 'b', 'x1', 'Var', '1st', '_v', '0#CNF#', '(x']          # whitespace-free tokens; lower-case variables need "VAR:"
TOK_TERMS = ['a', 'c', 'T', 'Ta', '0', '+', 'B2']   # capitalised terminals need "TER:"


def cases(tier, seed):
    rng = random.Random(seed * 2011 + 5)
    n = 1200 if tier == 'quick' else 12000
    for i in range(n):
        k = rng.choice([1, 2, 3]); vals = rng.sample(VALUES, k); syms = rng.sample(SYMS, rng.choice([1, 2]))
        R = F.random_enfa(rng, k, syms, eps=rng.random() < 0.6, density=0.3, names=vals)
        yield {'kind': 'fa', 'R': F.to_json(R)}
    for i in range(n):
        Pd = P.random_pda(rng, reserved=0.0)
        ren = dict(zip(['q', 'r', 'p'], rng.sample(VALUES, 3))); sren = dict(zip(['Z', 'A', 'B'], rng.sample(['Z', 'z y', 5, 'X/Y'], 3)))
        inp = dict(zip(['a', 'b'], rng.sample(SYMS, 2)))
        Pd = P.mk(ren[Pd[0]], sren[Pd[1]], [ren[f] for f in Pd[2]], [(ren[p], None if a is None else inp[a], sren[Xs], ren[q], tuple(sren[y] for y in push)) for p, a, Xs, q, push in Pd[3]])
        yield {'kind': 'pda', 'P': P.to_json(Pd)}
    for i in range(n):
        T = X.random_fst(rng, names=tuple(rng.sample(VALUES, 3)))
        inp = dict(zip(['a', 'b'], rng.sample(SYMS, 2))); outp = dict(zip(['x', 'y'], rng.sample(SYMS, 2)))
        T = X.mk(T[0], T[1], [(p, None if a is None else inp[a], q, tuple(outp[o] for o in out)) for p, a, q, out in T[2]])
        yield {'kind': 'fst', 'T': X.to_json(T)}
    for i in range(n):
        vs = ['S'] + rng.sample(TOK_VARS[1:], rng.choice([0, 1, 2])); ts = rng.sample(TOK_TERMS, rng.choice([1, 2, 3]))
        yield {'kind': 'cfg', 'G': C.to_json(C.random_grammar(rng, vs, ts, 3, rng.choice([1, 2, 3, 4])))}
    rng_sv = random.Random(seed * 2999 + 13)
    for i in range(n // 3):
        # a variable and a terminal spelled alike (the VAR: / TER: markers are what tells them apart in the text form)
        vs = ['S'] + rng_sv.sample(['A', 'b', 'x1'], rng_sv.choice([1, 2])); ts = rng_sv.sample(['A', 'b', 'x1', 'a', 'S'], rng_sv.choice([2, 3]))
        yield {'kind': 'cfg', 'G': C.to_json(C.random_grammar(rng_sv, vs, ts, 3, rng_sv.choice([2, 3, 4])))}
    for i in range(n // 2):
        heads = ['S'] + rng.sample(['A', 'B', 'Cc'], rng.choice([0, 1, 2]))
        lines = []
        for h in heads:
            for _ in range(rng.choice([1, 1, 2])):
                lines.append((h, RX.render(RX.random_ast(rng, rng.choice([1, 2]), ['a', 'b', 'A', 'B', 'S']), rng, redundant=0.1) if rng.random() < 0.9 else ''))
        rng.shuffle(lines)
        yield {'kind': 'rsa', 'lines': lines}


def structure_fa(aut): return F.extract(aut)


def check(case):
    fails = []; k = case['kind']
    try:
        if k == 'fa':
            from pyformlang.finite_automaton import EpsilonNFA
            R = F.from_json(case['R']); a = F.build(R); before = F.extract(a)
            back = EpsilonNFA.from_networkx(a.to_networkx()); got = F.extract(back)
            used = {p for p, _, _ in R[4]} | {q for _, _, q in R[4]} | set(R[2]) | set(R[3])
            if (got[2], got[3], got[4]) != (before[2], before[3], before[4]):
                fails.append(fail('C20.fa.networkx', f'{F.to_json(got)} vs {F.to_json(before)}'))
            elif not (used <= set(got[0]) <= set(before[0])): fails.append(fail('C20.fa.networkx.states', f'{sorted(got[0], key=repr)} vs {sorted(before[0], key=repr)}'))
            return fails, len(R[4]) >= 2, 1
        if k == 'pda':
            from pyformlang.pda import PDA
            R = P.from_json(case['P']); a = P.build(R); before = P.extract(a)
            back = PDA.from_networkx(a.to_networkx()); got = P.extract(back)
            if got != before: fails.append(fail('C20.pda.networkx', f'{P.to_json(got)} vs {P.to_json(before)}'))
            return fails, len(R[3]) >= 2, 1
        if k == 'fst':
            from pyformlang.fst import FST
            T = X.from_json(case['T']); a = X.build(T); before = X.extract(a)
            back = FST.from_networkx(a.to_networkx()); got = X.extract(back)
            if (got[0], got[1], sorted(got[2], key=repr)) != (before[0], before[1], sorted(before[2], key=repr)):
                fails.append(fail('C20.fst.networkx', f'{X.to_json(got)} vs {X.to_json(before)}'))
            return fails, len(T[2]) >= 2, 1
        if k == 'cfg':
            from pyformlang.cfg import CFG, Variable
            g = C.from_json(case['G']); obj = C.build(g); text = obj.to_text()
            back = CFG.from_text(text, Variable(g[0][1]))
            L1, L2 = C.lang(g, 4), C.lang(C.extract(back), 4)
            if L1 != L2: fails.append(fail('C20.cfg.text', f'text {text!r}: language differs on {sorted(L1 ^ L2)[:3]}'))
            return fails, bool(L1) and len(g[1]) >= 2, 1
        if k == 'rsa':
            from pyformlang.rsa import RecursiveAutomaton
            from pyformlang.regular_expression import Regex
            lines = [tuple(l) for l in case['lines']]
            text = '\n'.join(f'{h} -> {b}' for h, b in lines)
            try: asts = {}; [asts.setdefault(h, []).append(RX.parse(b) if b.strip() else ('eps',)) for h, b in lines]
            except (RX.IllFormed, RX.OutOfScope): return [], False, 0
            rsa = RecursiveAutomaton.from_ebnf(text)
            if set(s.value for s in rsa.nonterminals) != set(asts): fails.append(fail('C20.rsa.boxes', f'boxes {sorted(s.value for s in rsa.nonterminals)} for heads {sorted(asts)}'))
            syms = sorted(set().union(*[RX.symbols(a) for al in asts.values() for a in al]) | {'#zz'})[:4]
            for h, alts in asts.items():
                box = rsa.get_box_by_nonterminal(h)
                if box is None: fails.append(fail('C20.rsa.boxes', f'no box for {h}')); continue
                for w in [list(w) for n in range(4) for w in itertools.product(syms, repeat=n)]:
                    exp = any(RX.matches(a, w) for a in alts)
                    if bool(box.dfa.accepts(w)) != exp: fails.append(fail('C20.rsa.from_ebnf', f'text {text!r}: box {h} on {w}: {box.dfa.accepts(w)} expected {exp}')); break
            h0, b0 = lines[0]
            if b0.strip():
                r1 = RecursiveAutomaton.from_regex(Regex(b0), 'S'); a0 = RX.parse(b0)
                for w in [list(w) for n in range(4) for w in itertools.product(syms, repeat=n)]:
                    if bool(r1.get_box_by_nonterminal('S').dfa.accepts(w)) != RX.matches(a0, w): fails.append(fail('C20.rsa.from_regex', f'{b0!r} on {w}')); break
                if r1.get_number_boxes() != 1: fails.append(fail('C20.rsa.from_regex', 'more than one box'))
            return fails, len(asts) >= 2, 1
    except Exception as ex:
        import traceback
        return fails + [fail(f'C20.{k}:exception', f'{type(ex).__name__}: {ex} | {traceback.format_exc()[-300:]}')], True, 1
