"""C11 bounded stand-in: intersection of a CFG / PDA with a regular language given as regex, DFA, NFA, eps-NFA."""
import random
from specs import pda as P, cfg as C, fa as F
from bounded import pda_checks as K, cfg_gen as G, fa_gen


def reg(rng):
    kind = rng.choice(['ENFA', 'NFA', 'DFA', 'regex'])
    alpha = rng.choice([['a'], ['a', 'b'], ['b', 'c'], ['a', 'b']])
    if kind == 'DFA': R = F.random_dfa(rng, rng.choice([1, 2, 3]), alpha)
    elif kind == 'NFA': R = F.random_enfa(rng, rng.choice([1, 2, 3]), alpha, eps=False)
    else: R = F.random_enfa(rng, rng.choice([1, 2, 3]), alpha, eps=(rng.random() < 0.6))
    if rng.random() < 0.3:      # a deterministic automaton presented as an EpsilonNFA / NFA object
        R = F.random_dfa(rng, rng.choice([1, 2]), alpha); kind = rng.choice(['ENFA', 'NFA'])
    return kind, fa_gen.rename(R, rng.choice(['int', 'str']))


def cases(tier, seed):
    rng = random.Random(seed * 911 + 7)
    yield {'kind': 'types'}
    pool = [g for g, _ in G.grammars('quick', seed, n_random=500, exhaustive_prods=2) if all(isinstance(s[1], str) for h, b in g[1] for s in (h,) + b)]
    n = 1500 if tier == 'quick' else 15000
    for i in range(n):
        kind, R = reg(rng)
        yield {'kind': 'cfg', 'G': C.to_json(rng.choice(pool)), 'R': F.to_json(R), 'as': kind}
    # terminals that are not lower-case strings (capitalised, ints): the automaton is asked about Terminal.value, not about a rendering of it
    rng3 = random.Random(seed * 104729 + 5)
    for i in range(n // 5):
        kind, R = reg(rng3); ren = rng3.choice([{'a': 'A', 'b': 'Bb', 'c': 'C'}, {'a': 0, 'b': 1, 'c': 2}, {'a': 'A', 'b': 1, 'c': 'c'}])
        if kind == 'regex': ren = {'a': 'A', 'b': 'Bb', 'c': 'C'}          # the symbols of a Regex are texts: an int symbol would come back from to_regex() as its text, another value (my harness, not the library)
        g = rng3.choice(pool); g2 = C.mk(g[0], [(h, tuple(C.T(ren.get(x[1], x[1])) if not C.is_var(x) else x for x in b)) for h, b in g[1]])
        R2 = F.mk(R[0], {ren.get(x, x) for x in R[1]}, R[2], R[3], {(p_, (ren.get(a_, a_) if a_ is not None else None), q_) for p_, a_, q_ in R[4]})
        yield {'kind': 'cfg', 'G': C.to_json(g2), 'R': F.to_json(R2), 'as': kind}
    # the triple-variable converter on its own: many states / symbols (two-digit indices), every triple, twice
    for i in range(6 if tier == 'quick' else 30):
        yield {'kind': 'converter', 'n_states': rng3.choice([2, 5, 11, 13, 14]), 'n_symbols': rng3.choice([1, 2, 3, 11, 12]), 'shuffle': rng3.randrange(1000)}
    for i in range(n // 3):
        # two automata over the SAME State objects (or one automaton extended between two intersections)
        R = F.random_dfa(rng, rng.choice([1, 2]), ['a', 'b']); R2 = F.random_dfa(rng, rng.choice([2, 3]), ['a', 'b'])
        yield {'kind': 'shared', 'G': C.to_json(rng.choice(pool)), 'R': F.to_json(R), 'R2': F.to_json(R2)}
    for i in range(n):
        kind, R = reg(rng)
        if rng.random() < 0.25:      # names that look like product names / an int and its string
            R = F.random_dfa(rng, rng.choice([2, 3]), ['a', 'b'], names=rng.choice([['0; 1', '1', '0'], [1, '1', 2], ['q; r', 'r', 'q']])); kind = 'DFA'
            Pp = P.random_pda(rng, reserved=0.0); ren = dict(zip(['q', 'r', 'p'], rng.choice([['p', 'p; 0', 'p; 0; 1'], ['1', 1, 2], ['q', 'q; q', 'r']])))
            Pp = P.mk(ren[Pp[0]], Pp[1], [ren[f] for f in Pp[2]], [(ren[a_], b_, c_, ren[d_], e_) for a_, b_, c_, d_, e_ in Pp[3]])
            yield {'kind': 'pda', 'P': P.to_json(Pp), 'R': F.to_json(R), 'as': kind}; continue
        yield {'kind': 'pda', 'P': P.to_json(P.random_pda(rng, reserved=0.05)), 'R': F.to_json(R), 'as': kind}
    # finite-control PDAs (the stack is never changed): 4 states, 3 letters, epsilon moves - many pairs of the product are reached late, through another pair
    rng2 = random.Random(seed * 7919 + 31)
    for i in range(n // 3):
        E = F.random_enfa(rng2, 4, ['a', 'b', 'c'], eps=True)
        starts = sorted(E[2], key=repr) or sorted(E[0], key=repr)
        Pp = P.mk(f'p{starts[0]}', 'Z', [f'p{f}' for f in E[3]], [(f'p{a_}', b_, 'Z', f'p{c_}', ('Z',)) for a_, b_, c_ in E[4]])
        R = F.random_dfa(rng2, 3, ['a', 'b', 'c'], total_p=0.6)
        yield {'kind': 'pda', 'P': P.to_json(Pp), 'R': F.to_json(fa_gen.rename(R, 'str')), 'as': rng2.choice(['DFA', 'DFA', 'NFA', 'ENFA'])}


def check(case):
    if case['kind'] == 'types': return K.c11_types(), True, 1
    if case['kind'] == 'converter': return K.c11_converter(case['n_states'], case['n_symbols'], case['shuffle']), case['n_states'] >= 11, 1
    if case['kind'] == 'shared': return K.c11_shared_states(C.from_json(case['G']), F.from_json(case['R']), F.from_json(case['R2'])), True, 1
    R = F.from_json(case['R'])
    if case['kind'] == 'cfg':
        g = C.from_json(case['G'])
        return K.c11_cfg(g, R, case['as'], 3), (not C.is_empty(g)) and not F.is_empty(R), 1
    X = P.from_json(case['P'])
    return K.c11_pda(X, R, case['as'], 3), (not F.is_empty(R)) and any(P.accepts(X, w, 'final') for w in K.words(sorted(P.alphabet(X), key=repr), 2)), 1
