"""C02 bounded stand-in: equivalence decided exactly on ordered pairs; minimize reduced and canonical."""
import random, itertools
from specs import fa as S
from bounded import fa_checks as K, fa_gen as G


def partial_dfas(n, alphabet):
    sts = list(range(n)); keys = [(p, a) for p in sts for a in alphabet]
    for fb in range(1 << n):
        F = [s for s in sts if fb >> s & 1]
        for choice in itertools.product([None] + sts, repeat=len(keys)):
            yield S.mk(sts, alphabet, [0], F, [(p, a, q) for (p, a), q in zip(keys, choice) if q is not None])


def cases(tier, seed):
    rng = random.Random(seed * 104729 + 5)
    # exhaustive: all ordered pairs of partial DFAs with <= 2 states over one symbol (36 + ... automata)
    small = [G.rename(R, 'str') for n in (1, 2) for R in partial_dfas(n, ['a'])]
    for A in small:
        for B in small:
            yield {'A': S.to_json(A), 'B': S.to_json(B), 'clsA': 'DFA', 'clsB': 'DFA', 'origin': 'exhaustive partial DFA n<=2 k=1'}
    if tier == 'thorough':
        two = [G.rename(R, 'str') for R in partial_dfas(2, ['a', 'b'])]
        for A in two:
            for B in rng.sample(two, 40):
                yield {'A': S.to_json(A), 'B': S.to_json(B), 'clsA': 'DFA', 'clsB': 'DFA', 'origin': 'partial DFA n=2 k=2 x 40 sampled partners'}
    # larger automata (5-7 states, 2 symbols), each against an independently built equivalent partner: Hopcroft refinement has cases that
    # only occur when a class is split while it is still pending as a splitter
    for i in range(2500 if tier == 'quick' else 25000):
        A = S.random_dfa(rng, rng.choice([5, 6, 7]), ['a', 'b'], total_p=rng.choice([0.7, 0.9, 1.0]))
        start, finals, delta, seen, alphabet = S.determinize(A)
        ids = {Sx: i for i, Sx in enumerate(sorted(seen, key=lambda x: sorted(map(repr, x))))}
        keep_sink = rng.random() < 0.5
        tr = [(ids[Sx], a, ids[Tx]) for (Sx, a), Tx in delta.items() if keep_sink or (Sx and Tx)]
        B = S.mk([ids[x] for x in seen if keep_sink or x], alphabet, [ids[start]] if (keep_sink or start) else [], [ids[x] for x in finals], tr)
        yield {'A': S.to_json(A), 'B': S.to_json(B), 'clsA': 'DFA', 'clsB': 'DFA', 'origin': 'random DFA 5-7 states vs its reference determinisation'}
    n_random = 3000 if tier == 'quick' else 30000
    for i in range(n_random):
        kind = rng.random()
        alpha1 = ['a', 'b'][:rng.choice([1, 2, 2])]
        if kind < 0.5:
            A = S.random_dfa(rng, rng.choice([1, 2, 3]), alpha1); clsA = 'DFA'
        else:
            A = S.random_enfa(rng, rng.choice([2, 3]), alpha1, eps=rng.random() < 0.6); clsA = 'ENFA'
        r = rng.random()
        if r < 0.35:     # an equivalent partner built independently: determinise by the reference construction, optionally keep the sink
            start, finals, delta, seen, alphabet = S.determinize(A)
            ids = {Sx: i for i, Sx in enumerate(sorted(seen, key=lambda x: sorted(map(repr, x))))}
            keep_sink = rng.random() < 0.5
            tr = [(ids[Sx], a, ids[Tx]) for (Sx, a), Tx in delta.items() if keep_sink or (Sx and Tx)]
            B = S.mk([ids[x] for x in seen if keep_sink or x], alphabet, [ids[start]] if (keep_sink or start) else [], [ids[x] for x in finals], tr); clsB = 'DFA'
        elif r < 0.5:
            B = A; clsB = clsA
        else:
            alpha2 = ['a', 'b', 'c'][:rng.choice([1, 2, 3])]
            if rng.random() < 0.5: B = S.random_dfa(rng, rng.choice([1, 2, 3]), alpha2); clsB = 'DFA'
            else: B = S.random_enfa(rng, rng.choice([2, 3]), alpha2, eps=rng.random() < 0.6); clsB = 'ENFA'
        scheme = rng.choice(['int', 'str'])
        if len(A[0]) <= 4 and all(isinstance(s, int) for s in A[0]): A = G.rename(A, scheme)
        yield {'A': S.to_json(A), 'B': S.to_json(B), 'clsA': clsA, 'clsB': clsB, 'origin': 'random'}


def dead_sink_one_side(A, B):
    """trigger of finding F-C02-sink: the two trim automata... exactly one of the reference minimal total DFAs restricted to what
    `minimize` keeps has a reachable dead (non-co-reachable) state"""
    def has_dead(R):
        reach = S.reachable(R)
        for s in reach:
            X = S.mk(R[0], R[1], [s], R[3], R[4])
            if S.is_empty(X): return True
        return False
    return has_dead(A) != has_dead(B) or (has_dead(A) and has_dead(B))


def check(case):
    A, B = S.from_json(case['A']), S.from_json(case['B'])
    fails = K.c02_pair(A, B, case['clsA'], case['clsB'])
    if fails:
        tags = []
        if dead_sink_one_side(A, B): tags.append('dead-state-reachable')
        if G.merged_name_collision(A) or G.merged_name_collision(B): tags.append('merged-name-collision')
        for f in fails: f['tags'] = tags
    eq = S.equivalent(A, B)[0]
    return fails, (eq and A != B and not S.is_empty(A)) or (not eq and not S.is_empty(A) and not S.is_empty(B)), 1
