"""C07 bounded stand-in: PythonRegex against re.fullmatch on patterns generated from the documented subset."""
import re, random, itertools, signal

ATOMS = ['a', 'b', 'c', '\\.', '\\*', '\\+', '\\?', '\\(', '\\|', '.', '\\d', '\\s', '\\w', '[ab]', '[^ab]', '[a-c]', '[a\\-c]', '[+*]', '[(|)?]', '[^a-c1]',
         '[\\d_]', 'x', '1', '_', ' ', '[.]', '[a.]', '[$a]', '[^-a]', '[-a]', '[a-]', '[^a^]', '[|a]', '[\\]a]', '[a\\]+]']
ALPHA = ['a', 'b', 'c', '.', '*', '1', '_', '+', '(', ' ', '^', '$', '-', ']', '|']


def gen(rng, d):
    if d == 0 or rng.random() < 0.3: return rng.choice(ATOMS)
    k = rng.choice(['cat', 'cat', 'alt', 'grp', 'star', 'plus', 'opt', 'rep', 'rep2'])
    if k == 'cat': return gen(rng, d - 1) + gen(rng, d - 1)
    if k == 'alt': return gen(rng, d - 1) + '|' + gen(rng, d - 1)
    if k == 'grp': return '(' + gen(rng, d - 1) + ')'
    inner = gen(rng, d - 1)
    single = len(inner) == 1 or (inner.startswith('[') and inner.endswith(']') and inner.count('[') == 1) or (inner.startswith('\\') and len(inner) == 2)
    if not single: inner = '(' + inner + ')'
    if k == 'star': return inner + '*'
    if k == 'plus': return inner + '+'
    if k == 'opt': return inner + '?'
    if k == 'rep': return inner + '{%d}' % rng.choice([0, 1, 2])
    m = rng.choice([0, 1, 2]); return inner + '{%d,%d}' % (m, m + rng.choice([0, 1, 2]))


def cases(tier, seed):
    rng = random.Random(seed * 3571 + 29)
    words = [''.join(w) for k in range(5) for w in itertools.product(ALPHA, repeat=k)]
    n = 1600 if tier == 'quick' else 16000
    for i in range(n):
        p = gen(rng, rng.choice([1, 2, 2, 3]))
        yield {'pattern': p, 'words': [''] + rng.sample(words, 50)}
    for p in ['a{2,10}', '(ab){9,10}c', '[ab]{3,12}', 'a{10}', 'a{0}', 'a{0,0}', 'a{0,2}b', '(ab){0,1}', '[ab]{2}', 'a{1,1}', '(a|b){0}c', '[', '(a', 'a)', '*a', 'a**', '\\', 'a{2,1}', '[b-a]', '(?P<n>a']:
        yield {'pattern': p, 'words': [''] + rng.sample(words, 60) + [c * k for c in ('a', 'ab', 'b') for k in range(1, 14)] + ['ab' * k + 'c' for k in range(8, 12)]}


class TO(Exception): pass
def _alarm(*a): raise TO()


def check(case):
    from pyformlang.regular_expression import PythonRegex
    p = case['pattern']; fails = []
    try: cre = re.compile(p); valid = True
    except re.error: valid = False
    signal.signal(signal.SIGALRM, _alarm)
    try:
        signal.alarm(20)
        try: r = PythonRegex(p); built = True
        except TO: raise
        except Exception as ex: built = False; err = ex
        if not valid:
            signal.alarm(0)
            if built: fails.append({'check': 'C07.invalid-pattern-accepted', 'detail': repr(p)})
            return fails, False, 1
        if not built:
            signal.alarm(0)
            return [{'check': 'C07.construct:exception', 'detail': f'{p!r}: {type(err).__name__}: {err}'[:300]}], True, 1
        for w in case['words']:
            try: got = r.accepts(list(w))
            except TO: raise
            except Exception as ex:
                fails.append({'check': 'C07.accepts:exception', 'detail': f'{p!r} on {w!r}: {type(ex).__name__}: {ex}'[:300]}); break
            exp = cre.fullmatch(w) is not None
            if got != exp:
                fails.append({'check': 'C07.accepts', 'detail': f'pattern {p!r} string {w!r}: accepts={got}, re.fullmatch={exp}'}); break
        signal.alarm(0)
    except TO:
        fails.append({'check': 'C07.timeout', 'detail': f'{p!r}: more than 20 s'})
    finally:
        signal.alarm(0)
    return fails, any(c in p for c in '*+?{[|'), 1
