"""Run-time contracts of the finite-automaton API, evaluated on concrete inputs against specs/fa.py.

Every function returns a list of failure dicts {'check': <name>, 'detail': <text>}.  The same functions are the
CPython cross-check of the contracts proved by pyvc, the bounded stand-in for functions outside its reach, and the
replay target for counter-models.
"""
import itertools
from specs import fa as S


def classes_for(R):
    from pyformlang.finite_automaton import EpsilonNFA, NondeterministicFiniteAutomaton, DeterministicFiniteAutomaton
    out = [('ENFA', EpsilonNFA)]
    has_eps = any(a is None for _, a, _ in R[4])
    if not has_eps:
        out.append(('NFA', NondeterministicFiniteAutomaton))
        if S.is_deterministic(R) and len(R[2]) <= 1: out.append(('DFA', DeterministicFiniteAutomaton))
    return out


def fail(check, detail): return {'check': check, 'detail': str(detail)[:600]}


def guarded(check, thunk, fails):
    """call repo code; an exception where the property promises an answer is a failure of that contract"""
    try: return True, thunk()
    except Exception as ex:          # noqa
        fails.append(fail(check + ':exception', f'{type(ex).__name__}: {ex}')); return False, None


def words(R, n, foreign=True):
    alpha = sorted(R[1], key=repr) + (['#zz'] if foreign else [])
    return list(S.words_upto(alpha, n))


# ----------------------------------------------------------------------------------------------- C01
def c01_accepts(R, n=4):
    fails = []
    for cname, cls in classes_for(R):
        ok, aut = guarded(f'C01.build[{cname}]', lambda: S.build(R, cls), fails)
        if not ok: continue
        for w in words(R, n):
            ok, got = guarded(f'C01.accepts[{cname}]', lambda: aut.accepts(list(w)), fails)
            if not ok: break
            if got != S.accepts(R, w):
                fails.append(fail(f'C01.accepts[{cname}]', f'word {w}: got {got}, some accepting run exists: {not got}')); break
    return fails


def same_language(check, R, result, fails, n=3):
    try: Rr = S.extract(result)
    except Exception as ex:
        fails.append(fail(check + ':extract', repr(ex))); return None
    eq, w = S.equivalent(R, Rr)
    if not eq: fails.append(fail(check, f'language differs on word {w} (source accepts: {S.accepts(R, w)})'))
    else:
        for w in words(R, n):           # the result's own accepts() must agree as well
            try: got = result.accepts(list(w))
            except Exception as ex: fails.append(fail(check + ':accepts-exception', repr(ex))); break
            if got != S.accepts(R, w): fails.append(fail(check + ':accepts', f'result.accepts({w}) = {got}')); break
    return Rr


def c01_conversions(R):
    from pyformlang.finite_automaton import DeterministicFiniteAutomaton, NondeterministicFiniteAutomaton, EpsilonNFA
    fails = []
    for cname, cls in classes_for(R):
        ok, aut = guarded(f'C01.build[{cname}]', lambda: S.build(R, cls), fails)
        if not ok: continue
        before = S.extract(aut)
        # to_deterministic
        ok, d = guarded(f'C01.to_deterministic[{cname}]', aut.to_deterministic, fails)
        if ok:
            Rd = same_language(f'C01.to_deterministic[{cname}].language', R, d, fails)
            if Rd is not None:
                if not isinstance(d, DeterministicFiniteAutomaton): fails.append(fail(f'C01.to_deterministic[{cname}].shape', 'not a DFA object'))
                if not S.is_deterministic(Rd): fails.append(fail(f'C01.to_deterministic[{cname}].shape', f'result not deterministic: {S.to_json(Rd)}'))
                if not d.is_deterministic(): fails.append(fail(f'C01.to_deterministic[{cname}].shape', 'is_deterministic() is False'))
        # remove_epsilon_transitions
        ok, e = guarded(f'C01.remove_epsilon_transitions[{cname}]', aut.remove_epsilon_transitions, fails)
        if ok:
            Re = same_language(f'C01.remove_epsilon_transitions[{cname}].language', R, e, fails)
            if Re is not None and any(a is None for _, a, _ in Re[4]):
                fails.append(fail(f'C01.remove_epsilon_transitions[{cname}].shape', 'epsilon transition left'))
        # minimize
        ok, m = guarded(f'C01.minimize[{cname}]', aut.minimize, fails)
        if ok:
            Rm = same_language(f'C01.minimize[{cname}].language', R, m, fails)
            if Rm is not None and not S.is_deterministic(Rm):
                fails.append(fail(f'C01.minimize[{cname}].shape', f'result not deterministic: {S.to_json(Rm)}'))
        # copy
        ok, c = guarded(f'C01.copy[{cname}]', aut.copy, fails)
        if ok:
            Rc = same_language(f'C01.copy[{cname}].language', R, c, fails)
            if Rc is not None and (Rc[2], Rc[3], Rc[4]) != (before[2], before[3], before[4]):
                fails.append(fail(f'C01.copy[{cname}].structure', f'{S.to_json(Rc)} vs {S.to_json(before)}'))
            if type(c) is not type(aut) and cname != 'NFA':     # NFA inherits EpsilonNFA.copy (returns an EpsilonNFA): language is what C01 asks
                fails.append(fail(f'C01.copy[{cname}].shape', f'{type(c).__name__}'))
        after = S.extract(aut)
        if after != before: fails.append(fail(f'C19.operand-unchanged[{cname}]', 'a conversion changed its operand'))
    return fails


def c01_after_mutation(R, n=2):
    """query, change the automaton through its public mutators, query again: answers must follow the current structure"""
    fails = []
    aut = S.build(R); cur = R
    W = words(R, n)
    def requery(tag_):
        for w in W:
            if aut.accepts(list(w)) != S.accepts(cur, w): fails.append(fail('C01.accepts.after-mutation', f'{tag_}: word {w}: got {aut.accepts(list(w))}')); return False
        Rd = S.extract(aut.to_deterministic())
        if not S.equivalent(cur, Rd)[0]: fails.append(fail('C01.to_deterministic.after-mutation', tag_)); return False
        return True
    try:
        if not requery('initial'): return fails
        sts = sorted(R[0], key=repr)
        for p in sts:
            for q in sts:
                if (p, None, q) in cur[4]: continue
                aut.add_transition(p, 'epsilon', q); cur = S.mk(cur[0], cur[1], cur[2], cur[3], set(cur[4]) | {(p, None, q)})
                if not requery(f'after add_transition({p!r}, epsilon, {q!r})'): return fails
                aut.remove_transition(p, 'epsilon', q); cur = S.mk(cur[0], cur[1], cur[2], cur[3], set(cur[4]) - {(p, None, q)})
                if not requery(f'after remove_transition({p!r}, epsilon, {q!r})'): return fails
        # removing a transition that does not exist changes nothing (every class, incl. the deterministic transition function)
        for cname, cls in classes_for(R):
            x = S.build(R, cls); before = S.extract(x)
            for p in sts:
                for a in sorted(R[1], key=repr) + ([None] if cname == 'ENFA' else []):
                    for q in sts:
                        if (p, a, q) in R[4]: continue
                        got = x.remove_transition(p, 'epsilon' if a is None else a, q)
                        if S.extract(x) != before or got != 0:
                            fails.append(fail(f'C01.remove_transition[{cname}].absent', f'remove_transition({p!r}, {a!r}, {q!r}) of an absent transition returned {got} and left {S.to_json(S.extract(x))}')); return fails
        for (p, a, q) in sorted(R[4], key=repr)[:3]:
            aut.remove_transition(p, 'epsilon' if a is None else a, q); cur = S.mk(cur[0], cur[1], cur[2], cur[3], set(cur[4]) - {(p, a, q)})
            if not requery(f'after remove_transition({p!r}, {a!r}, {q!r})'): return fails
    except Exception as ex:
        fails.append(fail('C01.after-mutation:exception', repr(ex)))
    return fails


# ----------------------------------------------------------------------------------------------- pyvc cross-checks
def fa_structural(R):
    """executable versions of the structural contracts proved by pyvc (CPython cross-check)"""
    from pyformlang.finite_automaton import EpsilonNFA, Epsilon, State
    fails = []
    aut = S.build(R)
    for s in sorted(R[0], key=repr):
        got = {S.val(x) for x in aut.eclose(s)}
        if got != set(S.eclose(R, {s})): fails.append(fail('pyvc.ENFA.eclose', f'eclose({s!r}) = {got}'))
    for k in range(len(R[0]) + 1):
        for sub in itertools.combinations(sorted(R[0], key=repr), k):
            got = {S.val(x) for x in aut.eclose_iterable(list(sub))}
            if got != set(S.eclose(R, sub)): fails.append(fail('pyvc.ENFA.eclose_iterable', f'{sub}: {got}'))
            for a in sorted(R[1], key=repr):
                got = {S.val(x) for x in aut._get_next_states_iterable([aut_state(aut, x) for x in sub], to_sym(a))}
                if got != set(S.step(R, sub, a)): fails.append(fail('pyvc.ENFA._get_next_states_iterable', f'{sub},{a}: {got}'))
    # reverse: exact structure
    r = S.extract(aut.reverse())
    exp = S.mk(R[0], R[1], R[3], R[2], {(q, a, p) for p, a, q in R[4]})
    if (r[2], r[3], r[4]) != (exp[2], exp[3], exp[4]): fails.append(fail('pyvc.ENFA.reverse', S.to_json(r)))
    # remove_epsilon_transitions: exact structure (EpsRemoved)
    e = S.extract(aut.remove_epsilon_transitions())
    expT = {(p, a, q) for p in R[0] for x in S.eclose(R, {p}) for (x1, a, q) in R[4] if x1 == x and a is not None}
    expF = {p for p in R[0] if S.eclose(R, {p}) & R[3]}
    if e[4] != frozenset(expT) or e[2] != S.eclose(R, R[2]) or e[3] != frozenset(expF):
        fails.append(fail('pyvc.ENFA.remove_epsilon_transitions', S.to_json(e)))
    return fails


def aut_state(aut, v):
    from pyformlang.finite_automaton import State
    return State(v)


def to_sym(a):
    from pyformlang.finite_automaton import Symbol
    return Symbol(a)


# ----------------------------------------------------------------------------------------------- C02
def residual_distinct(Rm):
    """all states reachable and pairwise distinguishable (for a deterministic Rm)"""
    reach = S.reachable(Rm)
    probs = []
    if set(Rm[0]) - reach: probs.append(f'unreachable states {sorted(set(Rm[0]) - reach, key=repr)}')
    sts = sorted(Rm[0], key=repr)
    for i in range(len(sts)):
        for j in range(i + 1, len(sts)):
            A = S.mk(Rm[0], Rm[1], [sts[i]], Rm[3], Rm[4]); B = S.mk(Rm[0], Rm[1], [sts[j]], Rm[3], Rm[4])
            if S.equivalent(A, B)[0]: probs.append(f'states {sts[i]!r} and {sts[j]!r} are indistinguishable')
    return probs


def isomorphic(A, B):
    """deterministic A, B: lock-step walk from the start states"""
    if len(A[2]) != len(B[2]) or len(A[0]) != len(B[0]) or len(A[4]) != len(B[4]) or len(A[3]) != len(B[3]): return False
    if not A[2]: return True
    dA = {(p, a): q for p, a, q in A[4]}; dB = {(p, a): q for p, a, q in B[4]}
    a0, b0 = next(iter(A[2])), next(iter(B[2])); m = {a0: b0}; todo = [(a0, b0)]
    while todo:
        x, y = todo.pop()
        if (x in A[3]) != (y in B[3]): return False
        outA = {a: q for (p, a), q in dA.items() if p == x}; outB = {a: q for (p, a), q in dB.items() if p == y}
        if set(outA) != set(outB): return False
        for a, q in outA.items():
            if q in m:
                if m[q] != outB[a]: return False
            else: m[q] = outB[a]; todo.append((q, outB[a]))
    return len(set(m.values())) == len(m)


def c02_pair(R1, R2, cls1='ENFA', cls2='ENFA'):
    fails = []
    classes1 = dict(classes_for(R1)); classes2 = dict(classes_for(R2))
    if cls1 not in classes1 or cls2 not in classes2: return fails
    ok, A = guarded('C02.build', lambda: S.build(R1, classes1[cls1]), fails)
    ok2, B = guarded('C02.build', lambda: S.build(R2, classes2[cls2]), fails)
    if not (ok and ok2): return fails
    exp, w = S.equivalent(R1, R2)
    tag = f'[{cls1},{cls2}]'
    ok, got = guarded('C02.is_equivalent_to' + tag, lambda: A.is_equivalent_to(B), fails)
    if ok and bool(got) != exp:
        fails.append(fail('C02.is_equivalent_to' + tag, f'returned {got}; languages equal: {exp}' + (f' (differ on {w})' if not exp else '')))
    ok, got = guarded('C02.__eq__' + tag, lambda: A == B, fails)
    if ok and bool(got) != exp: fails.append(fail('C02.__eq__' + tag, f'returned {got}; languages equal: {exp}'))
    mins = []
    for nm, X, R in (('A', A, R1), ('B', B, R2)):
        ok, m = guarded('C02.minimize', X.minimize, fails)
        if not ok: mins.append(None); continue
        Rm = S.extract(m); mins.append(Rm)
        if not S.equivalent(R, Rm)[0]: fails.append(fail('C02.minimize.language', f'{nm}: {S.to_json(Rm)}'))
        if not S.is_deterministic(Rm): fails.append(fail('C02.minimize.deterministic', f'{nm}: {S.to_json(Rm)}'))
        else:
            for pb in residual_distinct(Rm): fails.append(fail('C02.minimize.reduced', f'{nm}: {pb}'))
    if exp and all(x is not None for x in mins) and all(S.is_deterministic(x) for x in mins):
        if not isomorphic(mins[0], mins[1]):
            fails.append(fail('C02.minimize.canonical', f'equivalent automata minimise to non-isomorphic results: {S.to_json(mins[0])} vs {S.to_json(mins[1])}'))
    return fails


# ----------------------------------------------------------------------------------------------- C03
def c03_unary(R, n=4):
    fails = []
    aut = S.build(R); before = S.extract(aut)
    # complement relative to the automaton's own alphabet
    for opname, thunk in (('get_complement', aut.get_complement), ('__neg__', lambda: -aut)):
        ok, c = guarded(f'C03.{opname}', thunk, fails)
        if ok:
            Rc = S.extract(c)
            for w in words(R, n, foreign=False):
                if S.accepts(Rc, w) == S.accepts(R, w):
                    fails.append(fail(f'C03.{opname}.language', f'word {w}: operand accepts={S.accepts(R, w)}, complement accepts={S.accepts(Rc, w)}')); break
    for opname, thunk in (('reverse', aut.reverse), ('__invert__', lambda: ~aut)):
        ok, r = guarded(f'C03.{opname}', thunk, fails)
        if ok:
            Rr = S.extract(r); mirror = S.mk(R[0], R[1], R[3], R[2], {(q, a, p) for p, a, q in R[4]})
            eq, w = S.equivalent(Rr, mirror)
            if not eq: fails.append(fail(f'C03.{opname}.language', f'differs from the mirror language on {w}'))
    ok, k = guarded('C03.kleene_star', aut.kleene_star, fails)
    if ok:
        Rk = S.extract(k)
        # star via reference construction: new start/final state with eps moves
        ns = ('#star',)
        star = S.mk(set(R[0]) | {ns}, R[1], [ns], [ns], set(R[4]) | {(ns, None, s) for s in R[2]} | {(f, None, ns) for f in R[3]})
        eq, w = S.equivalent(Rk, star)
        if not eq: fails.append(fail('C03.kleene_star.language', f'differs from L* on {w}'))
    if S.extract(aut) != before: fails.append(fail('C19.operand-unchanged', 'a unary operation changed its operand'))
    return fails


def tag(R, t):
    """disjoint copy of a reference automaton"""
    return S.mk({(t, s) for s in R[0]}, R[1], {(t, s) for s in R[2]}, {(t, s) for s in R[3]}, {((t, p), a, (t, q)) for p, a, q in R[4]})


def c03_binary(R1, R2, n=3):
    fails = []
    A = S.build(R1); B = S.build(R2) if R2 is not R1 else A
    bA, bB = S.extract(A), S.extract(B)
    T1, T2 = tag(R1, 1), tag(R2, 2)
    alpha = sorted(set(R1[1]) | set(R2[1]), key=repr) + ['#zz']
    W = list(S.words_upto(alpha, n))
    def cmp(name, thunk, pred, exact=None):
        ok, r = guarded(f'C03.{name}', thunk, fails)
        if not ok: return
        Rr = S.extract(r)
        if exact is not None:
            eq, w = S.equivalent(Rr, exact)
            if not eq: fails.append(fail(f'C03.{name}.language', f'wrong on word {w}: result accepts {S.accepts(Rr, w)}')); return
        for w in W:
            if S.accepts(Rr, w) != pred(w):
                fails.append(fail(f'C03.{name}.language', f'wrong on word {w}: result accepts {S.accepts(Rr, w)}')); return
    inter = lambda w: S.accepts(R1, w) and S.accepts(R2, w)
    cmp('get_intersection', lambda: A.get_intersection(B), inter)
    cmp('__and__', lambda: A & B, inter)
    diff = lambda w: S.accepts(R1, w) and not S.accepts(R2, w)
    cmp('get_difference', lambda: A.get_difference(B), diff)
    cmp('__sub__', lambda: A - B, diff)
    uni = S.mk(set(T1[0]) | set(T2[0]), set(R1[1]) | set(R2[1]), set(T1[2]) | set(T2[2]), set(T1[3]) | set(T2[3]), set(T1[4]) | set(T2[4]))
    cmp('union', lambda: A.union(B), lambda w: S.accepts(R1, w) or S.accepts(R2, w), exact=uni)
    cat = S.mk(set(T1[0]) | set(T2[0]), set(R1[1]) | set(R2[1]), T1[2], T2[3],
               set(T1[4]) | set(T2[4]) | {(f, None, s) for f in T1[3] for s in T2[2]})
    cmp('concatenate', lambda: A.concatenate(B), lambda w: S.accepts(cat, w), exact=cat)
    if S.extract(A) != bA or S.extract(B) != bB: fails.append(fail('C19.operand-unchanged', 'a binary operation changed an operand'))
    # the operands are mutable: after a public mutation the operations must follow the new languages
    if R1[4] and not fails and R2 is not R1:
        p, a, q = sorted(R1[4], key=repr)[0]
        A.remove_transition(p, 'epsilon' if a is None else a, q); R1b = S.mk(R1[0], R1[1], R1[2], R1[3], set(R1[4]) - {(p, a, q)})
        for name, thunk, pred in (('get_intersection.after-mutation', lambda: A.get_intersection(B), lambda w: S.accepts(R1b, w) and S.accepts(R2, w)),
                                  ('get_difference.after-mutation', lambda: B.get_difference(A), lambda w: S.accepts(R2, w) and not S.accepts(R1b, w))):
            ok, r = guarded(f'C03.{name}', thunk, fails)
            if ok:
                Rr = S.extract(r)
                for w in W:
                    if S.accepts(Rr, w) != pred(w): fails.append(fail(f'C03.{name}', f'after remove_transition({p!r}, {a!r}, {q!r}): wrong on {w}')); break
    return fails


# ----------------------------------------------------------------------------------------------- C04
def c04(R, n=3):
    fails = []
    for cname, cls in classes_for(R):
        ok, aut = guarded(f'C04.build[{cname}]', lambda: S.build(R, cls), fails)
        if not ok: continue
        ok, got = guarded(f'C04.is_empty[{cname}]', aut.is_empty, fails)
        if ok and bool(got) != S.is_empty(R): fails.append(fail(f'C04.is_empty[{cname}]', f'returned {got}'))
        ok, got = guarded(f'C04.is_deterministic[{cname}]', aut.is_deterministic, fails)
        if ok and bool(got) != S.is_deterministic(R): fails.append(fail(f'C04.is_deterministic[{cname}]', f'returned {got}'))
        ok, got = guarded(f'C04.is_acyclic[{cname}]', aut.is_acyclic, fails)
        if ok and bool(got) != S.is_acyclic(R): fails.append(fail(f'C04.is_acyclic[{cname}]', f'returned {got}'))
        for k in range(n + 1):
            ok, got = guarded(f'C04.get_accepted_words[{cname}]', lambda: [tuple(S.val(x) for x in w) for w in aut.get_accepted_words(k)], fails)
            if not ok: break
            exp = S.language_upto(R, k)
            if sorted(got, key=repr) != sorted(exp, key=repr):
                dup = len(got) != len(set(got))
                fails.append(fail(f'C04.get_accepted_words[{cname}]', f'n={k}: yielded {sorted(got, key=repr)}, expected {sorted(exp, key=repr)}' + (' (duplicates)' if dup else ''))); break
        if S.language_is_finite(R):
            lim = 4000
            def unbounded():
                out = []
                for w in aut.get_accepted_words():
                    out.append(tuple(S.val(x) for x in w))
                    if len(out) > lim: raise RuntimeError('does not stop on a finite language (step budget)')
                return out
            # finite language but possibly a cycle of epsilon moves / dead cycles: the generator must still stop
            ok, got = guarded(f'C04.get_accepted_words[{cname}].unbounded', unbounded, fails)
            if ok:
                exp = S.language_upto(R, len(R[0]) + 1)
                if sorted(got, key=repr) != sorted(exp, key=repr):
                    fails.append(fail(f'C04.get_accepted_words[{cname}].unbounded', f'yielded {sorted(got, key=repr)}, expected {sorted(exp, key=repr)}'))
    return fails


# ----------------------------------------------------------------------------------------------- C06
def c06(R, n=3):
    fails = []
    aut = S.build(R); before = S.extract(aut)
    ok, rx = guarded('C06.to_regex', aut.to_regex, fails)
    if ok:
        ok2, back = guarded('C06.to_regex.to_epsilon_nfa', rx.to_epsilon_nfa, fails)
        if ok2:
            Rb = S.extract(back)
            eq, w = S.equivalent(R, Rb)
            if not eq: fails.append(fail('C06.to_regex.language', f'regex {str(rx)!r} differs on word {w} (automaton accepts {S.accepts(R, w)})'))
        for w in words(R, n):
            ok3, got = guarded('C06.to_regex.accepts', lambda: rx.accepts(list(w)), fails)
            if not ok3: break
            if got != S.accepts(R, w): fails.append(fail('C06.to_regex.accepts', f'regex {str(rx)!r} word {w}: {got}')); break
    if S.extract(aut) != before: fails.append(fail('C19.operand-unchanged', 'to_regex changed its operand'))
    return fails
