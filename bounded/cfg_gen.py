"""Deterministic generators of small grammars (DESIGN section 6)."""
import random, itertools
from specs import cfg as S

RESERVED_V = ['#STARTUNION#', '#STARTCONC#', '#STARTCLOS#', '#STARTPOSCLOS#', '#VARPOSCLOS#', 'S#SUBS#0', 'C#CNF#1', 'a#CNF#', 'Start']
RESERVED_T = ['#0UNION#', '#1UNION#', '#0CONC#', '#1CONC#', '#1CLOS#', '#1POSCLOS#']


def nontrivial(G):
    """non-empty language and at least one of: epsilon production, unit production, recursion, body longer than two"""
    if S.is_empty(G): return False
    rec = any(h in b for h, b in G[1])
    return rec or S.has_epsilon_production(G) or S.has_unit_production(G) or any(len(b) > 2 for _, b in G[1])


def grammars(tier, seed, n_random=1500, exhaustive_prods=3):
    # exhaustive: 2 variables, 2 terminals, bodies <= 2 (42 productions), sets of <= exhaustive_prods productions
    for G in S.enum_grammars(['S', 'A'], ['a', 'b'], 2, exhaustive_prods + (1 if tier == 'thorough' else 0)):
        yield G, f'exhaustive 2 vars, 2 terminals, bodies<=2'
    rng = random.Random(seed * 6151 + 17)
    if tier == 'thorough': n_random *= 10
    for i in range(n_random):
        nv = rng.choice([1, 2, 3, 3]); vs = ['S', 'A', 'B'][:nv]
        r = rng.random()
        if r < 0.12: vs = [vs[0]] + [rng.choice(RESERVED_V) for _ in vs[1:]]
        elif r < 0.18: vs = [vs[0]] + [1, 2][:nv - 1]
        r2 = rng.random()
        ts = ['a', 'b'] if r2 < 0.8 else (['a', rng.choice(RESERVED_T)] if r2 < 0.88 else rng.choice([['a', 'ab', 'b', 'bb'], [1, 12, 2, 22], ['a', 'ab', 'b']]))
        yield S.random_grammar(rng, vs, ts, rng.choice([2, 3, 3, 4]), rng.choice([2, 3, 4, 5, 6])), 'random'
    rng3 = random.Random(seed * 15485863 + 3)          # appended family (the random stream above is unchanged)
    for i in range(n_random // 3):
        yield S.random_nullable_heavy(rng3), 'random nullable-heavy, 3-5 variables'
    for i in range(n_random // 5):
        # a variable and a terminal with the same value ('A' / 'A', 1 / 1, 'a' / 'a'): different symbols of one grammar (fix a638715)
        vs = ['S'] + rng3.sample(['A', 'a', 1, 'b'], rng3.choice([1, 2])); ts = rng3.sample(['A', 'a', 1, 'b', 'S'], rng3.choice([2, 3]))
        yield S.random_grammar(rng3, vs, ts, rng3.choice([2, 3]), rng3.choice([2, 3, 4, 5])), 'random, a variable and a terminal with one value'
    for i in range(n_random // 10):
        # variables that carry the names the binarisation would hand out next (C#CNF#1, C#CNF#2, ...), with bodies long enough to need new variables
        vs = ['S', 'C#CNF#1', 'C#CNF#2'] if rng3.random() < 0.7 else ['S', 'C#CNF#1', 'C#CNF#2', 'C#CNF#3']
        g = S.random_grammar(rng3, vs, ['a', 'b'], 4, rng3.choice([3, 4, 5]))
        extra = {(S.V('S'), tuple(rng3.choice([S.V(v) for v in vs[1:]] + [S.T('a'), S.T('b')]) for _ in range(rng3.choice([3, 4]))))}
        yield S.mk(g[0], set(g[1]) | extra), 'random, variables named like fresh CNF variables'
    for i in range(n_random // 10):
        # terminals (and variables) whose values differ but print alike: 1 and '1' - names derived from str(value) must not merge them
        ts = rng3.choice([[1, '1'], [1, '1', 'a'], ['a', 2, '2']]); vs = ['S', 'A'] if rng3.random() < 0.7 else ['S', 3, '3']
        yield S.random_grammar(rng3, vs, ts, rng3.choice([2, 3]), rng3.choice([2, 3, 4])), 'random, values that print alike'
