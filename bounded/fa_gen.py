"""Deterministic generators of small automata cases (DESIGN §6 scopes)."""
import random
from specs import fa as S

SCHEMES = {
    'int': [0, 1, 2, 3, 4, 5, 6],
    'str': ['q0', 'q1', 'q2', 'q3', 'q4', 'q5', 'q6'],
    'adv-merge': ['a', 'b', 'a;b', 'b;a'],            # names that look like merged subset names
    'adv-pair': ['a', 'b; c', 'a; b', 'c'],           # names that look like product-pair names
    'adv-reserved': ['TrashNode', "TrashNode'", 'q', "TrashNode''"],
    'adv-reserved2': ['Empty', 'TRASH', 'TrashNode', 'q'],
    'adv-mixed': [1, '1', 2, '1;2'],
}
ADV = [k for k in SCHEMES if k.startswith('adv')]


def rename(R, scheme):
    nm = SCHEMES[scheme]; f = lambda s: nm[s]
    return S.mk({f(s) for s in R[0]}, R[1], {f(s) for s in R[2]}, {f(s) for s in R[3]}, {(f(p), a, f(q)) for p, a, q in R[4]})


def nontrivial(R):
    """non-empty language and at least one nondeterministic or epsilon step"""
    return (not S.is_empty(R)) and (not S.is_deterministic(R) or any(a is None for _, a, _ in R[4]))


def singles(tier, seed, exhaustive_scheme='str', n_random=2000, adv_share=0.25):
    """yield (R, scheme, origin)"""
    # exhaustive: n <= 2 over one symbol (with eps): 16 + 4096 automata
    for n in (1, 2):
        for R in S.enum_enfa(n, ['a'], eps=True):
            yield rename(R, exhaustive_scheme), exhaustive_scheme, f'exhaustive n={n} k=1'
    # automata whose alphabet is empty (only epsilon moves): loops over the input symbols do not run at all
    for n in (1, 2):
        for R in S.enum_enfa(n, [], eps=True):
            yield rename(R, exhaustive_scheme), exhaustive_scheme, f'exhaustive n={n} k=0 (epsilon moves only)'
    if tier == 'thorough':
        for R in S.enum_enfa(2, ['a', 'b'], eps=True):
            yield rename(R, 'str'), 'str', 'exhaustive n=2 k=2'
        n_random *= 10
    rng = random.Random(seed * 7919 + 13)
    for i in range(n_random):
        n = rng.choice([2, 3, 3, 3, 4]); k = rng.choice([1, 2, 2])
        R = S.random_enfa(rng, n, ['a', 'b'][:k], eps=rng.random() < 0.7, density=rng.choice([0.15, 0.25, 0.4]))
        scheme = rng.choice(ADV) if rng.random() < adv_share else rng.choice(['int', 'str'])
        if rng.random() < 0.06: R = S.mk(R[0], [], R[2], R[3], [(p_, a_, q_) for p_, a_, q_ in R[4] if a_ is None])     # epsilon moves only
        yield rename(R, scheme), scheme, 'random'
    # (appended after the random stream above so that it is unchanged) shapes that small random automata almost never have:
    rng2 = random.Random(seed * 104729 + 7)
    for i in range(300 if tier == 'quick' else 3000):
        # deterministic automata with 5-7 states over two symbols: partition refinement needs several rounds of splitting
        R = S.random_dfa(rng2, rng2.choice([5, 6, 7]), ['a', 'b'], total_p=rng2.choice([0.7, 0.9, 1.0]))
        yield rename(R, rng2.choice(['int', 'str'])), 'int/str', 'random DFA 5-7 states'
    for i in range(300 if tier == 'quick' else 3000):
        # acyclic automata (edges only from a lower to a higher state) with epsilon moves: diamonds, converging branches
        n = rng2.choice([4, 5]); dens = rng2.choice([0.4, 0.6, 0.8]); trans = []
        for p_ in range(n):
            for q_ in range(p_ + 1, n):
                for a_ in ('a', 'b', None):
                    if rng2.random() < dens * (0.7 if a_ is None else 0.35): trans.append((p_, a_, q_))
        R = S.mk(list(range(n)), ['a', 'b'], [0], [q_ for q_ in range(n) if rng2.random() < 0.4] or [n - 1], trans)
        yield rename(R, rng2.choice(['int', 'str'])), 'int/str', 'random acyclic eps-NFA 4-5 states'


def case_of(R, scheme, origin, **extra):
    d = {'R': S.to_json(R), 'scheme': scheme, 'origin': origin}; d.update(extra); return d


# ------------------------------------------------------------------ classifiers of known defect triggers (known_findings.json)
def merged_name_collision(R):
    """two distinct non-empty subsets of the states get the same library name (';'-joined sorted str of values),
    or a subset name equals the name of another single state: the trigger of finding F-C01-merged-names"""
    import itertools
    sts = sorted(R[0], key=repr); seen = {}
    for k in range(1, len(sts) + 1):
        for sub in itertools.combinations(sts, k):
            nm = ';'.join(sorted(str(v) for v in sub))
            if seen.setdefault(nm, sub) != sub: return True
    return False


def pair_name_collision(R1, R2):
    """two distinct pairs (p, q) of states get the same product name str(p)+'; '+str(q)"""
    seen = {}
    for p in R1[0]:
        for q in R2[0]:
            nm = str(p) + '; ' + str(q)
            if seen.setdefault(nm, (p, q)) != (p, q): return True
    return False
