"""C01 bounded stand-in: acceptance and the four language-preserving conversions, every automaton class."""
from specs import fa as S
from bounded import fa_checks as K, fa_gen as G


def cases(tier, seed):
    for R, scheme, origin in G.singles(tier, seed):
        yield G.case_of(R, scheme, origin)


def check(case):
    R = S.from_json(case['R'])
    fails = K.c01_accepts(R, 4 if len(R[1]) <= 1 else 3) + K.c01_conversions(R)
    if len(R[0]) <= 3: fails += K.fa_structural(R) + K.c01_after_mutation(R)
    if fails and G.merged_name_collision(R):
        for f in fails: f['tags'] = ['merged-name-collision']
    return fails, G.nontrivial(R), 1
