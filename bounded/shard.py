"""Bounded stand-in runner (one shard).  Runs under /venv/bin/python with PYTHONPATH=/repo:/verif.

    python -m bounded.shard <suite module> <shard> <nshards> <tier> <seed> <outfile> [--only check-prefix]

A suite module provides
    cases(tier, seed)  -> iterable of JSON-serialisable case dicts (deterministic for given tier/seed)
    check(case)        -> (list of failure dicts {'check','detail',...}, nontrivial: bool, evaluations: int)
A failure is a violated *contract of the real function on a concrete input*; an exception inside the harness or an
oracle is reported separately (`harness_errors`) and never becomes a violation.
"""
import sys, json, time, hashlib, traceback, os, signal, resource


class CaseTimeout(BaseException):
    pass


def _alarm(*a):
    raise CaseTimeout()


def canon(case):
    return hashlib.sha1(json.dumps(case, sort_keys=True, default=repr).encode()).hexdigest()[:16]


def main():
    mod, shard, nshards, tier, seed, out = sys.argv[1], int(sys.argv[2]), int(sys.argv[3]), sys.argv[4], int(sys.argv[5]), sys.argv[6]
    import importlib
    suite = importlib.import_module(mod)
    t0 = time.time(); budget = float(os.environ.get('VERIF_SHARD_BUDGET_S', '1e9'))
    res = {'suite': mod, 'shard': shard, 'cases': 0, 'evaluations': 0, 'nontrivial': [], 'failures': [], 'harness_errors': [],
           'samples': [], 'hashseed': os.environ.get('PYTHONHASHSEED', ''), 'truncated': False}
    seen = set(); res['timeouts'] = []
    case_budget = int(os.environ.get('VERIF_CASE_TIMEOUT_S', '90'))
    try: resource.setrlimit(resource.RLIMIT_AS, (6 * 2 ** 30, 6 * 2 ** 30))
    except Exception: pass
    signal.signal(signal.SIGALRM, _alarm)
    for idx, case in enumerate(suite.cases(tier, seed)):
        if idx % nshards != shard: continue
        if time.time() - t0 > budget: res['truncated'] = True; break
        try:
            signal.signal(signal.SIGALRM, _alarm); signal.alarm(case_budget)
            try: fails, nontrivial, evals = suite.check(case)
            finally: signal.alarm(0)
        except (CaseTimeout, MemoryError) as ex:
            # the case exceeded the per-case budget (inherently exponential algorithms, e.g. indexed-grammar marking): skipped and counted
            if len(res['timeouts']) < 20: res['timeouts'].append({'case': case, 'why': type(ex).__name__})
            continue
        except Exception:
            res['harness_errors'].append({'case': case, 'trace': traceback.format_exc()[-1200:]})
            if len(res['harness_errors']) > 5: break
            continue
        res['cases'] += 1; res['evaluations'] += evals
        if nontrivial:
            h = canon(case)
            if h not in seen: seen.add(h); res['nontrivial'].append(h)
        if len(res['samples']) < 2 and nontrivial: res['samples'].append(case)
        for f in fails:
            f.setdefault('case', case)
            if len(res['failures']) < 400: res['failures'].append(f)
    res['secs'] = round(time.time() - t0, 2)
    json.dump(res, open(out, 'w'), default=repr)


if __name__ == '__main__':
    main()
