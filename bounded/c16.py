"""C16 bounded stand-in: translate is the transduction relation; union / concatenate / kleene_star compose relations; to_fst."""
import random, itertools, signal
from specs import fst as X, fa as F
from bounded import fa_gen


def fail(check, detail): return {'check': check, 'detail': str(detail)[:500]}
class TO(Exception): pass
def _alarm(*a): raise TO()


def cases(tier, seed):
    rng = random.Random(seed * 1327 + 3)
    n = 1500 if tier == 'quick' else 15000
    for i in range(n):
        A = X.random_fst(rng, names=('q0', 'q1', 'q2') if rng.random() < 0.8 else ('star', 'q0', 'star0'))
        B = X.random_fst(rng, names=('q0', 'q1', 'q2') if rng.random() < 0.7 else ('r0', 'q00', 'q1'))
        yield {'kind': 'fst', 'A': X.to_json(A), 'B': X.to_json(B), 'same': rng.random() < 0.05}
    # output symbols whose concatenations coincide ('x','xy' / 'xx','y'): output words are sequences of symbols, not their joined text
    OUT = ('x', 'xx', 'xy', 'y', 'yx')
    for i in range(n // 2):
        A = X.random_fst(rng, out=OUT); B = X.random_fst(rng, out=OUT)
        yield {'kind': 'fst', 'A': X.to_json(A), 'B': X.to_json(B), 'same': False}
    for i in range(n // 3):
        R = F.random_enfa(rng, rng.choice([1, 2, 3]), ['a', 'b'][:rng.choice([1, 2])], eps=rng.random() < 0.6)
        yield {'kind': 'to_fst', 'R': F.to_json(fa_gen.rename(R, rng.choice(['int', 'str'])))}


def words(n): return [w for k in range(n + 1) for w in itertools.product(['a', 'b'], repeat=k)]


def translate_all(f, w, limit=400):
    out = []
    for o in f.translate(list(w)):
        out.append(tuple(o))
        if len(out) > limit: raise RuntimeError('more than %d outputs' % limit)
    return out


def check(case):
    fails = []
    signal.signal(signal.SIGALRM, _alarm); signal.alarm(60)
    try:
        if case['kind'] == 'to_fst':
            R = F.from_json(case['R']); aut = F.build(R)
            try: f = aut.to_fst()
            except Exception as ex: return [fail('C16.to_fst:exception', repr(ex))], True, 1
            for w in [w for k in range(4) for w in itertools.product(sorted(R[1], key=repr) + ['#zz'], repeat=k)]:
                try: got = set(translate_all(f, w))
                except Exception as ex: fails.append(fail('C16.to_fst.translate:exception', f'{w}: {ex!r}')); break
                exp = {tuple(w)} if F.accepts(R, list(w)) else set()
                if got != exp: fails.append(fail('C16.to_fst', f'input {list(w)}: outputs {sorted(got)} expected {sorted(exp)}')); break
            return fails, not F.is_empty(R), 1
        A = X.from_json(case['A']); B = A if case['same'] else X.from_json(case['B'])
        fa_ = X.build(A); fb = fa_ if case['same'] else X.build(B)
        beforeA, beforeB = X.extract(fa_), X.extract(fb)
        W = words(3)
        for w in W:
            try: got = translate_all(fa_, w)
            except TO: raise
            except Exception as ex: fails.append(fail('C16.translate:exception', f'{w}: {ex!r}')); break
            exp = X.outputs(A, w)
            if set(got) != exp: fails.append(fail('C16.translate', f'input {list(w)}: outputs {sorted(set(got))} expected {sorted(exp)}')); break
        Bd = 4
        for name, thunk, ref in (('union', lambda: fa_.union(fb), X.ref_union(A, B)), ('__or__', lambda: fa_ | fb, X.ref_union(A, B)),
                                 ('concatenate', lambda: fa_.concatenate(fb), X.ref_concat(A, B)), ('__add__', lambda: fa_ + fb, X.ref_concat(A, B)),
                                 ('kleene_star', fa_.kleene_star, X.ref_star(A)),
                                 ('kleene_star.kleene_star', lambda: fa_.kleene_star().kleene_star(), X.ref_star(X.ref_star(A))),
                                 ('kleene_star.concatenate.kleene_star', lambda: fa_.kleene_star().concatenate(fb).kleene_star(), X.ref_star(X.ref_concat(X.ref_star(A), B)))):
            try: r = thunk()
            except TO: raise
            except Exception as ex: fails.append(fail(f'C16.{name}:exception', repr(ex))); continue
            Rr = X.extract(r)
            for w in W:
                got = X.outputs(Rr, w, Bd); exp = X.outputs(ref, w, Bd)
                if got != exp:
                    f = fail(f'C16.{name}.relation', f'input {list(w)}: outputs(<= {Bd} symbols) {sorted(got)} expected {sorted(exp)}')
                    fails.append(f); break
        if (X.extract(fa_), X.extract(fb)) != (beforeA, beforeB): fails.append(fail('C19.operand-unchanged', 'an FST operation changed an operand'))
        return fails, any(X.outputs(A, w) for w in W[:7]) and any(a is None for _, a, _, _ in A[2]), 1
    except TO:
        return fails + [fail('C16.timeout', 'more than 60 s')], True, 1
    finally:
        signal.alarm(0)
