"""C19 bounded stand-in: objects behave as values.  A history of public queries / conversions is run on one long-lived object;
every answer is compared with the answer of the same call on a freshly built equal object; returned objects are mutated through their
public mutators; at the end the structure of the operand(s) must be what it was."""
import random, itertools, json, hashlib
from specs import fa as F, cfg as C, pda as P, fst as X, ig as IG, regex as RX


def fail(check, detail): return {'check': check, 'detail': str(detail)[:600]}


# ------------------------------------------------------------------ summaries (semantic, independent of naming and set order)
def s_fa(a):
    R = F.extract(a)
    start, finals, delta, seen, alphabet = F.determinize(R)
    # canonical: accepted words up to length 4 over its alphabet + determinism flag
    return ('fa', tuple(sorted(F.language_upto(R, 3), key=repr)), tuple(sorted(R[1], key=repr)))
def s_cfg(g): return ('cfg', tuple(sorted(C.lang(C.extract(g), 3), key=repr))) if g.start_symbol is not None else ('cfg', ())
def s_pda(p):
    R = P.extract(p); al = sorted(P.alphabet(R), key=repr)
    return ('pda', tuple(sorted(P.language_upto(R, al, 2, 'final'), key=repr)), tuple(sorted(P.language_upto(R, al, 2, 'empty'), key=repr)))
def s_fst(f):
    T = X.extract(f)
    return ('fst', tuple((w, tuple(sorted(X.outputs(T, w, 3), key=repr))) for k in range(3) for w in itertools.product(['a', 'b'], repeat=k)))
def s_words(it, lim=200):
    out = []
    for w in it:
        out.append(tuple(getattr(x, 'value', x) for x in w))
        if len(out) > lim: break
    return tuple(sorted(out, key=repr))


def mutate_fa(a):
    for s in list(a.states)[:2]:
        a.add_final_state(s); a.add_start_state(s) if not type(a).__name__.startswith('Deterministic') else None
    try: a.add_transition('#m0', '#msym', '#m1'); a.add_final_state('#m1')
    except Exception: pass
def mutate_pda(p):
    p.add_final_state(p.start_state.value if p.start_state is not None else '#m'); p.add_transition('#m0', 'a', 'Z', '#m0', ['Z', 'Z'])
def mutate_fst(f):
    for s in list(f.states)[:2]: f.add_final_state(s); f.add_start_state(s)
    f.add_transition('#m0', 'a', '#m0', ['zz'])


W0, W1 = ['a'], ['a', 'b']

def _self_add(a, o):
    a.add_transition(sorted(a.states, key=repr)[0] if a.states else 's0', 'b' if type(a).__name__.startswith('Epsilon') or True else 'b', '#new'); a.add_final_state('#new'); return 'mutated'
def _self_add_eps(a, o):
    sts = sorted(a.states, key=repr)
    if type(a).__name__ != 'EpsilonNFA' or len(sts) < 2: return 'skip'
    a.add_transition(sts[-1], 'epsilon', sts[0]); return 'mutated'
def _self_remove(a, o):
    R = F.extract(a)
    if not R[4]: return 'skip'
    p_, a_, q_ = sorted(R[4], key=repr)[0]
    a.remove_transition(p_, 'epsilon' if a_ is None else a_, q_); return 'mutated'
def _self_final(a, o):
    sts = sorted(a.states, key=repr)
    if not sts: return 'skip'
    (a.remove_final_state if sts[0] in {F.val(x) for x in a.final_states} else a.add_final_state)(sts[0]); return 'mutated'
def _self_grow(a, o):
    """five more states (the state set is rehashed, so the states are listed in another order than before)"""
    for k in range(5): a.add_transition(f'#g{k}', 'c', f'#g{(k + 1) % 5}')
    return 'mutated'
def _all_words_cfg():
    from pyformlang.cfg import CFG
    return CFG.from_text('S -> S S | a | b | c | $')
def _self_remove_final(a, o):
    fs = sorted({F.val(x) for x in a.final_states}, key=repr)
    if not fs: return 'skip'
    a.remove_final_state(fs[0]); return 'mutated'
def _self_add_final(a, o):
    nf = sorted({F.val(x) for x in a.states} - {F.val(x) for x in a.final_states}, key=repr)
    if not nf: return 'skip'
    a.add_final_state(nf[0]); return 'mutated'
FA_OPS = {
    'SELF.remove_final': _self_remove_final, 'SELF.add_final': _self_add_final,
    'SELF.grow': _self_grow,
    'operand_of_cfg_intersection': lambda a, o: s_cfg(_all_words_cfg().intersection(a)),
    'operand_of_pda_intersection': lambda a, o: (lambda r: s_pda(r) if r.start_state is not None else 'empty')(_all_words_cfg().to_pda().to_final_state().intersection(a)),
    'SELF.add_transition': _self_add, 'SELF.add_epsilon_transition': _self_add_eps, 'SELF.remove_transition': _self_remove, 'SELF.toggle_final': _self_final,
    'accepts0': lambda a, o: a.accepts(W0), 'accepts1': lambda a, o: a.accepts(W1), 'accepts_eps': lambda a, o: a.accepts([]), 'accepts_b': lambda a, o: (a.accepts(['b']), a.accepts(['b', 'a'])),
    'is_empty': lambda a, o: a.is_empty(), 'is_deterministic': lambda a, o: a.is_deterministic(), 'is_acyclic': lambda a, o: a.is_acyclic(),
    'words2': lambda a, o: s_words(a.get_accepted_words(2)),
    'to_deterministic+mutate': lambda a, o: (lambda r: (s_fa(r), mutate_fa(r))[0])(a.to_deterministic()),
    'remove_epsilon+mutate': lambda a, o: (lambda r: (s_fa(r), mutate_fa(r))[0])(a.remove_epsilon_transitions()),
    'minimize+mutate': lambda a, o: (lambda r: (s_fa(r), mutate_fa(r))[0])(a.minimize()),
    'copy+mutate': lambda a, o: (lambda r: (s_fa(r), mutate_fa(r))[0])(a.copy()),
    'complement+mutate': lambda a, o: (lambda r: (s_fa(r), mutate_fa(r))[0])(a.get_complement()),
    'reverse+mutate': lambda a, o: (lambda r: (s_fa(r), mutate_fa(r))[0])(a.reverse()),
    'intersection_self': lambda a, o: s_fa(a.get_intersection(a)), 'intersection_other+mutate': lambda a, o: (lambda r: (s_fa(r), mutate_fa(r))[0])(a.get_intersection(o)),
    'difference_self': lambda a, o: s_fa(a.get_difference(a)), 'difference_other': lambda a, o: s_fa(a.get_difference(o)),
    'union_other+mutate': lambda a, o: (lambda r: (s_fa(r), mutate_fa(r))[0])(a.union(o)), 'concatenate_self': lambda a, o: s_fa(a.concatenate(a)),
    'kleene_star': lambda a, o: s_fa(a.kleene_star()), 'to_regex': lambda a, o: (lambda r: (r.accepts(W0), r.accepts(W1), r.accepts([])))(a.to_regex()),
    'equivalent_self': lambda a, o: a.is_equivalent_to(a), 'equivalent_other': lambda a, o: (a.is_equivalent_to(o), a == o),
    'to_fst': lambda a, o: (lambda r: (s_fst(r), mutate_fst(r))[0])(a.to_fst()),
    'to_dict+mutate': lambda a, o: (lambda d: (tuple(sorted(((F.val(p), F.val(x), F.val(q)) for p, by in d.items() for x, tos in by.items() for q in (tos if isinstance(tos, (set, list, tuple, frozenset)) else [tos])), key=repr)), d.clear())[0])(a.to_dict()),
}
RE_OPS = {
    'accepts0': lambda r, o: r.accepts(W0), 'accepts1': lambda r, o: r.accepts(W1), 'accepts_eps': lambda r, o: r.accepts([]), 'accepts_b': lambda r, o: (r.accepts(['b']), r.accepts(['b', 'a']), r.accepts(['#msym'])),
    'to_enfa+mutate': lambda r, o: (lambda e: (s_fa(e), mutate_fa(e))[0])(r.to_epsilon_nfa()),
    'to_cfg': lambda r, o: s_cfg(r.to_cfg()), 'str': lambda r, o: (lambda q: (q.accepts(W0), q.accepts(W1)))(type(r)(str(r))),
    'union_other_accepts': lambda r, o: (lambda u: (u.accepts(W0), u.accepts(W1), u.accepts(['b'])))(r.union(o)),
    'concat_other_accepts': lambda r, o: (lambda u: (u.accepts(W0), u.accepts(W1)))(r.concatenate(o)),
    'union_self_enfa+mutate': lambda r, o: (lambda e: (s_fa(e), mutate_fa(e))[0])(r.union(r).to_epsilon_nfa()),
    'star_accepts': lambda r, o: (lambda u: (u.accepts([]), u.accepts(W1), s_fa(u.to_epsilon_nfa())))(r.kleene_star()),
    'tree': lambda r, o: r.get_tree_str(), 'n_symbols': lambda r, o: (r.get_number_symbols(), r.get_number_operators()),
}
def _cfg_from_own_sets(g, o):
    """a second grammar built from the variable / terminal sets of the first one (plus one rule): the first one must not change"""
    from pyformlang.cfg import CFG, Variable, Terminal, Production
    top = Variable('#TOP'); extra = Production(top, [Terminal('#t'), g.start_symbol] if g.start_symbol is not None else [Terminal('#t')])
    h = CFG(g.variables, g.terminals, top, set(g.productions) | {extra})
    return s_cfg(h)
CFG_OPS = {
    'new_grammar_from_own_sets': _cfg_from_own_sets,
    'remove_epsilon.remove_useless': lambda g, o: s_cfg(g.remove_epsilon().remove_useless_symbols()),
    'remove_epsilon.is_empty.generating': lambda g, o: (lambda r: (r.is_empty(), tuple(sorted(map(repr, r.get_generating_symbols()))), tuple(sorted(map(repr, r.get_nullable_symbols())))))(g.remove_epsilon()),
    'eliminate_unit.remove_useless': lambda g, o: s_cfg(g.eliminate_unit_productions().remove_useless_symbols()),
    'remove_useless.normal_form.contains': lambda g, o: (lambda r: (s_cfg(r.to_normal_form()), r.contains(W0), r.contains(W1)))(g.remove_useless_symbols()),
    'reverse.reverse': lambda g, o: s_cfg(g.reverse().reverse()), 'normal_form.normal_form': lambda g, o: s_cfg(g.to_normal_form().to_normal_form()),
    'union_other.contains': lambda g, o: (lambda r: (r.contains(W0), r.contains(W1), r.is_empty(), r.generate_epsilon()))(g.union(o)),
    'closure.words': lambda g, o: s_words(g.get_closure().get_words(2)),
    'contains0': lambda g, o: g.contains(W0), 'contains1': lambda g, o: g.contains(W1), 'contains_eps': lambda g, o: g.contains([]),
    'is_empty': lambda g, o: g.is_empty(), 'is_finite': lambda g, o: g.is_finite(), 'generate_epsilon': lambda g, o: g.generate_epsilon(),
    'generating': lambda g, o: tuple(sorted(map(repr, g.get_generating_symbols()))), 'nullable': lambda g, o: tuple(sorted(map(repr, g.get_nullable_symbols()))),
    'generating+mutate': lambda g, o: (lambda s_: (tuple(sorted(map(repr, s_))), s_.clear())[0])(g.get_generating_symbols()),
    'nullable+mutate': lambda g, o: (lambda s_: (tuple(sorted(map(repr, s_))), s_.clear() if hasattr(s_, 'clear') else None)[0])(g.get_nullable_symbols()),
    'reachable+mutate': lambda g, o: (lambda s_: (tuple(sorted(map(repr, s_))), s_.clear() if hasattr(s_, 'clear') else None)[0])(g.get_reachable_symbols()),
    'reachable': lambda g, o: tuple(sorted(map(repr, g.get_reachable_symbols()))),
    'normal_form': lambda g, o: s_cfg(g.to_normal_form()), 'remove_epsilon': lambda g, o: s_cfg(g.remove_epsilon()),
    'remove_useless': lambda g, o: s_cfg(g.remove_useless_symbols()), 'eliminate_unit': lambda g, o: s_cfg(g.eliminate_unit_productions()),
    'words2': lambda g, o: s_words(g.get_words(2)), 'to_pda+mutate': lambda g, o: (lambda p: (s_pda(p), mutate_pda(p))[0])(g.to_pda()),
    'to_pda_to_cfg': lambda g, o: s_cfg(g.to_pda().to_cfg()),
    'intersection_regex': lambda g, o: s_cfg(g.intersection(__import__('pyformlang.regular_expression', fromlist=['Regex']).Regex('a (a|b)*'))),
    'intersection_twice': lambda g, o: (s_cfg(g.intersection(F.build(F.mk([0, 1], ['a', 'b'], [0], [1], [(0, 'a', 1), (1, 'b', 1)])))), s_cfg(o.intersection(F.build(F.mk([0], ['a'], [0], [0], [(0, 'a', 0)]))))),
    'union_self': lambda g, o: s_cfg(g.union(g)), 'union_other': lambda g, o: s_cfg(g | o), 'concatenate_other': lambda g, o: s_cfg(g + o),
    'closure': lambda g, o: s_cfg(g.get_closure()), 'reverse': lambda g, o: s_cfg(~g), 'cnf_tree': lambda g, o: _cnf_tree(g),
    'to_text': lambda g, o: tuple(sorted(g.to_text().split('\n'))), 'is_normal_form': lambda g, o: g.is_normal_form(),
}
def _cnf_tree(g):
    try: return repr(g.get_cnf_parse_tree(W1).get_leftmost_derivation()[-1])
    except Exception as ex: return type(ex).__name__
def _pda_grow(p, o):
    for k in range(5): p.add_transition(f'#g{k}', 'a', f'#G{k}', f'#g{(k + 1) % 5}', [f'#G{(k + 2) % 5}'])
    return 'mutated'
def _pda_dict_mutate(p, o):
    d = p.to_dict()
    out = tuple(sorted(((repr(k), tuple(sorted(map(repr, v)))) for k, v in d.items())))
    for k in list(d):
        try: d[k].clear()
        except Exception: pass
    d.clear(); return out
PDA_OPS = {
    'SELF.grow': _pda_grow, 'to_dict+mutate': _pda_dict_mutate,
    'to_final_state+mutate': lambda p, o: (lambda r: (s_pda(r), mutate_pda(r))[0])(p.to_final_state()),
    'to_empty_stack+mutate': lambda p, o: (lambda r: (s_pda(r), mutate_pda(r))[0])(p.to_empty_stack()),
    'to_cfg': lambda p, o: s_cfg(p.to_cfg()), 'to_cfg_twice': lambda p, o: (s_cfg(p.to_cfg()), s_cfg(o.to_cfg())),
    'intersection+mutate': lambda p, o: (lambda r: (s_pda(r), mutate_pda(r) if r.start_state is not None else None)[0])(p.intersection(F.build(F.mk([0, 1], ['a', 'b'], [0], [0, 1], [(0, 'a', 1), (1, 'b', 0)])))),
    'n_transitions': lambda p, o: p.get_number_transitions(), 'networkx': lambda p, o: s_pda(type(p).from_networkx(p.to_networkx())),
    'final_of_empty': lambda p, o: s_pda(p.to_empty_stack().to_final_state()),
}
FST_OPS = {
    'translate0': lambda f, o: s_words(f.translate(W0)), 'translate1': lambda f, o: s_words(f.translate(W1)), 'translate_eps': lambda f, o: s_words(f.translate([])),
    'union_other+mutate': lambda f, o: (lambda r: (s_fst(r), mutate_fst(r))[0])(f.union(o)), 'union_self': lambda f, o: s_fst(f | f),
    'concatenate_other+mutate': lambda f, o: (lambda r: (s_fst(r), mutate_fst(r))[0])(f.concatenate(o)), 'concatenate_self': lambda f, o: s_fst(f + f),
    'kleene_star+mutate': lambda f, o: (lambda r: (s_fst(r), mutate_fst(r))[0])(f.kleene_star()), 'n_transitions': lambda f, o: f.get_number_transitions(),
    'networkx': lambda f, o: s_fst(type(f).from_networkx(f.to_networkx())),
}
IG_OPS = {
    'is_empty': lambda g, o: g.is_empty(), 'bool': lambda g, o: bool(g), 'useless_empty': lambda g, o: g.remove_useless_rules().is_empty(),
    'reachable': lambda g, o: tuple(sorted(map(repr, g.get_reachable_non_terminals()))), 'generating': lambda g, o: tuple(sorted(map(repr, g.get_generating_non_terminals()))),
    'intersection_empty': lambda g, o: g.intersection(F.build(F.mk([0], ['a', 'b'], [0], [0], [(0, 'a', 0)]))).is_empty(), 'terminals': lambda g, o: tuple(sorted(map(repr, g.terminals))),
}


def maker(kind, d):
    if kind in ('ENFA', 'NFA', 'DFA'):
        cls = dict(F_classes())[kind]; return lambda: F.build(F.from_json(d), cls), FA_OPS, lambda a: F.extract(a)
    if kind == 'Regex':
        from pyformlang.regular_expression import Regex
        return lambda: Regex(d), RE_OPS, lambda r: (str(r), r.get_tree_str())
    if kind == 'CFG':
        def mk_cfg(d=d):
            from pyformlang.cfg import CFG, Variable, Terminal, Production
            g = C.from_json(d); obj = lambda s_: Variable(s_[1]) if C.is_var(s_) else Terminal(s_[1])
            prods = [Production(obj(h), [obj(x) for x in b]) for h, b in sorted(g[1], key=repr)]
            order = int(hashlib.sha1(json.dumps(d, sort_keys=True).encode()).hexdigest(), 16)
            if order % 3 == 1: prods.reverse()
            return CFG(start_symbol=Variable(g[0][1]), productions=prods if order % 3 else set(prods))      # list in two orders, or a set
        return mk_cfg, CFG_OPS, lambda g: (C.extract(g), sorted(map(repr, g.variables)), sorted(map(repr, g.terminals)))          # productions, and the registered alphabets
    if kind == 'PDA': return lambda: P.build(P.from_json(d)), PDA_OPS, lambda p: P.extract(p)
    if kind == 'FST': return lambda: X.build(X.from_json(d)), FST_OPS, lambda f: X.extract(f)
    if kind == 'IG': return lambda: IG.build([tuple(r) for r in d]), IG_OPS, lambda g: (sorted(map(repr, g.rules.rules)), sorted(map(repr, g.rules.consumption_rules.items())))
    raise ValueError(kind)


def F_classes():
    from pyformlang.finite_automaton import EpsilonNFA, NondeterministicFiniteAutomaton, DeterministicFiniteAutomaton
    return [('ENFA', EpsilonNFA), ('NFA', NondeterministicFiniteAutomaton), ('DFA', DeterministicFiniteAutomaton)]


OPS_BY_KIND = {'ENFA': FA_OPS, 'NFA': FA_OPS, 'DFA': FA_OPS, 'Regex': RE_OPS, 'CFG': CFG_OPS, 'PDA': PDA_OPS, 'FST': FST_OPS, 'IG': IG_OPS}


def cases(tier, seed):
    rng = random.Random(seed * 8191 + 77)
    n = 260 if tier == 'quick' else 2600
    def hist(kind): return [rng.choice(sorted(OPS_BY_KIND[kind])) for _ in range(rng.choice([2, 3, 4, 4]))]
    def desc(kind):
        if kind == 'ENFA': return F.to_json(F.random_enfa(rng, rng.choice([2, 3]), ['a', 'b'], eps=rng.random() < 0.6)), F.to_json(F.random_enfa(rng, 2, ['a', 'b'], eps=rng.random() < 0.5))
        if kind == 'NFA': return F.to_json(F.random_enfa(rng, rng.choice([2, 3]), ['a', 'b'], eps=False)), F.to_json(F.random_enfa(rng, 2, ['a', 'b'], eps=False))
        if kind == 'DFA': return F.to_json(F.random_dfa(rng, rng.choice([2, 3]), ['a', 'b'])), F.to_json(F.random_dfa(rng, 2, ['a', 'b']))
        if kind == 'Regex': return RX.render(RX.random_ast(rng, 2, ['a', 'b']), rng), RX.render(RX.random_ast(rng, 1, ['a', 'b']), rng)
        if kind == 'CFG': return C.to_json(C.random_grammar(rng, ['S', 'A'], ['a', 'b'], 3, rng.choice([2, 3, 4]))), C.to_json(C.random_grammar(rng, ['S', 'A'], ['a', 'b'], 2, rng.choice([1, 2, 3])))
        if kind == 'PDA': return P.to_json(P.random_pda(rng, reserved=0.1)), P.to_json(P.random_pda(rng, reserved=0.0))
        if kind == 'FST': return X.to_json(X.random_fst(rng)), X.to_json(X.random_fst(rng))
        return IG.random_rules(rng), IG.random_rules(rng)
    # every ordered pair of calls, each on a freshly drawn object (all call sequences of length 2 over the operation set)
    for kind in sorted(OPS_BY_KIND):
        names = sorted(OPS_BY_KIND[kind])
        for a in names:
            for b in names:
                for rep in range(1 if tier == 'quick' else 4):
                    o, o2 = desc(kind)
                    yield {'kind': kind, 'obj': o, 'other': o2, 'history': [a, b], 'origin': 'all ordered pairs of calls'}
    # query - mutate the object itself - same query again (caches that are not invalidated by every mutator)
    for kind in ('ENFA', 'NFA', 'DFA'):
        names = sorted(OPS_BY_KIND[kind])
        for q in [x for x in names if not x.startswith('SELF.')]:
            for m in [x for x in names if x.startswith('SELF.')]:
                for rep in range(4 if tier == 'quick' else 12):
                    o, o2 = desc(kind)
                    yield {'kind': kind, 'obj': o, 'other': o2, 'history': [q, m, q], 'origin': 'query, mutate, same query'}
    # conversion - grow the object itself - same conversion (indices cached on State / StackSymbol objects by a previous converter)
    rng5 = random.Random(seed * 15485863 + 3)
    for rep in range(30 if tier == 'quick' else 300):
        D = F.random_dfa(rng5, rng5.choice([2, 3, 4]), ['a', 'b'], names=rng5.sample(['s0', 'q1', 'p2', 'x3', 'r4', 'zz', 'k', 8, 1, 16], 4))
        q = rng5.choice(['operand_of_cfg_intersection', 'operand_of_pda_intersection'])
        yield {'kind': rng5.choice(['DFA', 'DFA', 'NFA', 'ENFA']), 'obj': F.to_json(D), 'other': F.to_json(D), 'history': [q, 'SELF.grow', q], 'origin': 'conversion, grow the operand, same conversion'}
        yield {'kind': 'PDA', 'obj': P.to_json(P.random_pda(rng5, reserved=0.0)), 'other': P.to_json(P.random_pda(rng5, reserved=0.0)), 'history': ['to_cfg', 'SELF.grow', 'to_cfg'], 'origin': 'conversion, grow the operand, same conversion'}
    # the memoised analyses of a grammar, in every order, on grammars where the counters do real work
    ANALYSES = ['generating', 'nullable', 'is_empty', 'generate_epsilon', 'contains_eps', 'words2', 'remove_useless', 'remove_epsilon', 'normal_form', 'is_finite']
    rng4 = random.Random(seed * 32452843 + 9)
    for a in ANALYSES:
        for b in ANALYSES:
            for rep in range(3 if tier == 'quick' else 12):
                g = C.random_nullable_heavy(rng4)
                yield {'kind': 'CFG', 'obj': C.to_json(g), 'other': C.to_json(g), 'history': [a, b] + ([rng4.choice(ANALYSES)] if rep == 2 else []), 'origin': 'analyses of a nullable-heavy grammar, all ordered pairs'}
    for i in range(n):
        R = F.random_enfa(rng, rng.choice([1, 2, 3]), ['a', 'b'], eps=rng.random() < 0.5); R2 = F.random_enfa(rng, rng.choice([1, 2]), ['a', 'b'], eps=rng.random() < 0.5)
        yield {'kind': 'ENFA', 'obj': F.to_json(R), 'other': F.to_json(R2), 'history': hist('ENFA')}
        N = F.random_enfa(rng, rng.choice([1, 2, 3]), ['a', 'b'], eps=False)
        yield {'kind': 'NFA', 'obj': F.to_json(N), 'other': F.to_json(F.random_enfa(rng, 2, ['a', 'b'], eps=False)), 'history': hist('NFA')}
        D = F.random_dfa(rng, rng.choice([1, 2, 3]), ['a', 'b'])
        yield {'kind': 'DFA', 'obj': F.to_json(D), 'other': F.to_json(F.random_dfa(rng, 2, ['a', 'b'])), 'history': hist('DFA')}
        yield {'kind': 'Regex', 'obj': RX.render(RX.random_ast(rng, 2, ['a', 'b']), rng), 'other': RX.render(RX.random_ast(rng, 1, ['a', 'b']), rng), 'history': hist('Regex')}
        g = C.random_grammar(rng, ['S', 'A'], ['a', 'b'], 3, rng.choice([2, 3, 4])); g2 = C.random_grammar(rng, ['S', 'A'], ['a', 'b'], 2, rng.choice([1, 2, 3]))
        yield {'kind': 'CFG', 'obj': C.to_json(g), 'other': C.to_json(g2), 'history': hist('CFG')}
        yield {'kind': 'PDA', 'obj': P.to_json(P.random_pda(rng, reserved=0.1)), 'other': P.to_json(P.random_pda(rng, reserved=0.0)), 'history': hist('PDA')}
        yield {'kind': 'FST', 'obj': X.to_json(X.random_fst(rng)), 'other': X.to_json(X.random_fst(rng)), 'history': hist('FST')}
        yield {'kind': 'IG', 'obj': IG.random_rules(rng), 'other': IG.random_rules(rng), 'history': hist('IG')}


def rebuild(kind, obj, make):
    """a freshly built object equal to the current state of `obj` (automata can have been mutated by SELF.* operations)"""
    if kind in ('ENFA', 'NFA', 'DFA'): return F.build(F.extract(obj), dict(F_classes())[kind])
    if kind == 'PDA': return P.build(P.extract(obj))
    return make()


def run_op(fn, obj, other):
    try: return ('ok', fn(obj, other))
    except RecursionError: return ('exc', 'RecursionError')
    except Exception as ex: return ('exc', type(ex).__name__)


def check(case):
    kind = case['kind']; fails = []
    make, ops, struct = maker(kind, case['obj']); make_other, _, _ = maker(kind, case['other'])
    obj = make(); other = make_other()
    s0, o0 = struct(obj), struct(other)
    trail = []
    for name in case['history']:
        fresh, fresh_other = rebuild(kind, obj, make), rebuild(kind, other, make_other)
        got = run_op(ops[name], obj, other)
        exp = run_op(ops[name], fresh, fresh_other)
        if name.startswith('SELF.'): s0 = struct(obj); trail.append(name); continue          # a mutation of the object itself: from now on `equal object` means equal to the new state
        trail.append(name)
        if json.dumps(got, default=repr, sort_keys=True) != json.dumps(exp, default=repr, sort_keys=True):
            fails.append(fail(f'C19.{kind}.history', f'after {trail[:-1]} the call {name} answers {str(got)[:150]}; a fresh equal object answers {str(exp)[:150]}')); break
    try:
        if struct(obj) != s0: fails.append(fail(f'C19.{kind}.operand-changed', f'history {trail} changed the object'))
        if struct(other) != o0: fails.append(fail(f'C19.{kind}.operand-changed', f'history {trail} changed the second operand'))
    except Exception as ex: fails.append(fail(f'C19.{kind}.operand-changed', f'history {trail}: reading the object back failed: {ex!r}'))
    if fails and kind == 'DFA' and 'to_deterministic+mutate' in case['history'] and not case.get('_retry'):
        # finding F-C19-dfa-to-deterministic-self: DFA.to_deterministic() is the object itself (the repository test suite asserts it).
        # The failure is attributed to it only if the same history without mutating that result passes.
        FA_OPS['to_deterministic'] = lambda a, o: s_fa(a.to_deterministic())
        again = dict(case, history=[h if h != 'to_deterministic+mutate' else 'to_deterministic' for h in case['history']], _retry=True)
        if not check(again)[0]:
            for f in fails: f['tags'] = ['dfa-to_deterministic-returns-self']
    return fails, len(set(case['history'])) >= 2, len(case['history'])
