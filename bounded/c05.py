"""C05 bounded stand-in: Regex text semantics against specs/regex.py."""
import random, itertools
from specs import regex as X, fa as F, cfg as C

TOKS = ['a', 'b', ' ', '.', '|', '*', '(', ')', '$']
SYMS = ['a', 'b', 'ab', 'c1x', '|', '*', '(', '.']


def fail(check, detail): return {'check': check, 'detail': str(detail)[:500]}


def cases(tier, seed):
    for k in range(0, 5 if tier == 'quick' else 6):
        for combo in itertools.product(TOKS, repeat=k):
            yield {'text': ''.join(combo), 'origin': f'exhaustive token strings, {k} tokens'}
    rng = random.Random(seed * 4099 + 23)
    n = 2500 if tier == 'quick' else 25000
    for i in range(n):
        ast = X.random_ast(rng, rng.choice([1, 2, 3, 3]), SYMS[:rng.choice([2, 4, 8])])
        text = X.render(ast, rng, redundant=rng.choice([0.0, 0.2, 0.5]))
        if rng.random() < 0.25:          # damage it: drop / insert / duplicate a character that is an operator or parenthesis
            pos = rng.randrange(len(text) + 1); kind = rng.random()
            if kind < 0.4 and text: text = text[:pos] + text[pos + 1:]
            else: text = text[:pos] + rng.choice(['(', ')', '|', '*', '.', '+']) + text[pos:]
            origin = 'random rendering, damaged'
        else: origin = 'random rendering'
        if rng.random() < 0.3:
            ast2 = X.random_ast(rng, 2, SYMS[:4]); yield {'text': text, 'text2': X.render(ast2, rng) if rng.random() < 0.85 else '', 'origin': origin + ' + combinators'}
        else: yield {'text': text, 'origin': origin}
    # symbols spelled like the variables that to_cfg invents (A0, A1, ...), and S: a symbol and a variable with one value must stay apart (fix a638715)
    rng2 = random.Random(seed * 7877 + 41)
    for i in range(300 if tier == 'quick' else 3000):
        ast = X.random_ast(rng2, rng2.choice([1, 2, 3]), rng2.sample(['A0', 'A1', 'A2', 'S', 'a'], rng2.choice([2, 3, 4])))
        yield {'text': X.render(ast, rng2, redundant=rng2.choice([0.0, 0.3])), 'origin': 'random rendering, symbols named like to_cfg variables'}


def words(ast, n):
    syms = sorted(X.symbols(ast)) + ['#zz']
    return [list(w) for k in range(n + 1) for w in itertools.product(syms[:4], repeat=k)]


def check(case):
    from pyformlang.regular_expression import Regex, MisformedRegexError
    text = case['text']; fails = []
    try: ast = X.parse(text); wf = True
    except X.IllFormed: ast = None; wf = False
    except X.OutOfScope: return [], False, 0
    try: r = Regex(text); refused = False
    except MisformedRegexError: refused = True
    except Exception as ex:
        return [fail('C05.construct:exception', f'Regex({text!r}) raised {type(ex).__name__}: {ex} (well-formed: {wf})')], wf, 1
    if wf and refused: return [fail('C05.wellformed-refused', f'{text!r}')], True, 1
    if not wf:
        if not refused:
            f = fail('C05.illformed-accepted', f'{text!r} read as {r}')
            if X.dangling_operator(text): f['tags'] = ['dangling-operator']
            fails.append(f)
        return fails, False, 1
    n = 3
    W = words(ast, n)
    exp = {tuple(w) for w in W if X.matches(ast, w)}
    def cmp(name, accept):
        try:
            got = {tuple(w) for w in W if accept(w)}
        except Exception as ex:
            fails.append(fail(name + ':exception', f'{text!r}: {type(ex).__name__}: {ex}')); return
        if got != exp: fails.append(fail(name, f'{text!r}: differs on {sorted(got ^ exp)[:3]}'))
    cmp('C05.accepts', lambda w: Regex(text).accepts(w))
    try:
        R = F.extract(Regex(text).to_epsilon_nfa()); cmp('C05.to_epsilon_nfa', lambda w: F.accepts(R, w))
    except Exception as ex: fails.append(fail('C05.to_epsilon_nfa:exception', f'{text!r}: {ex!r}'))
    try:
        G = C.extract(Regex(text).to_cfg()); L = C.lang(G, n); cmp('C05.to_cfg', lambda w: tuple(w) in L)
        g = Regex(text).to_cfg(); cmp('C05.to_cfg.contains', lambda w: g.contains(w))
    except Exception as ex: fails.append(fail('C05.to_cfg:exception', f'{text!r}: {ex!r}'))
    try:
        s = str(Regex(text)); back = Regex(s); cmp('C05.str-roundtrip', lambda w: back.accepts(w))
    except Exception as ex: fails.append(fail('C05.str-roundtrip:exception', f'{text!r}: str gives {s if "s" in dir() else "?"!r}: {type(ex).__name__}'))
    if case.get('text2') is not None:
        try: ast2 = X.parse(case['text2'])
        except (X.IllFormed, X.OutOfScope): ast2 = None
        if ast2 is not None:
            W2 = words(('cat', ast, ast2), n)
            for name, build, tree in (('union', lambda a, b: a.union(b), ('alt', ast, ast2)), ('__or__', lambda a, b: a | b, ('alt', ast, ast2)),
                                      ('concatenate', lambda a, b: a.concatenate(b), ('cat', ast, ast2)), ('__add__', lambda a, b: a + b, ('cat', ast, ast2)),
                                      ('kleene_star', lambda a, b: a.kleene_star(), ('star', ast))):
                try:
                    rr = build(Regex(text), Regex(case['text2']))
                    bad = [w for w in W2 if rr.accepts(w) != X.matches(tree, w)]
                    if bad: fails.append(fail(f'C05.{name}', f'{text!r}, {case["text2"]!r}: differs on {bad[:2]}'))
                    Lc = C.lang(C.extract(rr.to_cfg()), n); Re = F.extract(rr.to_epsilon_nfa())
                    bad = [w for w in W2 if (tuple(w) in Lc) != X.matches(tree, w)]
                    if bad: fails.append(fail(f'C05.{name}.to_cfg', f'{text!r}, {case["text2"]!r}: differs on {bad[:2]}'))
                    bad = [w for w in W2 if F.accepts(Re, w) != X.matches(tree, w)]
                    if bad: fails.append(fail(f'C05.{name}.to_epsilon_nfa', f'{text!r}, {case["text2"]!r}: differs on {bad[:2]}'))
                except Exception as ex: fails.append(fail(f'C05.{name}:exception', f'{text!r}: {ex!r}'))
    return fails, len(exp) > 0 and ast[0] in ('cat', 'alt', 'star'), 1
