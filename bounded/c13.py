"""C13 bounded stand-in: CFG <-> PDA and acceptance-mode conversions against the exact PDA membership oracle."""
import random
from specs import pda as P, cfg as C
from bounded import pda_checks as K, cfg_gen as G


def cases(tier, seed):
    rng = random.Random(seed * 7727 + 11)
    n = 2500 if tier == 'quick' else 25000
    for i in range(n):
        yield {'kind': 'pda', 'P': P.to_json(P.random_pda(rng))}
    # states, stack symbols (and input symbols) sharing raw values: 0 / 1 / 'A' name a state and a stack symbol at the same time
    rng3 = random.Random(seed * 6151 + 3)
    for i in range(300 if tier == 'quick' else 3000):
        X = P.random_pda(rng3, reserved=0.0); vals = rng3.choice([[0, 1, 2], ['A', 'B', 'Z'], [1, 'a', 'Z']])
        rs = dict(zip(['q', 'r', 'p'], vals)); rk = dict(zip(['Z', 'A', 'B'], vals))
        yield {'kind': 'pda', 'P': P.to_json(P.mk(rs[X[0]], rk[X[1]], [rs[f] for f in X[2]], [(rs[p_], a_, rk[x_], rs[q_], tuple(rk[y_] for y_ in push)) for p_, a_, x_, q_, push in X[3]]))}
    for g, origin in G.grammars(tier, seed, n_random=600, exhaustive_prods=2):
        if all(isinstance(s[1], str) for h, b in g[1] for s in (h,) + b):      # to_pda stringifies symbol values: string symbols only
            yield {'kind': 'cfg', 'G': C.to_json(g)}
    # variables whose names look like the stack symbols to_pda gives to terminals ('#TERM#' + value), and quoted variants of them
    rng2 = random.Random(seed * 9173 + 5)
    for i in range(300 if tier == 'quick' else 3000):
        vs = ['S'] + rng2.sample(['#TERM#a', '#TERM#b', "#TERM#a'", 'A'], rng2.choice([1, 2]))
        yield {'kind': 'cfg', 'G': C.to_json(C.random_grammar(rng2, vs, ['a', 'b'], rng2.choice([2, 3, 4]), rng2.choice([3, 4, 5])))}
    # a variable and a terminal with the same value: Variable('a') == Terminal('a') is True, Terminal('a') == Variable('a') is False and both
    # hash alike; to_pda keeps them apart (PDAObjectCreator registers terminals first) - only the to_pda language is checked on these
    for i in range(200 if tier == 'quick' else 2000):
        vs = ['S'] + rng2.sample(['a', 'b', 'A'], rng2.choice([1, 2]))
        yield {'kind': 'cfg-samevalue', 'G': C.to_json(C.random_grammar(rng2, vs, ['a', 'b'], rng2.choice([2, 3]), rng2.choice([3, 4, 5])))}


def check(case):
    if case['kind'] == 'pda':
        X = P.from_json(case['P'])
        nontrivial = any(P.accepts(X, w, m) for m in ('final', 'empty') for w in K.words(sorted(P.alphabet(X), key=repr), 2)) and any(len(t[4]) >= 2 for t in X[3])
        return K.c13_pda(X, 3), nontrivial, 1
    g = C.from_json(case['G'])
    if case['kind'] == 'cfg-samevalue': return K.c13_cfg(g, 3, roundtrip=False), G.nontrivial(g), 1
    return K.c13_cfg(g, 3), G.nontrivial(g), 1
