"""C06 bounded stand-in: to_regex keeps the language."""
from specs import fa as S
from bounded import fa_checks as K, fa_gen as G


def cases(tier, seed):
    for R, scheme, origin in G.singles(tier, seed, n_random=1500, adv_share=0.0):
        yield G.case_of(R, scheme, origin)


def check(case):
    R = S.from_json(case['R'])
    fails = K.c06(R, 3)
    if len(R[2]) > 1:
        for f in fails: f['tags'] = ['several-start-states']
    return fails, G.nontrivial(R), 1
