"""C08 bounded stand-in (see bounded/cfg_checks.py)."""
from specs import cfg as S
from bounded import cfg_checks as K, cfg_gen as G


def cases(tier, seed):
    for g, origin in G.grammars(tier, seed):
        yield {'G': S.to_json(g), 'origin': origin}


def check(case):
    g = S.from_json(case['G'])
    fails = K.c08(g, 4)
    if len(g[1]) <= 1: fails += K.c08(g, 3, extra_vars=['X'], extra_terms=['a', 'c'])      # declared but unused symbols
    return fails, G.nontrivial(g), 1
