"""C14 bounded stand-in: FIRST / FOLLOW, the LL(1) verdict, the table-driven parser."""
import itertools
from specs import cfg as C, ll1 as L
from bounded import cfg_gen as G


def fail(check, detail): return {'check': check, 'detail': str(detail)[:500]}


def useless_free(g):
    gen, reach = C.generating(g), C.reachable(g)
    return bool(g[1]) and all(s in gen and s in reach for h, b in g[1] for s in (h,) + b)


def cases(tier, seed):
    for g, origin in G.grammars(tier, seed, n_random=2500, exhaustive_prods=3):
        if useless_free(g) and all(isinstance(s[1], str) for h, b in g[1] for s in (h,) + b):
            yield {'G': C.to_json(g), 'origin': origin}


def conv_first(x):
    from pyformlang.cfg import Epsilon
    return L.EPS if isinstance(x, Epsilon) else C.sym_of(x)


def check(case):
    from pyformlang.cfg.llone_parser import LLOneParser
    from pyformlang.cfg.cfg import NotParsableException
    g = C.from_json(case['G']); fails = []
    nl, first, follow, _ = L.first_follow(g)
    try:
        fs = LLOneParser(C.build(g)).get_first_set()
        for v in C.variables(g):
            got = {conv_first(x) for x in fs.get(C.build(g).start_symbol.__class__(v[1]), set())}
            exp = set(first[v]) | ({L.EPS} if v in nl else set())
            if got != exp: fails.append(fail('C14.get_first_set', f'FIRST({v[1]}) = {sorted(got)} expected {sorted(exp)}')); break
    except Exception as ex: fails.append(fail('C14.get_first_set:exception', repr(ex)))
    try:
        fo = LLOneParser(C.build(g)).get_follow_set()
        from pyformlang.cfg import Variable
        for v in C.variables(g):
            got = {L.END if x == '$' else C.sym_of(x) for x in fo.get(Variable(v[1]), set())}
            if got != follow[v]: fails.append(fail('C14.get_follow_set', f'FOLLOW({v[1]}) = {sorted(got)} expected {sorted(follow[v])}')); break
    except Exception as ex: fails.append(fail('C14.get_follow_set:exception', repr(ex)))
    exp_ll1 = L.is_ll1(g)
    try:
        got = LLOneParser(C.build(g)).is_llone_parsable()
        if bool(got) != exp_ll1: fails.append(fail('C14.is_llone_parsable', f'returned {got}; LL(1): {exp_ll1}'))
    except Exception as ex: fails.append(fail('C14.is_llone_parsable:exception', repr(ex)))
    if exp_ll1:
        n = 4; lang = C.lang(g, n); ts = sorted({t[1] for t in C.terminals(g)})
        for w in [w for k in range(n + 1) for w in itertools.product(ts + ['#zz'], repeat=k)]:
            try:
                t = LLOneParser(C.build(g)).get_llone_parse_tree(list(w))
                if w not in lang: fails.append(fail('C14.get_llone_parse_tree', f'a tree is returned for the non-member {list(w)}')); break
                try:
                    y = L.tree_yield(t, g[1], root=g[0])
                    if tuple(y) != w: fails.append(fail('C15.llone.tree', f'word {list(w)}: leaves spell {y}')); break
                except ValueError as ex: fails.append(fail('C15.llone.tree', f'word {list(w)}: {ex}')); break
            except NotParsableException:
                if w in lang: fails.append(fail('C14.get_llone_parse_tree', f'the member {list(w)} is refused')); break
            except Exception as ex:
                fails.append(fail('C14.get_llone_parse_tree:exception', f'word {list(w)} (member: {w in lang}): {type(ex).__name__}: {ex}')); break
    return fails, exp_ll1 and (C.has_epsilon_production(g) or len(g[1]) >= 3), 1
