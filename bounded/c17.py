"""C17 bounded stand-in: indexed-grammar emptiness is exact and independent of rule order / optim; intersection."""
import random, itertools
from specs import ig as X, fa as F


def fail(check, detail): return {'check': check, 'detail': str(detail)[:500]}


def cases(tier, seed):
    rng = random.Random(seed * 5939 + 41)
    n = 1500 if tier == 'quick' else 15000
    for i in range(n):
        yield {'kind': 'empty', 'rules': X.random_rules(rng), 'perm_seed': rng.randrange(10 ** 6)}
    for i in range(n // 2):
        yield {'kind': 'empty', 'rules': X.structured_rules(rng), 'perm_seed': rng.randrange(10 ** 6), 'family': 'structured'}
    for i in range(n // 3):
        R = F.random_enfa(rng, rng.choice([1, 2]), ['a', 'b'][:rng.choice([1, 2])], eps=rng.random() < 0.4)
        yield {'kind': 'inter', 'rules': X.random_rules(rng, n_rules=rng.randint(2, 5)), 'R': F.to_json(R), 'as': rng.choice(['enfa', 'regex'])}


def rules_of(j): return [tuple(r) for r in j]


def check(case):
    rules = rules_of(case['rules']); fails = []
    if case['kind'] == 'empty':
        exp = X.is_empty(rules)
        dup_cons = len({r for r in rules if r[0] == 'cons'}) != len([r for r in rules if r[0] == 'cons'])
        rng = random.Random(case['perm_seed'])
        perms = list(itertools.permutations(rules)) if len(rules) <= 4 else [tuple(rng.sample(rules, len(rules))) for _ in range(12 if len(rules) <= 6 else 5)]
        verdicts = {}
        for optim in range(9):
            for perm in (perms if optim in (0, 7) else perms[:3]):
                try:
                    if optim == 8: random.seed(case['perm_seed'])
                    got = X.build(list(perm), optim).is_empty()
                except Exception as ex:
                    f = fail('C17.is_empty:exception', f'optim={optim} order={list(perm)}: {type(ex).__name__}: {ex}')
                    fails.append(f); break
                verdicts.setdefault(bool(got), (optim, perm))
                if bool(got) != exp:
                    fails.append(fail('C17.is_empty', f'optim={optim} order={list(perm)}: returned {got}, a terminal word is derivable: {not exp}')); break
        if len(verdicts) > 1 and not fails: fails.append(fail('C17.is_empty.order-dependent', str(verdicts)))
        try:
            g = X.build(rules); u = g.remove_useless_rules()
            if bool(u.is_empty()) != exp: fails.append(fail('C17.remove_useless_rules', f'emptiness changed to {u.is_empty()}'))
        except Exception as ex: fails.append(fail('C17.remove_useless_rules:exception', f'{type(ex).__name__}: {ex}'))
        return fails, not exp and any(r[0] == 'cons' for r in rules) and any(r[0] == 'prod' for r in rules), 1
    R = F.from_json(case['R'])
    prod, st = X.product_with_dfa(rules, R)
    exp = X.is_empty(prod, st)
    try:
        other = F.build(R) if case['as'] == 'enfa' else F.build(R).to_regex()
        got = X.build(rules).intersection(other).is_empty()
        if bool(got) != exp: fails.append(fail(f'C17.intersection[{case["as"]}].is_empty', f'returned {got}; some derivable word is accepted: {not exp}'))
    except Exception as ex: fails.append(fail(f'C17.intersection[{case["as"]}]:exception', f'{type(ex).__name__}: {ex}'))
    return fails, not exp, 1
