"""C15 bounded stand-in: every parse tree / derivation handed out is a real derivation of the given word."""
import itertools, signal
from specs import cfg as C, ll1 as L
from bounded import cfg_gen as G


def fail(check, detail): return {'check': check, 'detail': str(detail)[:500]}
class TO(Exception): pass
def _alarm(*a): raise TO()


def cases(tier, seed):
    for g, origin in G.grammars(tier, seed, n_random=1500, exhaustive_prods=2 if tier == 'quick' else 3):
        if g[1] and all(isinstance(s[1], str) for h, b in g[1] for s in (h,) + b):
            yield {'G': C.to_json(g), 'origin': origin}


def build_fcfg(g):
    from pyformlang.fcfg import FCFG, FeatureProduction, FeatureStructure
    from pyformlang.cfg import Variable, Terminal
    def obj(s): return Variable(s[1]) if C.is_var(s) else Terminal(s[1])
    prods = {FeatureProduction(obj(h), [obj(s) for s in b], FeatureStructure(), [FeatureStructure() for _ in b]) for h, b in sorted(g[1], key=repr)}
    return FCFG(start_symbol=Variable(g[0][1]), productions=prods)


def derivations(name, tree, prods, root, w, fails):
    for left, meth in ((True, 'get_leftmost_derivation'), (False, 'get_rightmost_derivation')):
        try:
            steps = getattr(tree, meth)()
            L.check_derivation(steps, prods, root, w, leftmost=left)
        except ValueError as ex: fails.append(fail(f'C15.{name}.{meth}', f'word {list(w)}: {ex}')); return
        except Exception as ex: fails.append(fail(f'C15.{name}.{meth}:exception', f'word {list(w)}: {type(ex).__name__}: {ex}')); return


def check(case):
    from pyformlang.cfg.cfg import NotParsableException
    from pyformlang.cfg.cyk_table import DerivationDoesNotExist
    from pyformlang.cfg.llone_parser import LLOneParser
    from pyformlang.cfg.recursive_decent_parser import RecursiveDecentParser
    g = C.from_json(case['G']); fails = []
    n = 3; lang = C.lang(g, n); ts = sorted({t[1] for t in C.terminals(g)})
    W = [w for k in range(n + 1) for w in itertools.product(ts + ['#zz'], repeat=k)]
    nf = C.extract(C.build(g).to_normal_form())
    signal.signal(signal.SIGALRM, _alarm)
    def run(name, make, prods, root, refuse_exc, skip_empty=False):
        for w in W:
            if skip_empty and not w: continue
            try:
                signal.alarm(20)
                try: t = make(w)
                finally: signal.alarm(0)
            except refuse_exc:
                if w in lang: fails.append(fail(f'C15.{name}.refuses-member', f'{list(w)}')); return
                continue
            except TO: fails.append(fail(f'C15.{name}.timeout', f'{list(w)}')); return
            except Exception as ex:
                fails.append(fail(f'C15.{name}:exception', f'word {list(w)} (member: {w in lang}): {type(ex).__name__}: {ex}')); return
            if w not in lang: fails.append(fail(f'C15.{name}.tree-for-non-member', f'{list(w)}')); return
            try:
                y = L.tree_yield(t, prods, root=root)
                if tuple(y) != w: fails.append(fail(f'C15.{name}.tree', f'word {list(w)}: leaves spell {y}')); return
            except ValueError as ex: fails.append(fail(f'C15.{name}.tree', f'word {list(w)}: {ex}')); return
            derivations(name, t, prods, root, w, fails)
    run('cnf', lambda w: C.build(g).get_cnf_parse_tree(list(w)), nf[1], g[0], DerivationDoesNotExist, skip_empty=True)
    if L.is_ll1(g) and all(s in C.generating(g) and s in C.reachable(g) for h, b in g[1] for s in (h,) + b):
        run('llone', lambda w: LLOneParser(C.build(g)).get_llone_parse_tree(list(w)), g[1], g[0], NotParsableException)
    def recursive(side):
        """some variable derives a form that begins (side=0) / ends (side=-1) with itself: the top-down parser from that side need not stop"""
        edges = {}
        for h, b in g[1]:
            if b and C.is_var(b[side]): edges.setdefault(h, set()).add(b[side])
        def reach(a):
            seen = set(); todo = list(edges.get(a, ()))
            while todo:
                x = todo.pop()
                if x not in seen: seen.add(x); todo += list(edges.get(x, ()))
            return seen
        return any(a in reach(a) for a in edges)
    if not C.has_epsilon_production(g) and not C.has_unit_production(g):
        if not recursive(0): run('recursive_descent[left]', lambda w: RecursiveDecentParser(C.build(g)).get_parse_tree(list(w), left=True), g[1], g[0], NotParsableException)
        if not recursive(-1): run('recursive_descent[right]', lambda w: RecursiveDecentParser(C.build(g)).get_parse_tree(list(w), left=False), g[1], g[0], NotParsableException)
    run('fcfg', lambda w: build_fcfg(g).get_parse_tree(list(w)), g[1], g[0], NotParsableException)
    tags = []
    if C.has_epsilon_production(g): tags.append('epsilon-production')
    for f in fails:
        if f['check'].startswith('C15.fcfg'): f['tags'] = tags
    return fails, G.nontrivial(g), 1
