"""Run-time contracts of the CFG API against specs/cfg.py (bounded stand-in for C08, C09, C10, C12)."""
import itertools
from specs import cfg as S


def fail(check, detail): return {'check': check, 'detail': str(detail)[:600]}


def guarded(check, thunk, fails):
    try: return True, thunk()
    except Exception as ex:      # noqa
        fails.append(fail(check + ':exception', f'{type(ex).__name__}: {ex}')); return False, None


def tvals(G): return sorted({t[1] for t in S.terminals(G)}, key=repr)


def fmt(L): return sorted(L, key=lambda w: (len(w), repr(w)))


# ----------------------------------------------------------------------------------------------- C08
def c08(G, n=4, extra_vars=(), extra_terms=()):
    fails = []
    L = S.lang(G, n)
    ok, g = guarded('C08.build', lambda: S.build(G, extra_vars, extra_terms), fails)
    if not ok: return fails
    for w in S.words_upto(sorted(set(tvals(G)) | set(extra_terms), key=repr) + ['#zz'], n):
        ok, got = guarded('C08.contains', lambda: g.contains(list(w)), fails)
        if not ok: break
        if bool(got) != (w in L):
            fails.append(fail('C08.contains', f'word {list(w)}: contains={got}, derivable={w in L}')); break
    g2 = S.build(G)
    for w in list(S.words_upto(tvals(G), min(n, 2))):
        ok, got = guarded('C08.__contains__', lambda: list(w) in g2, fails)
        if ok and bool(got) != (w in L): fails.append(fail('C08.__contains__', f'word {list(w)}: {got}')); break
    g3 = S.build(G)
    ok, got = guarded('C08.generate_epsilon', g3.generate_epsilon, fails)
    if ok and bool(got) != (() in L): fails.append(fail('C08.generate_epsilon', f'returned {got}'))
    return fails


# ----------------------------------------------------------------------------------------------- C09
def c09(G, n=4):
    fails = []
    L = S.lang(G, n); Lne = L - {()}
    def same(check, R, expect):
        got = S.lang(R, n)
        if got != expect:
            d = fmt(got ^ expect)[:3]
            fails.append(fail(check, f'language differs on {d} (in result: {[w in got for w in d]})'))
    # remove_useless_symbols
    ok, r = guarded('C09.remove_useless_symbols', lambda: S.build(G).remove_useless_symbols(), fails)
    if ok:
        R = S.extract(r); same('C09.remove_useless_symbols.language', R, L)
        gen, reach = S.generating(R), S.reachable(R)
        syms = {S.sym_of(v) for v in r.variables} | {S.sym_of(t) for t in r.terminals} | {s for h, b in R[1] for s in (h,) + b}
        bad = [s for s in syms if (s not in gen or s not in reach) and s != R[0]]
        if bad: fails.append(fail('C09.remove_useless_symbols.shape', f'useless symbols left: {bad}'))
    ok, r = guarded('C09.remove_epsilon', lambda: S.build(G).remove_epsilon(), fails)
    if ok:
        R = S.extract(r); same('C09.remove_epsilon.language', R, Lne)
        if S.has_epsilon_production(R): fails.append(fail('C09.remove_epsilon.shape', 'epsilon production left'))
    ok, r = guarded('C09.eliminate_unit_productions', lambda: S.build(G).eliminate_unit_productions(), fails)
    if ok:
        R = S.extract(r); same('C09.eliminate_unit_productions.language', R, L)
        if S.has_unit_production(R): fails.append(fail('C09.eliminate_unit_productions.shape', f'unit production left: {[p for p in R[1] if len(p[1]) == 1 and S.is_var(p[1][0])][:2]}'))
    ok, r = guarded('C09.to_normal_form', lambda: S.build(G).to_normal_form(), fails)
    if ok:
        R = S.extract(r); same('C09.to_normal_form.language', R, Lne)
        if not S.is_cnf(R): fails.append(fail('C09.to_normal_form.shape', f'not in Chomsky normal form: {[p for p in R[1] if not S.is_cnf(S.mk(R[0], [p]))][:2]}'))
        ok2, nf = guarded('C09.to_normal_form.is_normal_form', r.is_normal_form, fails)
        if ok2 and not nf: fails.append(fail('C09.to_normal_form.shape', 'is_normal_form() is False'))
    return fails


# ----------------------------------------------------------------------------------------------- C10
def cat(L1, L2, n): return {u + w for u in L1 for w in L2 if len(u) + len(w) <= n}


def star(L, n, plus=False):
    res = {()} ; cur = {()}
    while True:
        cur = cat(cur, L, n) - res
        if not cur: break
        res |= cur
    if plus: return cat(L, res, n)
    return res


def c10(G1, G2, n=4, same_object=False):
    fails = []
    L1, L2 = S.lang(G1, n), S.lang(G2, n)
    def run(name, thunk, expect):
        ok, r = guarded(f'C10.{name}', thunk, fails)
        if not ok: return
        try: got = S.lang(S.extract(r), n)
        except Exception as ex: fails.append(fail(f'C10.{name}:extract', repr(ex))); return
        if got != expect:
            d = fmt(got ^ expect)[:3]
            fails.append(fail(f'C10.{name}.language', f'differs on {d} (in result: {[w in got for w in d]})'))
    def ops():
        a = S.build(G1); b = a if same_object else S.build(G2); return a, b
    a, b = ops(); before = (S.extract(a), S.extract(b))
    run('union', lambda: a.union(b), L1 | L2)
    run('__or__', lambda: a | b, L1 | L2)
    run('concatenate', lambda: a.concatenate(b), cat(L1, L2, n))
    run('__add__', lambda: a + b, cat(L1, L2, n))
    run('get_closure', a.get_closure, star(L1, n))
    run('get_positive_closure', a.get_positive_closure, star(L1, n, plus=True))
    run('reverse', a.reverse, {w[::-1] for w in L1})
    run('__invert__', lambda: ~a, {w[::-1] for w in L1})
    # substitute: every terminal of G1 that is in `subst` is replaced by the language of G2
    ts = tvals(G1)
    if ts:
        from pyformlang.cfg import Terminal
        t0 = ts[0]
        ref = S.mk(S.V(('m', G1[0][1])),
                   [(S.V(('m', h[1])), tuple(S.V(('m', s[1])) if S.is_var(s) else (S.V(('s', G2[0][1])) if s[1] == t0 else s) for s in bd)) for h, bd in G1[1]] +
                   [(S.V(('s', h[1])), tuple(S.V(('s', s[1])) if S.is_var(s) else s for s in bd)) for h, bd in G2[1]])
        run('substitute', lambda: a.substitute({Terminal(t0): b}), S.lang(ref, n))
        if len(ts) > 1:
            # chained substitution: the second grammar is substituted into the result of the first (fresh names of step 1 meet those of step 2)
            t1 = ts[1]
            def sub_ref(host, tval, other, tag_):
                return S.mk(S.V((tag_, host[0][1])),
                            [(S.V((tag_, h[1])), tuple(S.V((tag_, s_[1])) if S.is_var(s_) else (S.V((tag_ + 's', other[0][1])) if s_[1] == tval else s_) for s_ in bd)) for h, bd in host[1]] +
                            [(S.V((tag_ + 's', h[1])), tuple(S.V((tag_ + 's', s_[1])) if S.is_var(s_) else s_ for s_ in bd)) for h, bd in other[1]])
            ref2 = sub_ref(sub_ref(G1, t0, G2, 'm'), t1, G2, 'n')
            run('substitute.substitute', lambda: a.substitute({Terminal(t0): b}).substitute({Terminal(t1): b}), S.lang(ref2, n))
    if (S.extract(a), S.extract(b)) != before: fails.append(fail('C19.operand-unchanged', 'a CFG operation changed an operand'))
    return fails


# ----------------------------------------------------------------------------------------------- C12
def c12(G, n=4):
    fails = []
    from pyformlang.cfg import Variable, Terminal
    L = S.lang(G, n)
    def symset(xs): return {S.sym_of(x) for x in xs}
    ok, got = guarded('C12.is_empty', lambda: S.build(G).is_empty(), fails)
    if ok and bool(got) != S.is_empty(G): fails.append(fail('C12.is_empty', f'returned {got}'))
    ok, got = guarded('C12.is_finite', lambda: S.build(G).is_finite(), fails)
    if ok and bool(got) != S.is_finite(G): fails.append(fail('C12.is_finite', f'returned {got}; finitely many words: {S.is_finite(G)}'))
    ok, got = guarded('C12.get_generating_symbols', lambda: symset(S.build(G).get_generating_symbols()), fails)
    if ok and got != S.generating(G): fails.append(fail('C12.get_generating_symbols', f'{sorted(got, key=repr)} expected {sorted(S.generating(G), key=repr)}'))
    ok, got = guarded('C12.get_nullable_symbols', lambda: symset(S.build(G).get_nullable_symbols()), fails)
    if ok and got != S.nullable(G): fails.append(fail('C12.get_nullable_symbols', f'{sorted(got, key=repr)} expected {sorted(S.nullable(G), key=repr)}'))
    ok, got = guarded('C12.get_reachable_symbols', lambda: symset(S.build(G).get_reachable_symbols()), fails)
    if ok and got != S.reachable(G): fails.append(fail('C12.get_reachable_symbols', f'{sorted(got, key=repr)} expected {sorted(S.reachable(G), key=repr)}'))
    def words(k, lim=3000):
        out = []
        for w in (S.build(G).get_words(k) if k is not None else S.build(G).get_words()):
            if not all(isinstance(x, Terminal) and not isinstance(x, Variable) for x in w):
                raise ValueError(f'yielded a non-terminal word {w}')
            out.append(tuple(x.value for x in w))
            if len(out) > lim: raise RuntimeError('does not stop (step budget)')
        return out
    for k in range(n + 1):
        ok, got = guarded('C12.get_words', lambda: words(k), fails)
        if not ok: break
        exp = {w for w in L if len(w) <= k}
        if sorted(got, key=repr) != sorted(exp, key=repr):
            fails.append(fail('C12.get_words', f'n={k}: yielded {fmt(got)[:6]} expected {fmt(exp)[:6]}' + (' (duplicates)' if len(got) != len(set(got)) else ''))); break
    longest = S.max_word_length(G)                   # exact length of the longest word of a finite non-empty language
    if S.is_finite(G) and (longest is None or longest <= 9):
        big = S.lang(G, longest if longest is not None else 0)
        if True:
            ok, got = guarded('C12.get_words.unbounded', lambda: words(None), fails)
            if ok and sorted(got, key=repr) != sorted(big, key=repr): fails.append(fail('C12.get_words.unbounded', f'yielded {fmt(got)[:6]} expected {fmt(big)[:6]}'))
    return fails
