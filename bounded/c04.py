"""C04 bounded stand-in: emptiness, determinism, acyclicity, word enumeration."""
from specs import fa as S
from bounded import fa_checks as K, fa_gen as G


def cases(tier, seed):
    for R, scheme, origin in G.singles(tier, seed, adv_share=0.05):
        yield G.case_of(R, scheme, origin)


def check(case):
    R = S.from_json(case['R'])
    return K.c04(R, 3), G.nontrivial(R), 1
