"""Run-time contracts of the PDA API and of the CFG/PDA intersections against specs/pda.py, specs/cfg.py, specs/fa.py."""
import itertools
from specs import pda as P, cfg as C, fa as F


def fail(check, detail): return {'check': check, 'detail': str(detail)[:600]}


def guarded(check, thunk, fails):
    try: return True, thunk()
    except Exception as ex:      # noqa
        fails.append(fail(check + ':exception', f'{type(ex).__name__}: {ex}')); return False, None


def words(alpha, n):
    return [w for k in range(n + 1) for w in itertools.product(sorted(alpha, key=repr), repeat=k)]


def c13_pda(R, n=3):
    fails = []
    alpha = sorted(P.alphabet(R) | {'a'}, key=repr)
    W = words(alpha, n)
    Lf = {w for w in W if P.accepts(R, w, 'final')}; Le = {w for w in W if P.accepts(R, w, 'empty')}
    src = P.build(R); before = P.extract(src)
    if before != R: fails.append(fail('C13.harness.extract', f'{P.to_json(before)}'))
    ok, r = guarded('C13.to_final_state', src.to_final_state, fails)
    if ok:
        X = P.extract(r); got = {w for w in W if P.accepts(X, w, 'final')}
        if got != Le: fails.append(fail('C13.to_final_state.language', f'differs on {sorted(got ^ Le)[:3]}'))
    ok, r = guarded('C13.to_empty_stack', src.to_empty_stack, fails)
    if ok:
        X = P.extract(r); got = {w for w in W if P.accepts(X, w, 'empty')}
        if got != Lf: fails.append(fail('C13.to_empty_stack.language', f'differs on {sorted(got ^ Lf)[:3]}'))
    ok, g = guarded('C13.to_cfg', src.to_cfg, fails)
    if ok:
        G = C.extract(g); got = {w for w in C.lang(G, n)}
        if got != Le: fails.append(fail('C13.to_cfg.language', f'differs on {sorted(got ^ Le)[:3]} (generated: {[w in got for w in sorted(got ^ Le)[:3]]})'))
        for w in W[:8]:
            ok2, c = guarded('C13.to_cfg.contains', lambda: g.contains(list(w)), fails)
            if ok2 and bool(c) != (w in Le): fails.append(fail('C13.to_cfg.contains', f'{w}: {c}')); break
    if P.extract(src) != before: fails.append(fail('C19.operand-unchanged', 'a PDA conversion changed its operand'))
    return fails


def c13_cfg(G, n=3, roundtrip=True):
    fails = []
    L = C.lang(G, n)
    ok, p = guarded('C13.to_pda', lambda: C.build(G).to_pda(), fails)
    if ok:
        X = P.extract(p); alpha = sorted({t[1] for t in C.terminals(G)}, key=repr)
        got = {w for w in words(alpha, n) if P.accepts(X, w, 'empty')}
        if got != L: fails.append(fail('C13.to_pda.language', f'differs on {sorted(got ^ L)[:3]}'))
        ok2, back = guarded('C13.to_pda.to_cfg', p.to_cfg, fails) if roundtrip else (False, None)
        if ok2:
            got = C.lang(C.extract(back), n)
            if got != L: fails.append(fail('C13.to_pda.to_cfg.language', f'differs on {sorted(got ^ L)[:3]}'))
    return fails


# ----------------------------------------------------------------------------------------------- C11
def regular_operand(kind, R):
    from pyformlang.finite_automaton import EpsilonNFA, NondeterministicFiniteAutomaton, DeterministicFiniteAutomaton
    if kind == 'ENFA': return F.build(R, EpsilonNFA)
    if kind == 'NFA': return F.build(R, NondeterministicFiniteAutomaton)
    if kind == 'DFA': return F.build(R, DeterministicFiniteAutomaton)
    if kind == 'regex': return F.build(R).to_regex()
    raise ValueError(kind)


def c11_cfg(G, R, kind, n=3):
    fails = []
    alpha = sorted({t[1] for t in C.terminals(G)} | set(R[1]), key=repr)
    L = C.lang(G, n)
    g = C.build(G)
    ok, other = guarded('C11.harness.operand', lambda: regular_operand(kind, R), fails)
    if not ok: return [fail('harness', fails[0]['detail'])] and []
    ok, r = guarded(f'C11.cfg.intersection[{kind}]', lambda: g.intersection(other), fails)
    if ok:
        got = C.lang(C.extract(r), n) if r.start_symbol is not None else set()
        exp = {w for w in L if F.accepts(R, list(w))}
        if got != exp: fails.append(fail(f'C11.cfg.intersection[{kind}].language', f'differs on {sorted(got ^ exp)[:3]} (in result: {[w in got for w in sorted(got ^ exp)[:3]]})'))
        for w in words(alpha, 2):
            ok2, c = guarded(f'C11.cfg.intersection[{kind}].contains', lambda: r.contains(list(w)), fails)
            if not ok2: break
            if bool(c) != (w in exp): fails.append(fail(f'C11.cfg.intersection[{kind}].contains', f'{w}: {c}')); break
    ok, r = guarded(f'C11.cfg.__and__[{kind}]', lambda: C.build(G) & regular_operand(kind, R), fails)
    if ok:
        got = C.lang(C.extract(r), n) if r.start_symbol is not None else set()
        exp = {w for w in L if F.accepts(R, list(w))}
        if got != exp: fails.append(fail(f'C11.cfg.__and__[{kind}].language', f'differs on {sorted(got ^ exp)[:3]}'))
    return fails


def c11_pda(X, R, kind, n=3):
    fails = []
    alpha = sorted(P.alphabet(X) | set(R[1]), key=repr)
    W = words(alpha, n)
    exp = {w for w in W if P.accepts(X, w, 'final') and F.accepts(R, list(w))}
    src = P.build(X)
    ok, other = guarded('C11.harness.operand', lambda: regular_operand(kind, R), fails)
    if not ok: return []
    ok, r = guarded(f'C11.pda.intersection[{kind}]', lambda: src.intersection(other), fails)
    if ok:
        Y = P.extract(r); got = {w for w in W if P.accepts(Y, w, 'final')}
        if got != exp: fails.append(fail(f'C11.pda.intersection[{kind}].language', f'differs on {sorted(got ^ exp)[:3]} (in result: {[w in got for w in sorted(got ^ exp)[:3]]})'))
    return fails


def c11_converter(n_states, n_symbols, shuffle):
    """run-time check of the contract of pda.cfg_variable_converter.CFGVariableConverter (what contracts/cfg_conv.py proves): different triples of
    registered states / symbols get different variables, the same triple always the same one, whatever objects (equal copies, objects indexed
    by an earlier converter) the triple is given with"""
    import random as _r
    from pyformlang.pda.cfg_variable_converter import CFGVariableConverter
    from pyformlang.finite_automaton import State
    from pyformlang.cfg import Variable
    fails = []; rng = _r.Random(shuffle)
    states = [State(f's{i}') for i in range(n_states)]; symbols = [Variable(f'V{i}') for i in range(n_symbols)]
    rng.shuffle(states); rng.shuffle(symbols)
    earlier = CFGVariableConverter(list(reversed(states)), list(reversed(symbols)))          # leaves its indices on the objects
    copies = {s.value: State(s.value) for s in states}
    for s in states: earlier.to_cfg_combined_variable(copies[s.value], symbols[0], copies[s.value])          # ... and on equal copies
    conv = CFGVariableConverter(states, symbols)
    def run():
        seen = {}
        triples = [(p, x, q) for p in states for x in symbols for q in states]
        if len(triples) > 3000: triples = rng.sample(triples, 3000)
        for (p, x, q) in triples:
            v = conv.to_cfg_combined_variable(rng.choice([p, copies[p.value]]), x, rng.choice([q, copies[q.value]]))
            if not isinstance(v, Variable): return f'{(p.value, x.value, q.value)}: not a Variable: {v!r}'
            if v in seen and seen[v] != (p.value, x.value, q.value): return f'{seen[v]} and {(p.value, x.value, q.value)} share the variable {v!r}'
            seen[v] = (p.value, x.value, q.value)
        for (p, x, q) in rng.sample(triples, min(200, len(triples))):
            v = conv.to_cfg_combined_variable(copies[p.value], x, q)
            if seen.get(v) != (p.value, x.value, q.value): return f'{(p.value, x.value, q.value)} asked again: another variable ({v!r})'
            conv.set_valid(p, x, copies[q.value])
            if conv.is_valid_and_get(copies[p.value], x, q) != v: return f'{(p.value, x.value, q.value)}: is_valid_and_get after set_valid gives another variable'
        return None
    ok, msg = guarded('C11.converter', run, fails)
    if ok and msg: fails.append(fail('C11.converter.injective', msg))
    return fails


def c11_types():
    fails = []
    g = C.build(C.mk(C.V('S'), [(C.V('S'), (C.T('a'),))])); p = P.build(P.mk('q', 'Z', ['q'], [('q', 'a', 'Z', 'q', ('Z',))]))
    for name, obj in (('cfg', g), ('pda', p)):
        for other in (3, 'a*', None, [1]):
            try:
                obj.intersection(other); fails.append(fail(f'C11.{name}.intersection.type', f'no NotImplementedError for {other!r}'))
            except NotImplementedError: pass
            except Exception as ex: fails.append(fail(f'C11.{name}.intersection.type', f'{type(ex).__name__} instead of NotImplementedError for {other!r}'))
    return fails


def c11_shared_states(G, R1, R2, n=3):
    """two intersections whose automata are built over the same State objects: the second answer must be what a fresh automaton gives"""
    from pyformlang.finite_automaton import DeterministicFiniteAutomaton, State, Symbol
    fails = []
    pool = {}
    def st(v): return pool.setdefault(v, State(v))
    def build_shared(R):
        d = DeterministicFiniteAutomaton()
        for s_ in sorted(R[2], key=repr): d.add_start_state(st(s_))
        for s_ in sorted(R[3], key=repr): d.add_final_state(st(s_))
        for (p_, a_, q_) in sorted(R[4], key=repr): d.add_transition(st(p_), Symbol(a_), st(q_))
        return d
    # the two automata overlap on some State objects only (R1 lives on p2, p3, ..., R2 on p0, p1, ...), string values so that set order varies
    ren1 = lambda R, off: F.mk({f'p{s_ + off}' for s_ in R[0]}, R[1], {f'p{s_ + off}' for s_ in R[2]}, {f'p{s_ + off}' for s_ in R[3]}, {(f'p{a_ + off}', b_, f'p{c_ + off}') for a_, b_, c_ in R[4]})
    R1, R2 = ren1(R1, 2), ren1(R2, 0)
    L = C.lang(G, n)
    g = C.build(G)
    for step, R in (('first', R1), ('second (same State objects)', R2), ('third (first automaton again)', R1)):
        ok, r = guarded(f'C11.cfg.intersection[shared states].{step}', lambda: g.intersection(build_shared(R)), fails)
        if not ok: continue
        got = C.lang(C.extract(r), n) if r.start_symbol is not None else set()
        exp = {w for w in L if F.accepts(R, list(w))}
        if got != exp: fails.append(fail('C11.cfg.intersection[shared states]', f'{step}: differs on {sorted(got ^ exp)[:3]}'))
    # one automaton extended between two intersections
    d = build_shared(R1); g2 = C.build(G)
    ok, _ = guarded('C11.cfg.intersection[extended]', lambda: g2.intersection(d), fails)
    d.add_transition(st('a0'), Symbol('a'), st('a1')); d.add_final_state(st('a1'))
    for (p_, a_, q_) in sorted(R2[4], key=repr)[:3]:
        try: d.add_transition(st(p_), Symbol(a_), st(q_))
        except Exception: pass
    Rd = F.extract(d)
    ok, r = guarded('C11.cfg.intersection[extended]', lambda: g2.intersection(d), fails)
    if ok:
        got = C.lang(C.extract(r), n) if r.start_symbol is not None else set()
        exp = {w for w in L if F.accepts(Rd, list(w))}
        if got != exp: fails.append(fail('C11.cfg.intersection[extended]', f'after extending the automaton: differs on {sorted(got ^ exp)[:3]}'))
    return fails
