"""Replay of a pyvc counter-model (finite-automaton world) on the real code.
stdin: {"function": key, "entry": {param: value}, "special": {...}}  -> last stdout line: {"confirmed": bool, ...}"""
import sys, json
from specs import fa as S
from bounded import fa_checks as K


def automaton_of(view, special):
    eps = special.get('EPS'); none = special.get('NONE_ST')
    tr = [(p, None if a == eps else a, q) for p, a, q in view['T']]
    return S.mk([s for s in view['Q'] if s != none], [a for a in view['Sig'] if a != eps], view['I'], view['F'], tr)


def main():
    d = json.loads(sys.stdin.read()); entry = d['entry']; special = d.get('special') or {}
    out = {'confirmed': False, 'function': d['function']}
    try:
        views = {k: v for k, v in entry.items() if isinstance(v, dict) and 'T' in v}
        if not views: print(json.dumps(dict(out, note='no automaton in the entry state'))); return
        R = automaton_of(views.get('self') or list(views.values())[0], special)
        fails = K.fa_structural(R) + K.c01_accepts(R, 3) + K.c01_conversions(R) + K.c04(R, 3) + K.c03_unary(R, 3)
        if 'other' in views: fails += K.c03_binary(R, automaton_of(views['other'], special))
        out.update(confirmed=bool(fails), input=S.to_json(R), failures=fails[:3])
    except Exception as ex:
        out['error'] = repr(ex)
    print(json.dumps(out, default=repr))


if __name__ == '__main__':
    main()
