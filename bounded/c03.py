"""C03 bounded stand-in: Boolean and rational operations."""
import random
from specs import fa as S
from bounded import fa_checks as K, fa_gen as G


def cases(tier, seed):
    for R, scheme, origin in G.singles(tier, seed, n_random=1200):
        yield {'op': 'unary', 'A': S.to_json(R), 'scheme': scheme, 'origin': origin}
    rng = random.Random(seed * 31337 + 3)
    small = [G.rename(R, 'str') for R in S.enum_enfa(1, ['a'], eps=True)] + [G.rename(R, 'str') for R in S.enum_enfa(2, ['a'], eps=True)]
    n_pairs = 1500 if tier == 'quick' else 20000
    for i in range(n_pairs):
        r = rng.random()
        if r < 0.3:
            A, B = rng.choice(small), rng.choice(small); origin = 'pairs drawn from the exhaustive n<=2,k=1 set'
        else:
            alpha = ['a', 'b', 'c']
            A = S.random_enfa(rng, rng.choice([1, 2, 3]), rng.sample(alpha, rng.choice([1, 2])), eps=rng.random() < 0.6)
            B = S.random_enfa(rng, rng.choice([1, 2, 3]), rng.sample(alpha, rng.choice([1, 2])), eps=rng.random() < 0.6)
            sa = rng.choice(['int', 'str', 'adv-pair', 'adv-pair']); sb = sa if rng.random() < 0.6 else rng.choice(['int', 'str', 'adv-pair'])
            A, B = G.rename(A, sa), G.rename(B, sb); origin = f'random ({sa},{sb})'
        yield {'op': 'binary', 'A': S.to_json(A), 'B': S.to_json(B), 'same': rng.random() < 0.05, 'origin': origin}


def check(case):
    A = S.from_json(case['A'])
    if case['op'] == 'unary':
        fails = K.c03_unary(A, 4 if len(A[1]) <= 1 else 3)
        tags = []
        if not (S.is_deterministic(A) and not any(a is None for _, a, _ in A[4]) and len(A[2]) == 1): tags.append('complement-operand-not-a-dfa')
        if 'TrashNode' in A[0]: tags.append('trash-name-taken')
        for f in fails: f['tags'] = tags
        return fails, G.nontrivial(A), 1
    B = A if case.get('same') else S.from_json(case['B'])
    fails = K.c03_binary(A, B)
    tags = []
    if G.pair_name_collision(A, B): tags.append('pair-name-collision')
    if not (S.is_deterministic(B) and not any(a is None for _, a, _ in B[4]) and len(B[2]) == 1): tags.append('complement-operand-not-a-dfa')
    if 'TrashNode' in B[0]: tags.append('trash-name-taken')
    for f in fails: f['tags'] = tags
    return fails, G.nontrivial(A) and G.nontrivial(B), 1
