"""C10 bounded stand-in: CFG algebra on ordered pairs."""
import random
from specs import cfg as S
from bounded import cfg_checks as K, cfg_gen as G


def cases(tier, seed):
    rng = random.Random(seed * 2221 + 1)
    pool = [g for g, _ in G.grammars('quick', seed, n_random=400, exhaustive_prods=2)]
    n = 2500 if tier == 'quick' else 25000
    for i in range(n // 5):
        # a host whose own variables are named like the fresh names of substitute (X#SUBS#i)
        a = S.random_grammar(rng, ['S', rng.choice(['S#SUBS#0', 'S#SUBS#1', 'A#SUBS#2', 'S#SUBS#2'])], ['a', 'b'], 3, rng.choice([2, 3, 4]))
        b = S.random_grammar(rng, ['S', 'A'], ['a', 'b'], 2, rng.choice([1, 2, 3]))
        yield {'A': S.to_json(a), 'B': S.to_json(b), 'same': False}
    for i in range(n // 4):
        a, b = cross_named(rng)
        yield {'A': S.to_json(a), 'B': S.to_json(b), 'same': False}
    for i in range(n):
        a, b = rng.choice(pool), rng.choice(pool)
        yield {'A': S.to_json(a), 'B': S.to_json(b), 'same': rng.random() < 0.08}


def cross_named(rng):
    a = S.random_grammar(rng, ['S', 'A'], ['x', 'y'], 3, rng.choice([2, 3, 4]))
    b = S.random_grammar(rng, ['T', 'B'], ['A', 'S', 'y'], 3, rng.choice([2, 3, 4]))      # terminals of b are named like variables of a
    return (a, b) if rng.random() < 0.5 else (b, a)


def check(case):
    a, b = S.from_json(case['A']), S.from_json(case['B'])
    if case['same']: b = a
    return K.c10(a, b, 4, same_object=case['same']), G.nontrivial(a) and G.nontrivial(b), 1
