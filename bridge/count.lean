/-
Counting facts used as axioms COUNT_FACTS in contracts/cfg_gen.py (NP = number of positions of a sequence whose symbol lies in a set,
Occ = number of occurrences of one symbol).  Sequences are lists, sets are `Set α`; membership is decided classically.
-/
import Mathlib.Data.List.Count
import Mathlib.Data.Set.Insert
open Classical

namespace Bridge.Count
variable {α : Type*}

noncomputable def NP (X : Set α) (l : List α) : Nat := l.countP (fun a => decide (a ∈ X))
noncomputable def Occ (l : List α) (c : α) : Nat := l.count c

theorem np_le_length (X : Set α) (l : List α) : NP X l ≤ l.length := List.countP_le_length

theorem np_empty (l : List α) : NP (∅ : Set α) l = 0 := by
  unfold NP
  induction l with
  | nil => rfl
  | cons a t ih => simp

theorem np_insert (X : Set α) (l : List α) (c : α) (h : c ∉ X) : NP (insert c X) l = NP X l + Occ l c := by
  unfold NP Occ
  induction l with
  | nil => simp
  | cons a t ih =>
    rw [List.countP_cons, List.countP_cons, List.count_cons, ih]
    by_cases hac : a = c
    · subst hac
      simp [h]
      try omega
    · by_cases haX : a ∈ X
      · simp [Set.mem_insert_iff, hac, haX]
        try omega
      · simp [Set.mem_insert_iff, hac, haX]

theorem np_eq_length_iff (X : Set α) (l : List α) : NP X l = l.length ↔ ∀ a ∈ l, a ∈ X := by
  unfold NP
  rw [List.countP_eq_length]
  simp

theorem occ_pos_mem (l : List α) (c : α) (h : 0 < Occ l c) : c ∈ l := by
  unfold Occ at h
  exact List.count_pos_iff.mp h

theorem mem_iff_get (l : List α) (c : α) : c ∈ l ↔ ∃ j : Fin l.length, l.get j = c := List.mem_iff_get

/-- occurrences among the first i positions (OCCPRE_FACTS of contracts/cfg_gen.py) -/
noncomputable def OccPre (l : List α) (i : Nat) (c : α) : Nat := (l.take i).count c

theorem occpre_zero (l : List α) (c : α) : OccPre l 0 c = 0 := by simp [OccPre]

theorem occpre_succ (l : List α) (i : Nat) (c : α) (h : i < l.length) :
    OccPre l (i + 1) c = OccPre l i c + (if l[i] = c then 1 else 0) := by
  unfold OccPre
  rw [List.take_succ_eq_append_getElem h, List.count_append]
  simp [List.count_cons, beq_iff_eq]

theorem occpre_length (l : List α) (c : α) : OccPre l l.length c = Occ l c := by simp [OccPre, Occ]

/-- contracts/cfg_eps.py: a body without epsilon object is kept as it is by `Production(...)` (which filters the epsilon objects out);
NEp l = "no element of l is eps", with its two structural equations -/
def NEp (eps : α) (l : List α) : Prop := ∀ a ∈ l, a ≠ eps

theorem nep_nil (eps : α) : NEp eps ([] : List α) := by simp [NEp]

theorem nep_cons (eps a : α) (l : List α) : NEp eps (a :: l) ↔ (a ≠ eps ∧ NEp eps l) := by simp [NEp]

theorem filter_keeps (eps : α) (l : List α) (h : NEp eps l) : l.filter (fun a => decide (a ≠ eps)) = l := by
  rw [List.filter_eq_self]
  intro a ha
  simpa using h a ha

end Bridge.Count
