import Mathlib.Computability.EpsilonNFA
open Set
universe u v
variable {α : Type u} {σ : Type v}
namespace Bridge

/-- structural contract of `EpsilonNFA.reverse` -/
structure Reversed (A B : εNFA α σ) : Prop where
  step   : ∀ p a q, q ∈ B.step p a ↔ p ∈ A.step q a
  start  : B.start = A.accept
  accept : B.accept = A.start

theorem isPath_snoc (M : εNFA α σ) {s u : σ} {x : List (Option α)} {a : Option α} :
    M.IsPath s u (x ++ [a]) ↔ ∃ t, M.IsPath s t x ∧ u ∈ M.step t a := by
  rw [εNFA.isPath_append]
  constructor
  · rintro ⟨t, h1, h2⟩; exact ⟨t, h1, (εNFA.isPath_singleton M).1 h2⟩
  · rintro ⟨t, h1, h2⟩; exact ⟨t, h1, (εNFA.isPath_singleton M).2 h2⟩

theorem path_reverse (A B : εNFA α σ) (h : Reversed A B) {s t : σ} {x : List (Option α)}
    (hp : A.IsPath s t x) : B.IsPath t s x.reverse := by
  induction hp with
  | nil s => simp
  | cons t' s' u a x hstep _ ih =>
    rw [List.reverse_cons, isPath_snoc]
    exact ⟨t', ih, (h.step t' a s').2 hstep⟩

theorem reversed_symm (A B : εNFA α σ) (h : Reversed A B) : Reversed B A where
  step p a q := ((h.step q a p).symm)
  start := h.accept.symm
  accept := h.start.symm

theorem reverse_correct (A B : εNFA α σ) (h : Reversed A B) (x : List α) :
    x ∈ B.accepts ↔ x.reverse ∈ A.accepts := by
  rw [εNFA.mem_accepts_iff_exists_path, εNFA.mem_accepts_iff_exists_path]
  constructor
  · rintro ⟨s₁, s₂, x', hs₁, hs₂, hx, hp⟩
    refine ⟨s₂, s₁, x'.reverse, ?_, ?_, ?_, path_reverse B A (reversed_symm A B h) hp⟩
    · rw [← h.accept]; exact hs₂
    · rw [← h.start]; exact hs₁
    · rw [← hx]; simp [List.reduceOption, List.filterMap_reverse]
  · rintro ⟨s₁, s₂, x', hs₁, hs₂, hx, hp⟩
    refine ⟨s₂, s₁, x'.reverse, ?_, ?_, ?_, path_reverse A B h hp⟩
    · rw [h.start]; exact hs₂
    · rw [h.accept]; exact hs₁
    · have : x'.reverse.reduceOption = (x'.reduceOption).reverse := by
        simp [List.reduceOption, List.filterMap_reverse]
      rw [this, hx, List.reverse_reverse]
end Bridge
