import Mathlib.Data.Set.Basic
import Mathlib.Order.Basic
import Mathlib.Tactic

/-!
Induction lemma used as a hint by the contracts of `NondeterministicFiniteAutomaton.accepts` /
`DeterministicFiniteAutomaton.accepts` (contracts/fa.py, `RUNN_EMPTY`): the SMT side only knows the two defining
equations of `RunN`; that an empty state set stays empty needs induction on the position.
-/
namespace Bridge
variable {α σ : Type*}

/-- `StepF T S a` of the contracts: the `a`-successors of the states in `S` -/
def stepF (T : σ → α → σ → Prop) (S : Set σ) (a : α) : Set σ := {q | ∃ p ∈ S, T p a q}

/-- `RunN T I w i`: `RunN 0 = I`, `RunN (i+1) = StepF (RunN i) w[i]` for `i < |w|` (the only arguments the contracts use) -/
def runN (T : σ → α → σ → Prop) (I : Set σ) (w : List α) : ℕ → Set σ
  | 0 => I
  | (i + 1) => match w[i]? with
    | some a => stepF T (runN T I w i) a
    | none => ∅

theorem stepF_empty (T : σ → α → σ → Prop) (a : α) : stepF T (∅ : Set σ) a = ∅ := by
  ext q; simp [stepF]

theorem runN_empty_absorbing (T : σ → α → σ → Prop) (I : Set σ) (w : List α) (i j : ℕ)
    (hij : i ≤ j) (h : runN T I w i = ∅) : runN T I w j = ∅ := by
  induction j, hij using Nat.le_induction with
  | base => exact h
  | succ k _ ih =>
    show (match w[k]? with | some a => stepF T (runN T I w k) a | none => ∅) = ∅
    cases w[k]? with
    | none => rfl
    | some a => simp [ih, stepF_empty]

end Bridge
