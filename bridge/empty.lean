import Mathlib.Computability.EpsilonNFA
import Mathlib.Logic.Relation
open Set
universe u v
variable {α : Type u} {σ : Type v}
namespace Bridge

/-- one transition with any label (a symbol or ε) -/
def Step1 (A : εNFA α σ) (p q : σ) : Prop := ∃ a, q ∈ A.step p a

theorem rtg_of_path (A : εNFA α σ) {s t : σ} {x : List (Option α)} (h : A.IsPath s t x) :
    Relation.ReflTransGen (Step1 A) s t := by
  induction h with
  | nil s => exact Relation.ReflTransGen.refl
  | cons t' s' u a x hstep _ ih => exact Relation.ReflTransGen.head ⟨a, hstep⟩ ih

theorem path_of_rtg (A : εNFA α σ) {s t : σ} (h : Relation.ReflTransGen (Step1 A) s t) :
    ∃ x, A.IsPath s t x := by
  induction h using Relation.ReflTransGen.head_induction_on with
  | refl => exact ⟨[], εNFA.IsPath.nil t⟩
  | head hstep _ ih =>
    obtain ⟨a, ha⟩ := hstep
    obtain ⟨x, hx⟩ := ih
    exact ⟨a :: x, εNFA.IsPath.cons _ _ _ a x ha hx⟩

/-- left extension of reachability, used as a given lemma by the contracts of the backward search
(`_get_states_leading_to_final`): the SMT side only has reflexivity and right extension -/
theorem reach_head (A : εNFA α σ) {x y z : σ} (h : Step1 A x y) (hr : Relation.ReflTransGen (Step1 A) y z) :
    Relation.ReflTransGen (Step1 A) x z := Relation.ReflTransGen.head h hr

/-- `is_empty()`'s postcondition (no final state reachable from a start state) is language emptiness -/
theorem empty_iff_no_final_reachable (A : εNFA α σ) :
    (∀ x, x ∉ A.accepts) ↔ ¬ ∃ s ∈ A.start, ∃ f ∈ A.accept, Relation.ReflTransGen (Step1 A) s f := by
  constructor
  · rintro he ⟨s, hs, f, hf, hr⟩
    obtain ⟨x, hx⟩ := path_of_rtg A hr
    exact he x.reduceOption ((εNFA.mem_accepts_iff_exists_path A).2 ⟨s, f, x, hs, hf, rfl, hx⟩)
  · intro hne x hx
    obtain ⟨s, f, x', hs, hf, _, hp⟩ := (εNFA.mem_accepts_iff_exists_path A).1 hx
    exact hne ⟨s, hs, f, hf, rtg_of_path A hp⟩
end Bridge
