import Mathlib.Computability.EpsilonNFA
open Set
universe u v
variable {α : Type u} {σ : Type v}
namespace Bridge

theorem closure_noeps (B : εNFA α σ) (h : ∀ q, B.step q none = ∅) (S : Set σ) : B.εClosure S = S := by
  apply Subset.antisymm
  · intro s hs
    induction hs with
    | base s hs => exact hs
    | step s t ht _ _ => rw [h s] at ht; exact absurd ht (by simp)
  · exact B.subset_εClosure S

/-- simulation contract of `_to_deterministic_internal`: `γ` maps every explored DFA state to the
subset of NFA states it stands for; `D` is the explored set -/
structure DetSim (A B : εNFA α σ) (γ : σ → Set σ) (D : Set σ) (d0 : σ) : Prop where
  no_eps  : ∀ q, B.step q none = ∅
  start   : B.start = {d0}
  d0_mem  : d0 ∈ D
  γ0      : γ d0 = A.εClosure A.start
  step    : ∀ d ∈ D, ∀ a d', d' ∈ B.step d (some a) → d' ∈ D ∧ γ d' = A.stepSet (γ d) a
  nostep  : ∀ d ∈ D, ∀ a, B.step d (some a) = ∅ → A.stepSet (γ d) a = ∅
  accept  : ∀ d ∈ D, (d ∈ B.accept ↔ ∃ f ∈ A.accept, f ∈ γ d)

theorem detsim_eval (A B : εNFA α σ) (γ : σ → Set σ) (D : Set σ) (d0 : σ) (h : DetSim A B γ D d0)
    (x : List α) :
    (∀ d ∈ B.eval x, d ∈ D ∧ γ d = A.eval x) ∧ (B.eval x = ∅ → A.eval x = ∅) := by
  induction x using List.reverseRecOn with
  | nil =>
    have hB : B.eval [] = {d0} := by
      rw [εNFA.eval_nil, closure_noeps B h.no_eps, h.start]
    constructor
    · intro d hd
      rw [hB, mem_singleton_iff] at hd
      subst hd
      exact ⟨h.d0_mem, by rw [εNFA.eval_nil]; exact h.γ0⟩
    · intro he; rw [hB] at he; exact absurd he (singleton_ne_empty d0)
  | append_singleton x a ih =>
    obtain ⟨ih1, ih2⟩ := ih
    rw [εNFA.eval_append_singleton, εNFA.eval_append_singleton]
    constructor
    · intro d' hd'
      rw [εNFA.mem_stepSet_iff] at hd'
      obtain ⟨d, hd, hdd'⟩ := hd'
      rw [closure_noeps B h.no_eps] at hdd'
      obtain ⟨hdD, hγ⟩ := ih1 d hd
      obtain ⟨h1, h2⟩ := h.step d hdD a d' hdd'
      exact ⟨h1, by rw [h2, hγ]⟩
    · intro he
      by_cases hne : B.eval x = ∅
      · rw [ih2 hne]; exact εNFA.stepSet_empty a
      · obtain ⟨d, hd⟩ := nonempty_iff_ne_empty.2 hne
        obtain ⟨hdD, hγ⟩ := ih1 d hd
        have : B.step d (some a) = ∅ := by
          apply eq_empty_of_forall_notMem
          intro t ht
          have : t ∈ B.stepSet (B.eval x) a := by
            rw [εNFA.mem_stepSet_iff]
            exact ⟨d, hd, by rw [closure_noeps B h.no_eps]; exact ht⟩
          rw [he] at this; exact this
        rw [← hγ]; exact h.nostep d hdD a this

theorem det_sim_correct (A B : εNFA α σ) (γ : σ → Set σ) (D : Set σ) (d0 : σ) (h : DetSim A B γ D d0) :
    B.accepts = A.accepts := by
  ext x
  obtain ⟨h1, h2⟩ := detsim_eval A B γ D d0 h x
  constructor
  · rintro ⟨d, hacc, hd⟩
    obtain ⟨hdD, hγ⟩ := h1 d hd
    obtain ⟨f, hf, hfd⟩ := (h.accept d hdD).1 hacc
    exact ⟨f, hf, by rw [← hγ]; exact hfd⟩
  · rintro ⟨f, hf, hfx⟩
    have hne : B.eval x ≠ ∅ := by
      intro he; rw [h2 he] at hfx; exact hfx
    obtain ⟨d, hd⟩ := nonempty_iff_ne_empty.2 hne
    obtain ⟨hdD, hγ⟩ := h1 d hd
    exact ⟨d, (h.accept d hdD).2 ⟨f, hf, by rw [hγ]; exact hfx⟩, hd⟩
end Bridge
