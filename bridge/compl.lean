import Mathlib.Computability.EpsilonNFA
open Set
universe u v
variable {α : Type u} {σ : Type v}
namespace Bridge

theorem closure_noeps'' (B : εNFA α σ) (h : ∀ q, B.step q none = ∅) (S : Set σ) : B.εClosure S = S := by
  apply Subset.antisymm
  · intro s hs
    induction hs with
    | base s hs => exact hs
    | step s t ht _ _ => rw [h s] at ht; exact absurd ht (by simp)
  · exact B.subset_εClosure S

theorem stepSet_noeps (B : εNFA α σ) (h : ∀ q, B.step q none = ∅) (S : Set σ) (a : α) (t : σ) :
    t ∈ B.stepSet S a ↔ ∃ s ∈ S, t ∈ B.step s (some a) := by
  rw [εNFA.mem_stepSet_iff]
  simp only [closure_noeps'' B h]

/-- structural contract of `get_complement` on a deterministic, ε-free operand with one start state -/
structure Complemented (A B : εNFA α σ) (Q : Set σ) (Sig : Set α) (trash s0 : σ) : Prop where
  A_noeps : ∀ q, A.step q none = ∅
  A_det   : ∀ q a t t', t ∈ A.step q (some a) → t' ∈ A.step q (some a) → t = t'
  A_start : A.start = {s0}
  s0_mem  : s0 ∈ Q
  closedQ : ∀ q ∈ Q, ∀ a t, t ∈ A.step q (some a) → t ∈ Q
  accQ    : ∀ f ∈ A.accept, f ∈ Q
  trash_fresh : trash ∉ Q
  B_noeps : ∀ q, B.step q none = ∅
  B_start : B.start = {s0}
  stepB_some : ∀ q ∈ Q, ∀ a ∈ Sig, ∀ t, t ∈ A.step q (some a) → B.step q (some a) = A.step q (some a)
  stepB_none : ∀ q ∈ Q, ∀ a ∈ Sig, (∀ t, t ∉ A.step q (some a)) → B.step q (some a) = {trash}
  trashB  : ∀ a ∈ Sig, B.step trash (some a) = {trash}
  acceptB : ∀ q, q ∈ B.accept ↔ (q ∈ Q ∧ q ∉ A.accept) ∨ q = trash

theorem compl_eval (A B : εNFA α σ) (Q : Set σ) (Sig : Set α) (trash s0 : σ)
    (h : Complemented A B Q Sig trash s0) (x : List α) (hx : ∀ a ∈ x, a ∈ Sig) :
    (∃ q ∈ Q, A.eval x = {q} ∧ B.eval x = {q}) ∨ (A.eval x = ∅ ∧ B.eval x = {trash}) := by
  induction x using List.reverseRecOn with
  | nil =>
    left
    refine ⟨s0, h.s0_mem, ?_, ?_⟩
    · rw [εNFA.eval_nil, closure_noeps'' A h.A_noeps, h.A_start]
    · rw [εNFA.eval_nil, closure_noeps'' B h.B_noeps, h.B_start]
  | append_singleton x a ih =>
    have ha : a ∈ Sig := hx a (by simp)
    have hx' : ∀ b ∈ x, b ∈ Sig := fun b hb => hx b (by simp [hb])
    rw [εNFA.eval_append_singleton, εNFA.eval_append_singleton]
    rcases ih hx' with ⟨q, hq, hA, hB⟩ | ⟨hA, hB⟩
    · by_cases hne : ∃ t, t ∈ A.step q (some a)
      · obtain ⟨t, ht⟩ := hne
        left
        have hAq : A.step q (some a) = {t} := by
          ext t'; constructor
          · intro ht'; exact h.A_det q a t' t ht' ht
          · intro ht'; rw [mem_singleton_iff] at ht'; rw [ht']; exact ht
        refine ⟨t, h.closedQ q hq a t ht, ?_, ?_⟩
        · ext u; rw [stepSet_noeps A h.A_noeps, hA]; simp [hAq]
        · ext u; rw [stepSet_noeps B h.B_noeps, hB]; simp [h.stepB_some q hq a ha t ht, hAq]
      · right
        have hnone : ∀ t, t ∉ A.step q (some a) := fun t ht => hne ⟨t, ht⟩
        constructor
        · apply eq_empty_of_forall_notMem
          intro u hu
          rw [stepSet_noeps A h.A_noeps, hA] at hu
          obtain ⟨s, hs, hsu⟩ := hu
          rw [mem_singleton_iff] at hs; subst hs
          exact hnone u hsu
        · ext u; rw [stepSet_noeps B h.B_noeps, hB]; simp [h.stepB_none q hq a ha hnone]
    · right
      constructor
      · rw [hA]; exact εNFA.stepSet_empty a
      · ext u; rw [stepSet_noeps B h.B_noeps, hB]; simp [h.trashB a ha]

theorem complement_correct (A B : εNFA α σ) (Q : Set σ) (Sig : Set α) (trash s0 : σ)
    (h : Complemented A B Q Sig trash s0) (x : List α) (hx : ∀ a ∈ x, a ∈ Sig) :
    x ∈ B.accepts ↔ x ∉ A.accepts := by
  rcases compl_eval A B Q Sig trash s0 h x hx with ⟨q, hq, hA, hB⟩ | ⟨hA, hB⟩
  · constructor
    · rintro ⟨s, hacc, hs⟩ ⟨f, hf, hfx⟩
      rw [hB, mem_singleton_iff] at hs; subst hs
      rw [hA, mem_singleton_iff] at hfx; subst hfx
      rcases (h.acceptB f).1 hacc with ⟨_, hn⟩ | ht
      · exact hn hf
      · exact h.trash_fresh (ht ▸ hq)
    · intro hn
      refine ⟨q, (h.acceptB q).2 (Or.inl ⟨hq, ?_⟩), by rw [hB]; rfl⟩
      intro hqa; exact hn ⟨q, hqa, by rw [hA]; rfl⟩
  · constructor
    · rintro _ ⟨f, _, hfx⟩
      rw [hA] at hfx; exact hfx
    · intro _
      exact ⟨trash, (h.acceptB trash).2 (Or.inr rfl), by rw [hB]; rfl⟩
end Bridge
