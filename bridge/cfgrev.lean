import Mathlib.Data.List.Basic
import Mathlib.Computability.ContextFreeGrammar

/-!
Facts about body reversal used by the contract of `CFG.reverse` (contracts/cfg.py):
* the axioms about `Rev` (same length, `Rev s [k] = s [|s|-1-k]`) and the derived lemma `InBody (Rev s) x ↔ InBody s x`
  hold for `List.reverse`;
* a grammar whose rules are the reversed rules generates the reversed language (Mathlib's `ContextFreeGrammar.reverse`).
-/
namespace Bridge
variable {α : Type*}

/-- `InBody s x` of the contracts: some position of `s` holds `x` -/
def inBody (s : List α) (x : α) : Prop := ∃ k, ∃ h : k < s.length, s[k] = x

theorem inBody_iff_mem (s : List α) (x : α) : inBody s x ↔ x ∈ s := by
  unfold inBody
  constructor
  · rintro ⟨k, h, rfl⟩; exact List.getElem_mem h
  · intro hx; obtain ⟨k, h, hk⟩ := List.getElem_of_mem hx; exact ⟨k, h, hk⟩

theorem rev_length (s : List α) : s.reverse.length = s.length := List.length_reverse

theorem rev_index (s : List α) (k : ℕ) (h : k < s.length) :
    s.reverse[k]'(by simpa using h) = s[s.length - 1 - k]'(by omega) := by
  simp [List.getElem_reverse]

theorem mem_reverse (s : List α) (x : α) : inBody s.reverse x ↔ inBody s x := by
  rw [inBody_iff_mem, inBody_iff_mem, List.mem_reverse]

/-- the language statement of C10 for `reverse`: Mathlib's grammar with reversed rule bodies generates the mirror language -/
theorem reverse_language {T : Type*} (g : ContextFreeGrammar T) :
    g.reverse.language = g.language.reverse := ContextFreeGrammar.language_reverse
end Bridge
