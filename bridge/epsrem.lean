import Mathlib.Computability.EpsilonNFA
open Set
universe u v
variable {α : Type u} {σ : Type v}
namespace Bridge

/-- structural contract of `EpsilonNFA.remove_epsilon_transitions` (as rendered from the sidecar contract) -/
structure EpsRemoved (A B : εNFA α σ) : Prop where
  no_eps : ∀ q, B.step q none = ∅
  step   : ∀ q a t, t ∈ B.step q (some a) ↔ ∃ p ∈ A.εClosure {q}, t ∈ A.step p (some a)
  start  : ∀ q, q ∈ B.start ↔ q ∈ A.εClosure A.start
  accept : ∀ q, q ∈ B.accept ↔ ∃ f ∈ A.accept, f ∈ A.εClosure {q}

theorem closure_noeps (B : εNFA α σ) (h : ∀ q, B.step q none = ∅) (S : Set σ) : B.εClosure S = S := by
  apply Subset.antisymm
  · intro s hs
    induction hs with
    | base s hs => exact hs
    | step s t ht _ _ => rw [h s] at ht; exact absurd ht (by simp)
  · exact B.subset_εClosure S

theorem closure_idem (A : εNFA α σ) (S : Set σ) : A.εClosure (A.εClosure S) = A.εClosure S := by
  apply Subset.antisymm
  · intro s hs
    induction hs with
    | base s hs => exact hs
    | step s t ht _ ih => exact εNFA.εClosure.step s t ht ih
  · exact A.subset_εClosure _

theorem closure_mono (A : εNFA α σ) {S T : Set σ} (h : S ⊆ T) : A.εClosure S ⊆ A.εClosure T := by
  intro s hs
  induction hs with
  | base s hs => exact εNFA.εClosure.base s (h hs)
  | step s t ht _ ih => exact εNFA.εClosure.step s t ht ih

theorem key (A B : εNFA α σ) (h : EpsRemoved A B) (S : Set σ) (x : List α) :
    A.εClosure (B.evalFrom S x) = A.evalFrom S x := by
  induction x using List.reverseRecOn with
  | nil => simp [closure_noeps B h.no_eps]
  | append_singleton x a ih =>
    rw [εNFA.evalFrom_append_singleton, εNFA.evalFrom_append_singleton, ← ih]
    ext t
    constructor
    · intro ht
      rw [εNFA.mem_εClosure_iff_exists] at ht
      obtain ⟨r, hr, hrt⟩ := ht
      rw [εNFA.mem_stepSet_iff] at hr
      obtain ⟨q, hq, hqr⟩ := hr
      rw [closure_noeps B h.no_eps] at hqr
      obtain ⟨p, hp, hpr⟩ := (h.step q a r).1 hqr
      rw [εNFA.mem_stepSet_iff]
      refine ⟨p, ?_, ?_⟩
      · exact closure_mono A (singleton_subset_iff.2 hq) hp
      · exact closure_mono A (singleton_subset_iff.2 hpr) hrt
    · intro ht
      rw [εNFA.mem_stepSet_iff] at ht
      obtain ⟨p, hp, hpt⟩ := ht
      rw [εNFA.mem_εClosure_iff_exists] at hp
      obtain ⟨q, hq, hqp⟩ := hp
      rw [εNFA.mem_εClosure_iff_exists] at hpt
      obtain ⟨r, hr, hrt⟩ := hpt
      rw [εNFA.mem_εClosure_iff_exists]
      refine ⟨r, ?_, hrt⟩
      rw [εNFA.mem_stepSet_iff]
      refine ⟨q, hq, ?_⟩
      rw [closure_noeps B h.no_eps]
      exact (h.step q a r).2 ⟨p, hqp, hr⟩

theorem eps_removal_correct (A B : εNFA α σ) (h : EpsRemoved A B) : B.accepts = A.accepts := by
  ext x
  have hstart : B.start = A.εClosure A.start := by ext q; exact h.start q
  have hk := key A B h (A.εClosure A.start) x
  have hA : A.evalFrom (A.εClosure A.start) x = A.eval x := by
    unfold εNFA.eval εNFA.evalFrom
    rw [closure_idem]
  constructor
  · rintro ⟨q, hqacc, hq⟩
    obtain ⟨f, hf, hfq⟩ := (h.accept q).1 hqacc
    refine ⟨f, hf, ?_⟩
    rw [← hA, ← hk]
    have : q ∈ B.evalFrom (A.εClosure A.start) x := by
      have := hq; unfold εNFA.eval at this; rwa [hstart] at this
    exact closure_mono A (singleton_subset_iff.2 this) hfq
  · rintro ⟨f, hf, hfx⟩
    rw [← hA, ← hk, εNFA.mem_εClosure_iff_exists] at hfx
    obtain ⟨q, hq, hqf⟩ := hfx
    refine ⟨q, (h.accept q).2 ⟨f, hf, hqf⟩, ?_⟩
    unfold εNFA.eval; rw [hstart]; exact hq
end Bridge
