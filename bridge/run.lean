import Mathlib.Computability.EpsilonNFA
open Set
universe u v
variable {α : Type u} {σ : Type v}
namespace Bridge

/-- one step of the `accepts` loop: the token "epsilon" is skipped -/
def tok (A : εNFA α σ) (S : Set σ) : Option α → Set σ
  | none => S
  | some a => A.stepSet S a

/-- the recursive spec `Run` used in the loop invariant of `EpsilonNFA.accepts`, as hypotheses on `R` -/
theorem run_eq_eval (A : εNFA α σ) (w : List (Option α)) (R : ℕ → Set σ)
    (h0 : R 0 = A.εClosure A.start)
    (hs : ∀ i (hi : i < w.length), R (i + 1) = tok A (R i) (w.get ⟨i, hi⟩)) :
    R w.length = A.eval w.reduceOption := by
  induction w using List.reverseRecOn generalizing R with
  | nil => simpa using h0
  | append_singleton w a ih =>
    have hlen : (w ++ [a]).length = w.length + 1 := by simp
    have hprev : R w.length = A.eval w.reduceOption := by
      apply ih R h0
      intro i hi
      have hi' : i < (w ++ [a]).length := by rw [hlen]; omega
      rw [hs i hi']
      congr 1
      simp [List.getElem_append_left hi]
    have hlast : R (w.length + 1) = tok A (R w.length) a := by
      have hi' : w.length < (w ++ [a]).length := by rw [hlen]; omega
      rw [hs w.length hi']
      congr 1
      simp
    rw [hlen, hlast, hprev]
    cases a with
    | none => simp [tok, List.reduceOption_append]
    | some b =>
      simp only [tok, List.reduceOption_append]
      rw [show [some b].reduceOption = [b] from rfl, εNFA.eval_append_singleton]

/-- postcondition of `accepts` ⇒ the property's wording -/
theorem accepts_correct (A : εNFA α σ) (w : List (Option α)) (R : ℕ → Set σ) (res : Prop)
    (h0 : R 0 = A.εClosure A.start)
    (hs : ∀ i (hi : i < w.length), R (i + 1) = tok A (R i) (w.get ⟨i, hi⟩))
    (hres : res ↔ ∃ f ∈ A.accept, f ∈ R w.length) :
    res ↔ ∃ s₁ s₂ x', s₁ ∈ A.start ∧ s₂ ∈ A.accept ∧ x'.reduceOption = w.reduceOption ∧ A.IsPath s₁ s₂ x' := by
  rw [hres, run_eq_eval A w R h0 hs, ← εNFA.mem_accepts_iff_exists_path]
  rfl
end Bridge
