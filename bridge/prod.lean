import Mathlib.Computability.EpsilonNFA
open Set
universe u v
variable {α : Type u} {σ : Type v}
namespace Bridge

theorem closure_noeps' (B : εNFA α σ) (h : ∀ q, B.step q none = ∅) (S : Set σ) : B.εClosure S = S := by
  apply Subset.antisymm
  · intro s hs
    induction hs with
    | base s hs => exact hs
    | step s t ht _ _ => rw [h s] at ht; exact absurd ht (by simp)
  · exact B.subset_εClosure S

theorem mem_stepSet_single (A : εNFA α σ) (S : Set σ) (a : α) (t : σ) :
    t ∈ A.stepSet S a ↔ ∃ p ∈ S, t ∈ A.stepSet {p} a := by
  simp only [εNFA.mem_stepSet_iff, mem_singleton_iff, exists_eq_left]

/-- structural contract of `EpsilonNFA.get_intersection`; `D` = explored pairs, `pair` = `combine_state_pair` -/
structure ProdSim (A1 A2 B : εNFA α σ) (pair : σ → σ → σ) (D : Set (σ × σ)) : Prop where
  inj    : ∀ p q p' q', pair p q = pair p' q' → p = p' ∧ q = q'
  no_eps : ∀ s, B.step s none = ∅
  start  : ∀ s, s ∈ B.start ↔ ∃ p ∈ A1.εClosure A1.start, ∃ q ∈ A2.εClosure A2.start, s = pair p q
  startD : ∀ p ∈ A1.εClosure A1.start, ∀ q ∈ A2.εClosure A2.start, (p, q) ∈ D
  step   : ∀ p q, (p, q) ∈ D → ∀ a s, (s ∈ B.step (pair p q) (some a) ↔
              ∃ p' ∈ A1.stepSet {p} a, ∃ q' ∈ A2.stepSet {q} a, s = pair p' q')
  stepD  : ∀ p q, (p, q) ∈ D → ∀ a, ∀ p' ∈ A1.stepSet {p} a, ∀ q' ∈ A2.stepSet {q} a, (p', q') ∈ D
  accept : ∀ p q, (p, q) ∈ D → (pair p q ∈ B.accept ↔ p ∈ A1.accept ∧ q ∈ A2.accept)

theorem prod_eval (A1 A2 B : εNFA α σ) (pair : σ → σ → σ) (D : Set (σ × σ))
    (h : ProdSim A1 A2 B pair D) (x : List α) :
    (∀ s, s ∈ B.eval x ↔ ∃ p ∈ A1.eval x, ∃ q ∈ A2.eval x, s = pair p q) ∧
    (∀ p ∈ A1.eval x, ∀ q ∈ A2.eval x, (p, q) ∈ D) := by
  induction x using List.reverseRecOn with
  | nil =>
    constructor
    · intro s
      rw [εNFA.eval_nil, εNFA.eval_nil, εNFA.eval_nil, closure_noeps' B h.no_eps]
      exact h.start s
    · intro p hp q hq
      rw [εNFA.eval_nil] at hp hq
      exact h.startD p hp q hq
  | append_singleton x a ih =>
    obtain ⟨ih1, ih2⟩ := ih
    rw [εNFA.eval_append_singleton, εNFA.eval_append_singleton, εNFA.eval_append_singleton]
    constructor
    · intro s
      constructor
      · intro hs
        rw [εNFA.mem_stepSet_iff] at hs
        obtain ⟨t, ht, hts⟩ := hs
        rw [closure_noeps' B h.no_eps] at hts
        obtain ⟨p, hp, q, hq, rfl⟩ := (ih1 t).1 ht
        obtain ⟨p', hp', q', hq', rfl⟩ := (h.step p q (ih2 p hp q hq) a s).1 hts
        exact ⟨p', (mem_stepSet_single A1 _ a p').2 ⟨p, hp, hp'⟩, q',
               (mem_stepSet_single A2 _ a q').2 ⟨q, hq, hq'⟩, rfl⟩
      · rintro ⟨p', hp', q', hq', rfl⟩
        obtain ⟨p, hp, hpp'⟩ := (mem_stepSet_single A1 _ a p').1 hp'
        obtain ⟨q, hq, hqq'⟩ := (mem_stepSet_single A2 _ a q').1 hq'
        rw [εNFA.mem_stepSet_iff]
        refine ⟨pair p q, (ih1 _).2 ⟨p, hp, q, hq, rfl⟩, ?_⟩
        rw [closure_noeps' B h.no_eps]
        exact (h.step p q (ih2 p hp q hq) a _).2 ⟨p', hpp', q', hqq', rfl⟩
    · intro p' hp' q' hq'
      obtain ⟨p, hp, hpp'⟩ := (mem_stepSet_single A1 _ a p').1 hp'
      obtain ⟨q, hq, hqq'⟩ := (mem_stepSet_single A2 _ a q').1 hq'
      exact h.stepD p q (ih2 p hp q hq) a p' hpp' q' hqq'

theorem product_correct (A1 A2 B : εNFA α σ) (pair : σ → σ → σ) (D : Set (σ × σ))
    (h : ProdSim A1 A2 B pair D) (x : List α) :
    x ∈ B.accepts ↔ x ∈ A1.accepts ∧ x ∈ A2.accepts := by
  obtain ⟨h1, h2⟩ := prod_eval A1 A2 B pair D h x
  constructor
  · rintro ⟨s, hacc, hs⟩
    obtain ⟨p, hp, q, hq, rfl⟩ := (h1 s).1 hs
    obtain ⟨hpa, hqa⟩ := (h.accept p q (h2 p hp q hq)).1 hacc
    exact ⟨⟨p, hpa, hp⟩, ⟨q, hqa, hq⟩⟩
  · rintro ⟨⟨p, hpa, hp⟩, ⟨q, hqa, hq⟩⟩
    exact ⟨pair p q, (h.accept p q (h2 p hp q hq)).2 ⟨hpa, hqa⟩, (h1 _).2 ⟨p, hp, q, hq, rfl⟩⟩
end Bridge
